(* C13 — One engine may be used from many threads at once.   MODEL + SPECIFICATION (no proofs here).

   Three layers, from the source text upwards:

   1. The lock / field-access table vocabulary (item, method_decl, ...) that
      tools/translate/t_Locks.py instantiates in gen/G_Locks.v, and [flatten], which
      resolves calls of member functions of the same class (private helpers are
      analysed in the lock state of each call site).

   2. The event-level concurrency model: a thread is a list of events
      (acquire / release of a mutex in a mode, read / write of a field, call markers);
      an execution is ANY interleaving of the threads' events in which every acquire
      respects the mutex semantics (exclusive excludes every other holder, shared excludes
      exclusive holders, a recursive mutex may be re-acquired by its owner; acquiring a
      non-recursive mutex one already holds, or releasing a mutex one does not hold, is
      undefined behaviour and is NOT a step: such a thread is stuck, it is not "safe").
      A critical [section] (lock kind none / shared / exclusive, reads, writes) is a
      derived notion: [section_events].
      The use() bookkeeping (m_used_files, evaluation counters) is a data semantics
      attached to three events of this layer.

   3. The section-level engine model: registration and lookup operations as state
      transformers on an abstract engine state (copy-on-write overload vectors, globals,
      types, conversions, used files, get_state / set_state); an execution is any
      interleaving (schedule) of the threads' operation lists.  Treating one operation as one
      atomic step is justified by layer 2 (C13_lockset / C13_section_exclusive): every field
      the operation touches is accessed inside one exclusive section of its mutex.

   NOT modelled (only tested, tools/p_C13.py stress under ThreadSanitizer): everything below
   the critical-section abstraction - Boxed_Value::Data flags shared through AST constants,
   the m_loc atomics of AST nodes, the thread_local maps behind Thread_Storage, shared_ptr
   control blocks, libstdc++ internals. *)
From Coq Require Import List String Bool Arith PeanoNat.
Import ListNotations.
Local Open Scope string_scope.
Local Open Scope nat_scope.
Local Open Scope list_scope.

(* ------------------------------------------------------------------------- *)
(* 1. table vocabulary                                                       *)
(* ------------------------------------------------------------------------- *)
Inductive mode := Sh | Ex.
Inductive mkind := MPlain | MRecursive.
(* FShared: ordinary member; FAtomic: std::atomic<..>; FPerThread: Thread_Storage<..>;
   FDelegated: sub-object of another analysed class (internally synchronised, has its own rows) *)
Inductive fkind := FShared | FAtomic | FPerThread | FDelegated.
(* Init: constructor / destructor (the object is not shared yet / any more);
   Callback: a lambda stored for later (runs from script evaluation, no lock of the caller held) *)
Inductive vis := Public | Private | Init | Callback.

Inductive item :=
| IAcq (m : nat) (md : mode)
| IRel (m : nat)
| IRd (f : nat)
| IWr (f : nat)
| ICall (name : string) (nargs : nat) (explicit_targs : bool).

Record mutex_decl := MkMutex { mx_id : nat; mx_class : string; mx_name : string; mx_kind : mkind }.
Record field_decl := MkField { fd_id : nat; fd_class : string; fd_name : string; fd_kind : fkind }.
Record method_decl := MkMethod { md_class : string; md_name : string; md_min : nat; md_max : nat;
                                 md_needs_targs : bool; md_vis : vis; md_body : list item }.

Inductive ev :=
| Acq (m : nat) (md : mode)
| Rel (m : nat)
| Rd (f : nat)
| Wr (f : nat)
| Call (c : string)
| Arg (file : nat)     (* the argument of the next use() call of this thread *)
| Unwind               (* an exception starts to propagate (RAII releases follow) *)
| Bad.                 (* unresolved call / exhausted fuel: never accepted by a check *)

Definition mode_eqb (a b : mode) : bool := match a, b with Sh, Sh => true | Ex, Ex => true | _, _ => false end.
Definition is_ex (a : mode) : bool := match a with Ex => true | Sh => false end.

Definition candidates (ms : list method_decl) (cls name : string) (n : nat) (targs : bool) : list method_decl :=
  filter (fun m => String.eqb (md_class m) cls && String.eqb (md_name m) name
                   && (md_min m <=? n) && (n <=? md_max m) && Bool.eqb (md_needs_targs m) targs) ms.

(* textual-order event list of a body; a call is replaced by a marker followed by the bodies of
   all overloads the call can denote (name, arity, explicit template arguments) *)
Fixpoint flatten (fuel : nat) (ms : list method_decl) (cls : string) (body : list item) : list ev :=
  match fuel with
  | O => [Bad]
  | S k =>
      flat_map (fun it =>
        match it with
        | IAcq m md => [Acq m md]
        | IRel m => [Rel m]
        | IRd f => [Rd f]
        | IWr f => [Wr f]
        | ICall name n ta =>
            match candidates ms cls name n ta with
            | [] => [Bad]
            | cs => Call name :: flat_map (fun c => flatten k ms cls (md_body c)) cs
            end
        end) body
  end.

Definition flatten_fuel : nat := 14.
Definition is_entry (m : method_decl) : bool := match md_vis m with Public | Callback => true | _ => false end.
Definition method_events (ms : list method_decl) (m : method_decl) : list ev := flatten flatten_fuel ms (md_class m) (md_body m).
Definition entry_events (ms : list method_decl) : list (list ev) := map (method_events ms) (filter is_entry ms).

(* ------------------------------------------------------------------------- *)
(* 2a. lock discipline (static)                                              *)
(* ------------------------------------------------------------------------- *)
Definition held := list (nat * mode).

Definition holds (h : held) (m : nat) : bool := existsb (fun e => fst e =? m) h.
Definition holds_ex (h : held) (m : nat) : bool := existsb (fun e => (fst e =? m) && is_ex (snd e)) h.

Fixpoint remove_first (m : nat) (h : held) : option held :=
  match h with
  | [] => None
  | e :: r => if fst e =? m then Some r else option_map (cons e) (remove_first m r)
  end.

(* PGuard m: every access holds m, writes hold it exclusively;  PReadOnly: never written after construction;
   PExempt: atomic / per-thread / delegated;  PNone: no discipline found - every access is refused *)
Inductive policy := PExempt | PReadOnly | PGuard (m : nat) | PNone.

Definition rd_ok (pol : nat -> policy) (h : held) (f : nat) : bool :=
  match pol f with PExempt => true | PReadOnly => true | PGuard m => holds h m | PNone => false end.
Definition wr_ok (pol : nat -> policy) (h : held) (f : nat) : bool :=
  match pol f with PExempt => true | PReadOnly => false | PGuard m => holds_ex h m | PNone => false end.

(* walks a program with the set of held locks; None = some access is outside its discipline *)
Fixpoint gscan (pol : nat -> policy) (h : held) (p : list ev) : option held :=
  match p with
  | [] => Some h
  | Acq m md :: r => gscan pol ((m, md) :: h) r
  | Rel m :: r => match remove_first m h with Some h' => gscan pol h' r | None => None end
  | Rd f :: r => if rd_ok pol h f then gscan pol h r else None
  | Wr f :: r => if wr_ok pol h f then gscan pol h r else None
  | Bad :: _ => None
  | _ :: r => gscan pol h r
  end.

(* a member function body: disciplined, and every lock it takes is released when it returns *)
Definition method_ok (pol : nat -> policy) (p : list ev) : bool :=
  match gscan pol [] p with Some [] => true | _ => false end.

(* choice of the discipline of a field from the table *)
Definition writes_field (f : nat) (p : list ev) : bool := existsb (fun e => match e with Wr g => g =? f | _ => false end) p.
Definition one_field_pol (f : nat) (q : policy) : nat -> policy := fun g => if g =? f then q else PExempt.
Definition guards_all (bodies : list (list ev)) (f m : nat) : bool :=
  forallb (fun p => match gscan (one_field_pol f (PGuard m)) [] p with Some _ => true | None => false end) bodies.

Definition choose_policy (mxs : list mutex_decl) (bodies : list (list ev)) (fd : field_decl) : policy :=
  match fd_kind fd with
  | FShared =>
      if negb (existsb (writes_field (fd_id fd)) bodies) then PReadOnly
      else match find (fun mx => String.eqb (mx_class mx) (fd_class fd) && guards_all bodies (fd_id fd) (mx_id mx)) mxs with
           | Some mx => PGuard (mx_id mx)
           | None => PNone
           end
  | _ => PExempt
  end.

Definition table_policy (mxs : list mutex_decl) (fds : list field_decl) (bodies : list (list ev)) : nat -> policy :=
  fun f => match find (fun fd => fd_id fd =? f) fds with
           | Some fd => choose_policy mxs bodies fd
           | None => PNone
           end.

Definition lockset_table_ok (mxs : list mutex_decl) (fds : list field_decl) (ms : list method_decl) : bool :=
  let bodies := entry_events ms in
  forallb (method_ok (table_policy mxs fds bodies)) bodies.

Definition policy_name (mxs : list mutex_decl) (p : policy) : string :=
  match p with
  | PExempt => "exempt" | PReadOnly => "read-only" | PNone => "UNGUARDED"
  | PGuard m => match find (fun mx => mx_id mx =? m) mxs with Some mx => mx_name mx | None => "?" end
  end.
Definition exempt_fields (fds : list field_decl) : list (string * string * fkind) :=
  map (fun fd => (fd_class fd, fd_name fd, fd_kind fd)) (filter (fun fd => match fd_kind fd with FShared => false | _ => true end) fds).
Definition guard_assignment (mxs : list mutex_decl) (fds : list field_decl) (ms : list method_decl) : list (string * string * string) :=
  map (fun fd => (fd_class fd, fd_name fd, policy_name mxs (table_policy mxs fds (entry_events ms) (fd_id fd))))
      (filter (fun fd => match fd_kind fd with FShared => true | _ => false end) fds).

(* critical sections as a derived notion *)
Inductive lockkind := LNone | LShared (m : nat) | LExclusive (m : nat).
Record section := MkSection { s_lock : lockkind; s_reads : list nat; s_writes : list nat }.
Definition section_events (s : section) : list ev :=
  let body := map Rd (s_reads s) ++ map Wr (s_writes s) in
  match s_lock s with
  | LNone => body
  | LShared m => Acq m Sh :: body ++ [Rel m]
  | LExclusive m => Acq m Ex :: body ++ [Rel m]
  end.

(* ------------------------------------------------------------------------- *)
(* 2b. executions                                                            *)
(* ------------------------------------------------------------------------- *)
Definition upd {A : Type} (f : nat -> A) (t : nat) (v : A) : nat -> A := fun t' => if t' =? t then v else f t'.

(* programs still to run, locks held, per thread (any number of threads: indexed by nat) *)
Definition lstate : Type := ((nat -> list ev) * (nat -> held))%type.

Definition can_acquire (kinds : nat -> mkind) (H : nat -> held) (t m : nat) (md : mode) : Prop :=
  (forall t', t' <> t -> match md with Ex => holds (H t') m = false | Sh => holds_ex (H t') m = false end)
  /\ (holds (H t) m = true -> kinds m = MRecursive /\ md = Ex).

Definition is_lock_ev (e : ev) : bool := match e with Acq _ _ | Rel _ => true | _ => false end.

Inductive lstep (kinds : nat -> mkind) : lstate -> nat -> ev -> lstate -> Prop :=
| LAcq : forall P H t m md r, P t = Acq m md :: r -> can_acquire kinds H t m md ->
    lstep kinds (P, H) t (Acq m md) (upd P t r, upd H t ((m, md) :: H t))
| LRel : forall P H t m r h', P t = Rel m :: r -> remove_first m (H t) = Some h' ->
    lstep kinds (P, H) t (Rel m) (upd P t r, upd H t h')
| LOther : forall P H t e r, P t = e :: r -> is_lock_ev e = false ->
    lstep kinds (P, H) t e (upd P t r, H).

Inductive exec (kinds : nat -> mkind) : lstate -> list (nat * ev) -> lstate -> Prop :=
| ExNil : forall s, exec kinds s [] s
| ExCons : forall s t e s1 tr s2, lstep kinds s t e s1 -> exec kinds s1 tr s2 -> exec kinds s ((t, e) :: tr) s2.

Definition no_locks : nat -> held := fun _ => [].

(* two accesses of one field conflict when at least one writes *)
Definition accesses (e : ev) (f : nat) : bool := match e with Rd g | Wr g => g =? f | _ => false end.
Definition is_write (e : ev) : bool := match e with Wr _ => true | _ => false end.

(* ------------------------------------------------------------------------- *)
(* 2c. the use() protocol                                                    *)
(* ------------------------------------------------------------------------- *)
Record use_ids := MkUseIds { ui_mutex : nat; ui_field : nat; ui_call : string }.

(* static shape of a program with respect to use(): phase 0 outside, 1 after the check of m_used_files,
   2 after the call of eval_file; the check opens a window only while the use mutex is held exclusively,
   the window is closed by the insertion (or an exception) and the use mutex is never released inside. *)
Fixpoint wscan (ids : use_ids) (h : held) (ph : nat) (p : list ev) : option (held * nat) :=
  match p with
  | [] => Some (h, ph)
  | Acq m md :: r => if negb (ph =? 0) && (m =? ui_mutex ids) then None else wscan ids ((m, md) :: h) ph r
  | Rel m :: r => if negb (ph =? 0) && (m =? ui_mutex ids) then None
                  else match remove_first m h with Some h' => wscan ids h' ph r | None => None end
  | Rd f :: r => if f =? ui_field ids then (if (ph =? 0) && holds_ex h (ui_mutex ids) then wscan ids h 1 r else None)
                 else wscan ids h ph r
  | Call c :: r => if String.eqb c (ui_call ids)
                   then match ph with 0 => wscan ids h 0 r | 1 => wscan ids h 2 r | _ => None end
                   else wscan ids h ph r
  | Wr f :: r => if f =? ui_field ids then (if ph =? 2 then wscan ids h 0 r else None) else wscan ids h ph r
  | Unwind :: r => wscan ids h 0 r
  | Arg _ :: r => if ph =? 0 then wscan ids h ph r else None
  | Bad :: _ => None
  end.

Definition use_ok (ids : use_ids) (p : list ev) : bool := match wscan ids [] 0 p with Some ([], 0) => true | _ => false end.

(* the program of one call use(f): the table's body of `use`; when the evaluation throws, the body is cut
   after the call marker and the locks held there are released in reverse order of acquisition (RAII) *)
Fixpoint held_after (h : held) (p : list ev) : held :=
  match p with
  | [] => h
  | Acq m md :: r => held_after ((m, md) :: h) r
  | Rel m :: r => held_after (match remove_first m h with Some h' => h' | None => h end) r
  | _ :: r => held_after h r
  end.
Fixpoint cut_after_call (c : string) (p : list ev) : list ev :=
  match p with
  | [] => []
  | Call d :: r => if String.eqb d c then [Call d] else Call d :: cut_after_call c r
  | e :: r => e :: cut_after_call c r
  end.
Definition use_prog (ids : use_ids) (body : list ev) (f : nat) (ok : bool) : list ev :=
  if ok then Arg f :: body
  else let pre := cut_after_call (ui_call ids) body in
       Arg f :: pre ++ Unwind :: map (fun e => Rel (fst e)) (held_after [] pre).

(* data semantics: the used-file set and evaluation counters *)
Record ustate := MkU { u_used : list nat; u_started : nat -> nat; u_finished : nat -> nat; u_thrown : nat -> nat;
                       u_returned : list (nat * nat);      (* (thread, file): use(file) returned normally *)
                       u_phase : nat -> nat; u_seen : nat -> bool; u_arg : nat -> nat }.
Definition u0 : ustate := MkU [] (fun _ => 0) (fun _ => 0) (fun _ => 0) [] (fun _ => 0) (fun _ => false) (fun _ => 0).

Definition memn (x : nat) (l : list nat) : bool := existsb (Nat.eqb x) l.
Definition bump (c : nat -> nat) (f : nat) : nat -> nat := upd c f (S (c f)).

Definition ustep (ids : use_ids) (t : nat) (e : ev) (d : ustate) : ustate :=
  match e with
  | Arg f => MkU (u_used d) (u_started d) (u_finished d) (u_thrown d) (u_returned d) (u_phase d) (u_seen d) (upd (u_arg d) t f)
  | Rd f =>
      if (f =? ui_field ids) && (u_phase d t =? 0)
      then MkU (u_used d) (u_started d) (u_finished d) (u_thrown d) (u_returned d)
               (upd (u_phase d) t 1) (upd (u_seen d) t (memn (u_arg d t) (u_used d))) (u_arg d)
      else d
  | Call c =>
      if String.eqb c (ui_call ids) && (u_phase d t =? 1)
      then MkU (u_used d) (if u_seen d t then u_started d else bump (u_started d) (u_arg d t)) (u_finished d) (u_thrown d) (u_returned d)
               (upd (u_phase d) t 2) (u_seen d) (u_arg d)
      else d
  | Wr f =>
      if (f =? ui_field ids) && (u_phase d t =? 2)
      then (if u_seen d t
            then MkU (u_used d) (u_started d) (u_finished d) (u_thrown d) ((t, u_arg d t) :: u_returned d)
                     (upd (u_phase d) t 0) (u_seen d) (u_arg d)
            else MkU (u_arg d t :: u_used d) (u_started d) (bump (u_finished d) (u_arg d t)) (u_thrown d) ((t, u_arg d t) :: u_returned d)
                     (upd (u_phase d) t 0) (u_seen d) (u_arg d))
      else d
  | Unwind =>
      if u_phase d t =? 0 then d
      else MkU (u_used d) (u_started d) (u_finished d)
               (if (u_phase d t =? 2) && negb (u_seen d t) then bump (u_thrown d) (u_arg d t) else u_thrown d) (u_returned d)
               (upd (u_phase d) t 0) (u_seen d) (u_arg d)
  | _ => d
  end.

Definition urun (ids : use_ids) (tr : list (nat * ev)) (d : ustate) : ustate :=
  fold_left (fun d te => ustep ids (fst te) (snd te) d) tr d.

(* ------------------------------------------------------------------------- *)
(* 3. engine tables: operations as state transformers                        *)
(* ------------------------------------------------------------------------- *)
Inductive gval := GInt (v : nat) (is_const : bool) | GType (k : nat).

Record tables := MkTables { t_funs : list (string * list nat);       (* name -> overload vector (shared_ptr<vector>) *)
                            t_globals : list (string * gval);
                            t_types : list (string * nat);
                            t_used : list nat }.
Record engine := MkEngine { e_tab : tables; e_convs : list (nat * nat); e_evals : list nat; e_snap : option tables }.

Definition empty_tables : tables := MkTables [] [] [] [].
Definition empty_engine : engine := MkEngine empty_tables [] [] None.

Inductive op :=
| AddFun (name : string) (fid : nat)          (* Dispatch_Engine::add_function *)
| AddGlobal (name : string) (v : nat)          (* add_global *)
| AddGlobalConst (name : string) (v : gval)    (* add_global_const *)
| SetGlobal (name : string) (v : nat)          (* set_global: insert_or_assign *)
| AddTypeEntry (name : string) (k : nat)       (* second section of add(Type_Info, name) *)
| AddConv (from to : nat)                      (* Type_Conversions::add_conversion *)
| UseFile (f : nat)                            (* ChaiScript_Basic::use, file evaluates without throwing *)
| GetFun (name : string)
| GetGlobal (name : string)
| GetType (name : string)
| HasConv (from to : nat)
| Snap                                         (* get_state, kept by the caller *)
| Restore.                                     (* set_state of the kept state *)

Inductive res := ROk | RConflict | RNoSnap | RFuns (l : list nat) | RGlobal (v : option gval) | RType (k : option nat) | RBool (b : bool).

Fixpoint lookup {A : Type} (k : string) (l : list (string * A)) : option A :=
  match l with
  | [] => None
  | (k', v) :: r => if String.eqb k' k then Some v else lookup k r
  end.
Fixpoint replace {A : Type} (k : string) (v : A) (l : list (string * A)) : list (string * A) :=
  match l with
  | [] => []
  | (k', v') :: r => if String.eqb k' k then (k', v) :: r else (k', v') :: replace k v r
  end.
Definition conv_mem (c : nat * nat) (l : list (nat * nat)) : bool := existsb (fun d => (fst d =? fst c) && (snd d =? snd c)) l.

Definition set_funs (t : tables) v := MkTables v (t_globals t) (t_types t) (t_used t).
Definition set_globals (t : tables) v := MkTables (t_funs t) v (t_types t) (t_used t).
Definition set_types (t : tables) v := MkTables (t_funs t) (t_globals t) v (t_used t).
Definition set_used (t : tables) v := MkTables (t_funs t) (t_globals t) (t_types t) v.
Definition set_tab (e : engine) t := MkEngine t (e_convs e) (e_evals e) (e_snap e).

Definition apply_op (o : op) (e : engine) : engine * res :=
  let t := e_tab e in
  match o with
  | AddFun n id =>
      match lookup n (t_funs t) with
      | Some vec => if memn id vec then (e, RConflict)
                    else (set_tab e (set_funs t (replace n (vec ++ [id]) (t_funs t))), ROk)   (* new vector, old one untouched *)
      | None => (set_tab e (set_funs t (t_funs t ++ [(n, [id])])), ROk)
      end
  | AddGlobal n v =>
      match lookup n (t_globals t) with
      | Some _ => (e, RConflict)
      | None => (set_tab e (set_globals t (t_globals t ++ [(n, GInt v false)])), ROk)
      end
  | AddGlobalConst n v =>
      match lookup n (t_globals t) with
      | Some _ => (e, RConflict)
      | None => (set_tab e (set_globals t (t_globals t ++ [(n, v)])), ROk)
      end
  | SetGlobal n v =>
      match lookup n (t_globals t) with
      | Some _ => (set_tab e (set_globals t (replace n (GInt v false) (t_globals t))), ROk)
      | None => (set_tab e (set_globals t (t_globals t ++ [(n, GInt v false)])), ROk)
      end
  | AddTypeEntry n k =>
      match lookup n (t_types t) with
      | Some _ => (e, ROk)                                        (* map::insert keeps the existing entry *)
      | None => (set_tab e (set_types t (t_types t ++ [(n, k)])), ROk)
      end
  | AddConv a b =>
      if conv_mem (a, b) (e_convs e) then (e, RConflict)
      else (MkEngine t (e_convs e ++ [(a, b)]) (e_evals e) (e_snap e), ROk)
  | UseFile f =>
      if memn f (t_used t) then (e, ROk)
      else (MkEngine (set_used t (t_used t ++ [f])) (e_convs e) (e_evals e ++ [f]) (e_snap e), ROk)
  | GetFun n => (e, RFuns (match lookup n (t_funs t) with Some v => v | None => [] end))
  | GetGlobal n => (e, RGlobal (lookup n (t_globals t)))
  | GetType n => (e, RType (lookup n (t_types t)))
  | HasConv a b => (e, RBool (conv_mem (a, b) (e_convs e)))
  | Snap => (MkEngine t (e_convs e) (e_evals e) (Some t), ROk)
  | Restore => match e_snap e with
               | Some s => (MkEngine s (e_convs e) (e_evals e) (e_snap e), ROk)    (* conversions are not part of State *)
               | None => (e, RNoSnap)
               end
  end.

Fixpoint run_ops (s : list op) (e : engine) : engine :=
  match s with [] => e | o :: r => run_ops r (fst (apply_op o e)) end.
Fixpoint run_log (s : list op) (e : engine) : list res :=
  match s with [] => [] | o :: r => snd (apply_op o e) :: run_log r (fst (apply_op o e)) end.

(* every way of interleaving the threads' operation lists (each list keeps its order) *)
Inductive Interleave : list (list op) -> list op -> Prop :=
| IL_nil : forall ts, Forall (fun t => t = []) ts -> Interleave ts []
| IL_step : forall ts1 o r ts2 s, Interleave (ts1 ++ r :: ts2) s -> Interleave (ts1 ++ (o :: r) :: ts2) (o :: s).

(* what a list of operations registers, per table *)
Definition reg_funs (o : op) : list (string * nat) := match o with AddFun n id => [(n, id)] | _ => [] end.
Definition reg_globals (o : op) : list (string * gval) :=
  match o with AddGlobal n v => [(n, GInt v false)] | AddGlobalConst n v => [(n, v)] | _ => [] end.
Definition reg_types (o : op) : list (string * nat) := match o with AddTypeEntry n k => [(n, k)] | _ => [] end.
Definition reg_convs (o : op) : list (nat * nat) := match o with AddConv a b => [(a, b)] | _ => [] end.

Definition fun_items (e : engine) : list (string * nat) := flat_map (fun nv => map (pair (fst nv)) (snd nv)) (t_funs (e_tab e)).
Definition global_items (e : engine) : list (string * gval) := t_globals (e_tab e).
Definition type_items (e : engine) : list (string * nat) := t_types (e_tab e).
Definition conv_items (e : engine) : list (nat * nat) := e_convs e.

(* registrations, lookups, use, get_state: the operations of C13_retained / C13_visible (everything but set_global
   and set_state, which overwrite / roll back entries) *)
Definition monotone_op (o : op) : bool :=
  match o with SetGlobal _ _ | Restore => false | _ => true end.

(* the registrations of a schedule are new and pairwise distinct (function: name+signature, global / type: name,
   conversion: the pair) *)
Definition fresh_regs (e : engine) (s : list op) : Prop :=
  NoDup (fun_items e ++ flat_map reg_funs s) /\
  NoDup (map fst (global_items e) ++ map fst (flat_map reg_globals s)) /\
  NoDup (map fst (type_items e) ++ map fst (flat_map reg_types s)) /\
  NoDup (conv_items e ++ flat_map reg_convs s).

(* what a later lookup section must see of a registration *)
Definition observes (o : op) (e : engine) : Prop :=
  match o with
  | AddFun n id => exists vec, lookup n (t_funs (e_tab e)) = Some vec /\ In id vec
  | AddGlobal n v => lookup n (t_globals (e_tab e)) = Some (GInt v false)
  | AddGlobalConst n v => lookup n (t_globals (e_tab e)) = Some v
  | AddTypeEntry n k => exists k', lookup n (t_types (e_tab e)) = Some k'
  | AddConv a b => conv_mem (a, b) (e_convs e) = true
  | _ => True
  end.
(* the lookup operation that asks for what o registered, and whether its result shows it *)
Definition shows (o : op) (r : res) : Prop :=
  match o with
  | AddFun n id => exists vec, r = RFuns vec /\ In id vec
  | AddGlobal n v => r = RGlobal (Some (GInt v false))
  | AddGlobalConst n v => r = RGlobal (Some v)
  | AddTypeEntry n k => exists k', r = RType (Some k')
  | AddConv a b => r = RBool true
  | _ => True
  end.
Definition lookup_for (o : op) : op :=
  match o with
  | AddFun n _ => GetFun n
  | AddGlobal n _ | AddGlobalConst n _ => GetGlobal n
  | AddTypeEntry n _ => GetType n
  | AddConv a b => HasConv a b
  | _ => Snap
  end.
