#include <chaiscript/chaiscript.hpp>
#include <iostream>
int main() {
  chaiscript::ChaiScript a, b;
  std::cout << "before: " << b.eval<bool>("is_var_undef(get_var_attr(true, \"leak\"))") << "\n";
  a.eval("get_var_attr(true, \"leak\") = 42");
  std::cout << "after in B: undef=" << b.eval<bool>("is_var_undef(get_var_attr(true, \"leak\"))") << "\n";
  try { std::cout << "value in B: " << b.eval<int>("get_var_attr(1 == 1, \"leak\")") << "\n"; } catch (const std::exception &e) { std::cout << "err " << e.what() << "\n"; }
}
