From Coq Require Import Extraction ExtrOcamlBasic ExtrOcamlString.
From ChaiV Require Import ConstRun.
Extraction "model.ml" run_line.
