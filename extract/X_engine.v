From Coq Require Import Extraction ExtrOcamlBasic ExtrOcamlString.
From ChaiV Require Import EngineRun.
Extraction "model.ml" run_line.
