From Coq Require Import Extraction ExtrOcamlBasic ExtrOcamlString.
From ChaiV Require Import NumRun.
Extraction "model.ml" run_line.
