From Coq Require Import Extraction ExtrOcamlBasic ExtrOcamlString.
From ChaiV Require Import ContRun.
Extraction "model.ml" run_line.
