From Coq Require Import Extraction ExtrOcamlBasic ExtrOcamlString.
From ChaiV Require Import ParserSpecRun.
Extraction "model.ml" run_line.
