From Coq Require Import Extraction ExtrOcamlBasic ExtrOcamlString.
From ChaiV Require Import OptRun.
Extraction "model.ml" run_line.
