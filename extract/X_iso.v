From Coq Require Import Extraction ExtrOcamlBasic ExtrOcamlString.
From ChaiV Require Import ThreadStoreRun.
Extraction "model.ml" run_line.
