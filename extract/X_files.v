From Coq Require Import Extraction ExtrOcamlBasic ExtrOcamlString.
From ChaiV Require Import FilesRun.
Extraction "model.ml" run_line.
