From Coq Require Import Extraction ExtrOcamlBasic ExtrOcamlString.
From ChaiV Require Import JsonRun.
Extraction "model.ml" run_line.
