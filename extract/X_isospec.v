From Coq Require Import Extraction ExtrOcamlBasic ExtrOcamlString.
From ChaiV Require Import ThreadStoreSpecRun.
Definition run_line := spec_line.
Extraction "model.ml" run_line.
