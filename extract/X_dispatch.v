From Coq Require Import Extraction ExtrOcamlBasic ExtrOcamlString.
From ChaiV Require Import DispatchRun.
Extraction "model.ml" run_line.
