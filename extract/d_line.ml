(* I/O only: one case per line in, one observation per line out *)
let explode s = List.init (String.length s) (String.get s)
let implode l = String.of_seq (List.to_seq l)
let () =
  try
    while true do
      let l = input_line stdin in
      print_string (implode (Model.run_line (explode l)));
      print_char '\n'
    done
  with End_of_file -> ()
