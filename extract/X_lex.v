From Coq Require Import Extraction ExtrOcamlBasic ExtrOcamlString.
From ChaiV Require Import LexRun.
Extraction "model.ml" run_line.
