From Coq Require Import Extraction ExtrOcamlBasic ExtrOcamlString.
From ChaiV Require Import PreludeRun.
Extraction "model.ml" run_line.
