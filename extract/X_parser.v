From Coq Require Import Extraction ExtrOcamlBasic ExtrOcamlString.
From ChaiV Require Import ParserRun.
Extraction "model.ml" run_line.
