From Coq Require Import Extraction ExtrOcamlBasic ExtrOcamlString.
From ChaiV Require Import FilesSpecRun.
Definition run_line := spec_line.
Extraction "model.ml" run_line.
