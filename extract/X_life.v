From Coq Require Import Extraction ExtrOcamlBasic ExtrOcamlString.
From ChaiV Require Import LifeRun.
Extraction "model.ml" run_line.
