From Coq Require Import Extraction ExtrOcamlBasic ExtrOcamlString.
From ChaiV Require Import LifeSpecRun.
Definition run_line := spec_line.
Extraction "model.ml" run_line.
