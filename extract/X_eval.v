From Coq Require Import Extraction ExtrOcamlBasic ExtrOcamlString.
From ChaiV Require Import EvalRun.
Extraction "model.ml" run_line.
