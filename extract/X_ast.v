From Coq Require Import Extraction ExtrOcamlBasic ExtrOcamlString.
From ChaiV Require Import AstRun.
Extraction "model.ml" run_line.
