// C15 — get_state / set_state: executes a history on a real engine and prints, after every step,
// the canonical view of the global environment read through routes that are independent of each other:
//   e   function_exists(name)                        (m_functions, domain)
//   F   get_state().engine_state.m_functions[name]   (m_functions, the shared overload vector, in vector order)
//   O   script get_functions()[name]                 (m_function_objects)
//   B   eval("name")                                 (m_boxed_functions)
//   c   persistent probe functions calling name(..) and 1.name(..) (cached position hints live in their ASTs)
//   globals by evaluating the names, types by type("name", false), locals by get_locals(),
//   used files by the evaluation counter and get_state().used_files, and a digest of every snapshot taken so far.
// Function identity is the Proxy_Function pointer, printed as the ordinal of its first appearance (#n).
//
// history line:  segments separated by " | "
//   N f..   function names to probe     V g..  global names     T t..  type names     L l..  local names
//   @file <sop>   append a statement to a file used by `u`        %mod <sop>  (module content: compiled into h_engine_mod*.so; ignored here)
//   <sop> | + <sop> ...   one eval of a script made of these statements
//   sop:  d NAME ARITY GUARD ID | c NAME KIND ID | ka CLS NAME ID | km CLS NAME ARITY ID | kc CLS ARITY ID
//         G NAME V | g NAME V | s NAME V | a NAME V | t NAME TY
//   top level only: u FILE | m MOD | l NAME V | S | R K
#include "hcommon.hpp"
#include "h_engine_types.hpp"
#include <fstream>
#include <map>
#include <set>

using namespace chaiscript;

namespace {
  using vf_c15::Ty;

  struct Sop { std::vector<std::string> w; };

  std::string params(int n, int from = 0) {
    std::string r;
    for (int i = from; i < n; ++i) { if (!r.empty()) r += ", "; r += "a" + std::to_string(i); }
    return r;
  }

  // script text of one statement; in_class: written inside `class CLS { ... }`
  std::string stmt(const Sop &s, bool in_class) {
    const auto &w = s.w;
    const std::string &k = w.at(0);
    if (k == "d") {
      int ar = std::stoi(w.at(2));
      std::string g = w.at(3) == "-" ? "" : " : a0 == " + w.at(3);
      return "def " + w.at(1) + "(" + params(ar) + ")" + g + " { " + w.at(4) + " }";
    }
    if (k == "ka") return in_class ? "attr " + w.at(2) + ";" : "attr " + w.at(1) + "::" + w.at(2) + ";";
    if (k == "km") {
      int ar = std::stoi(w.at(3));
      return std::string("def ") + (in_class ? "" : w.at(1) + "::") + w.at(2) + "(" + params(ar, 1) + ") { " + w.at(4) + " }";
    }
    if (k == "kc") {
      int ar = std::stoi(w.at(2));
      return std::string("def ") + (in_class ? "" : w.at(1) + "::") + w.at(1) + "(" + params(ar) + ") { }";
    }
    if (k == "G") return "global " + w.at(1) + " = " + w.at(2) + ";";
    if (k == "a") return w.at(1) + " = " + w.at(2) + ";";
    throw std::runtime_error("statement kind not expressible in a script: " + k);
  }

  bool is_class_member(const Sop &s) { return s.w[0] == "ka" || s.w[0] == "km" || s.w[0] == "kc"; }

  std::string script_of(const std::vector<Sop> &l) {
    std::string out;
    for (size_t i = 0; i < l.size();) {
      if (is_class_member(l[i]) && i + 1 < l.size() && is_class_member(l[i + 1]) && l[i + 1].w[1] == l[i].w[1]) {
        const std::string cls = l[i].w[1];
        out += "class " + cls + " {\n";
        while (i < l.size() && is_class_member(l[i]) && l[i].w[1] == cls) { out += "  " + stmt(l[i], true) + "\n"; ++i; }
        out += "}\n";
      } else {
        out += stmt(l[i], false) + "\n";
        ++i;
      }
    }
    return out;
  }

  struct Run {
    std::string scratch;
    std::unique_ptr<ChaiScript_Basic> chai;
    std::map<std::string, int> evals;
    std::vector<ChaiScript_Basic::State> snaps;
    std::map<const void *, int> ids;
    std::vector<Const_Proxy_Function> keep; // keeps every function seen alive so that addresses are never reused
    std::vector<std::string> fnames, gnames, tnames, lnames, files, mods;
    std::function<Boxed_Value(const dispatch::Proxy_Function_Base &, const std::vector<Boxed_Value> &)> call;

    std::string id(const Const_Proxy_Function &p) {
      auto it = ids.find(p.get());
      if (it == ids.end()) { it = ids.emplace(p.get(), static_cast<int>(ids.size())).first; keep.push_back(p); }
      return "#" + std::to_string(it->second);
    }
    std::string vec(const std::vector<Proxy_Function> &v) {
      std::string r = "[";
      for (size_t i = 0; i < v.size(); ++i) { if (i) r += ","; r += id(v[i]); }
      return r + "]";
    }
    std::string fobj(const Const_Proxy_Function &p) {
      if (dynamic_cast<const chaiscript::detail::Dispatch_Function *>(p.get()) != nullptr) {
        auto c = p->get_contained_functions();
        std::string r = "D[";
        for (size_t i = 0; i < c.size(); ++i) { if (i) r += ","; r += id(c[i]); }
        return r + "]";
      }
      return "S[" + id(p) + "]";
    }
    std::string show_value(const Boxed_Value &bv) {
      if (bv.is_undef()) return "undef";
      if (bv.get_type_info().bare_equal(user_type<int>())) return std::to_string(chai->boxed_cast<int>(bv));
      if (bv.get_type_info().bare_equal(user_type<bool>())) return chai->boxed_cast<bool>(bv) ? "1" : "0";
      if (bv.get_type_info().bare_equal(user_type<Type_Info>())) {
        const auto &ti = chai->boxed_cast<const Type_Info &>(bv);
        if (ti.bare_equal(user_type<Ty<0>>())) return "ty0";
        if (ti.bare_equal(user_type<Ty<1>>())) return "ty1";
        if (ti.bare_equal(user_type<Ty<2>>())) return "ty2";
        if (ti.bare_equal(user_type<Ty<3>>())) return "ty3";
        return "ty?";
      }
      if (bv.get_type_info().bare_equal(user_type<dispatch::Dynamic_Object>())) return "obj";
      return "other";
    }
    std::string type_of(const Type_Info &ti) {
      if (ti.is_undef()) return "-";
      if (ti.bare_equal(user_type<Ty<0>>())) return "0";
      if (ti.bare_equal(user_type<Ty<1>>())) return "1";
      if (ti.bare_equal(user_type<Ty<2>>())) return "2";
      if (ti.bare_equal(user_type<Ty<3>>())) return "3";
      return "?";
    }
    std::string probe(const std::string &script) {
      try { return show_value(chai->eval(script)); } catch (...) { return "E"; }
    }

    // view of one State object (the live one read through get_state(), or a saved one)
    std::string state_view(const ChaiScript_Basic::State &s) {
      std::string r;
      for (const auto &n : fnames) {
        r += " " + n + ":";
        const auto &F = s.engine_state.m_functions;
        auto f = F.find(n);
        r += "F" + (f == F.end() ? std::string("-") : vec(*f->second));
        const auto &O = s.engine_state.m_function_objects;
        auto o = O.find(n);
        r += " O" + (o == O.end() ? std::string("-") : fobj(o->second));
        const auto &B = s.engine_state.m_boxed_functions;
        auto b = B.find(n);
        r += " B" + (b == B.end() ? std::string("-") : fobj(chai->boxed_cast<Const_Proxy_Function>(b->second)));
      }
      r += " ;";
      for (const auto &n : gnames) {
        auto g = s.engine_state.m_global_objects.find(n);
        r += " " + n + "=" + (g == s.engine_state.m_global_objects.end() ? std::string("-") : show_value(g->second));
      }
      r += " ;";
      for (const auto &n : tnames) {
        auto t = s.engine_state.m_types.find(n);
        r += " " + n + "=" + (t == s.engine_state.m_types.end() ? std::string("-") : type_of(t->second));
      }
      r += " ; U[";
      bool first = true;
      for (const auto &f : files)
        if (s.used_files.count(scratch + "/" + f)) { if (!first) r += ","; r += f; first = false; }
      r += "] M[";
      first = true;
      for (const auto &m : mods)
        if (s.active_loaded_modules.count(m)) { if (!first) r += ","; r += m; first = false; }
      return r + "]";
    }

    // the live environment through the independent routes
    std::string live_view() {
      std::string r;
      std::map<std::string, Boxed_Value> fobjs;
      try { fobjs = chai->eval<std::map<std::string, Boxed_Value>>("get_functions()"); } catch (...) { r += " get_functions:E"; }
      for (const auto &n : fnames) {
        r += " " + n + ":e" + probe("function_exists(\"" + n + "\")");
        auto o = fobjs.find(n);
        r += " O" + (o == fobjs.end() ? std::string("-") : fobj(chai->boxed_cast<Const_Proxy_Function>(o->second)));
        std::string b;
        try { b = fobj(chai->boxed_cast<Const_Proxy_Function>(chai->eval(n))); } catch (...) { b = "-"; }
        r += " B" + b;
        r += " c[" + probe("__c0_" + n + "()") + "," + probe("__c1_" + n + "()") + "," + probe("__c2_" + n + "()") + "," + probe("__c11_" + n + "()") + "]";
        r += " m[" + probe("__m1_" + n + "()") + "," + probe("__m2_" + n + "()") + "," + probe("__m11_" + n + "()") + "]";
      }
      r += " ;";
      for (const auto &n : gnames) r += " " + n + "=" + probe(n);
      r += " ;";
      for (const auto &n : tnames) {
        std::string t;
        try { t = type_of(chai->eval<Type_Info>("type(\"" + n + "\", false)")); } catch (...) { t = "E"; }
        r += " " + n + "=" + t;
      }
      r += " ; L";
      auto locals = chai->get_locals();
      for (const auto &n : lnames) {
        auto l = locals.find(n);
        r += " " + n + "=" + (l == locals.end() ? std::string("-") : show_value(l->second));
      }
      r += " ; ev";
      for (const auto &f : files) r += " " + f + "=" + std::to_string(evals[f]);
      return r;
    }
  };

  std::string run_history(const std::string &scratch, const std::string &line) {
    Run R;
    R.scratch = scratch;
    std::map<std::string, std::vector<Sop>> filec;
    std::vector<std::vector<Sop>> steps;
    std::vector<std::string> segs;
    {
      size_t pos = 0;
      while (true) {
        size_t e = line.find(" | ", pos);
        segs.push_back(line.substr(pos, e == std::string::npos ? std::string::npos : e - pos));
        if (e == std::string::npos) break;
        pos = e + 3;
      }
    }
    for (const auto &seg : segs) {
      auto w = vf::split(seg);
      if (w.empty() || w[0].empty()) continue;
      auto rest = std::vector<std::string>(w.begin() + 1, w.end());
      if (w[0] == "N") R.fnames = rest;
      else if (w[0] == "V") R.gnames = rest;
      else if (w[0] == "T") R.tnames = rest;
      else if (w[0] == "L") R.lnames = rest;
      else if (w[0][0] == '@') {
        std::string f = w[0].substr(1);
        if (!filec.count(f)) R.files.push_back(f);
        filec[f];
        if (!rest.empty()) filec[f].push_back(Sop{rest});
      } else if (w[0][0] == '%') {
        std::string m = w[0].substr(1);
        if (std::find(R.mods.begin(), R.mods.end(), m) == R.mods.end()) R.mods.push_back(m);
      } else if (w[0] == "+") {
        if (steps.empty()) return "BADCASE";
        steps.back().push_back(Sop{rest});
      } else steps.push_back({Sop{w}});
    }
    for (const auto &f : R.files) {
      std::ofstream o(scratch + "/" + f, std::ios::binary | std::ios::trunc);
      o << "bump(\"" << f << "\")\n" << script_of(filec[f]);
    }
    R.chai = vf::make_engine(true, {scratch + "/"}, {scratch + "/"});
    auto &chai = *R.chai;
    chai.add(fun([&R](const std::string &f) { ++R.evals[f]; }), "bump");
    for (const auto &n : R.fnames) {
      chai.eval("def __c0_" + n + "() { " + n + "() }\n def __c1_" + n + "() { " + n + "(1) }\n def __c2_" + n + "() { " + n + "(2) }\n def __c11_" + n
                + "() { " + n + "(1, 1) }\n def __m1_" + n + "() { 1." + n + "() }\n def __m2_" + n + "() { 2." + n + "() }\n def __m11_" + n
                + "() { 1." + n + "(1) }\n");
    }
    std::string out;
    for (const auto &st : steps) {
      std::string oc = "OK";
      try {
        const auto &w = st[0].w;
        const std::string &k = w[0];
        if (st.size() > 1 || k == "d" || k == "ka" || k == "km" || k == "kc" || k == "G" || k == "a") {
          chai.eval(script_of(st));
        } else if (k == "c") {
          int kind = std::stoi(w.at(2)), idv = std::stoi(w.at(3));
          if (kind == 0) chai.add(fun([idv]() { return idv; }), w.at(1));
          else if (kind == 1) chai.add(fun([idv](int) { return idv; }), w.at(1));
          else if (kind == 2) chai.add(fun([idv](int, int) { return idv; }), w.at(1));
          else return "BADCASE";
        } else if (k == "g") chai.add_global(var(std::stoi(w.at(2))), w.at(1));
        else if (k == "s") chai.set_global(var(std::stoi(w.at(2))), w.at(1));
        else if (k == "t") {
          int ty = std::stoi(w.at(2));
          if (ty == 0) chai.add(user_type<Ty<0>>(), w.at(1));
          else if (ty == 1) chai.add(user_type<Ty<1>>(), w.at(1));
          else if (ty == 2) chai.add(user_type<Ty<2>>(), w.at(1));
          else if (ty == 3) chai.add(user_type<Ty<3>>(), w.at(1));
          else return "BADCASE";
        } else if (k == "u") chai.use(w.at(1));
        else if (k == "m") chai.load_module(w.at(1), scratch + "/" + w.at(1) + ".so");
        else if (k == "l") chai.add(var(std::stoi(w.at(2))), w.at(1));
        else if (k == "S") R.snaps.push_back(chai.get_state());
        else if (k == "R") {
          size_t i = static_cast<size_t>(std::stoul(w.at(1)));
          if (i >= R.snaps.size()) oc = "ERR(snap)";
          else chai.set_state(R.snaps[i]);
        } else return "BADCASE";
      } catch (...) {
        std::string cls = vf::classify_current_exception();
        oc = cls == "file_not_found_error" ? "ERR(file)" : "ERR(" + cls + ")";
      }
      if (!out.empty()) out += " || ";
      out += oc + " ;" + R.live_view() + " ;;" + R.state_view(chai.get_state());
      for (size_t i = 0; i < R.snaps.size(); ++i) out += " ;; S" + std::to_string(i) + R.state_view(R.snaps[i]);
    }
    return out;
  }
} // namespace

int main(int argc, char **argv) {
  if (argc < 2) { std::cerr << "usage: h_engine <scratch dir>\n"; return 2; }
  std::string scratch = argv[1];
  return vf::run_cases([&](const std::string &line) { return run_history(scratch, line); });
}
