// C13 harness: engine-table operations on ONE engine, sequentially (tie of the state-transformer model) and from
// many threads at once (ThreadSanitizer stress).  Token vocabulary: see coq/theories/ConcSpecRun.v.
//   h_threads seq   < lines "seq tok tok ..."                 -> "r r r | inventory"      (fresh engine per line)
//   h_threads solo  < lines "T seed ymode | toks | toks ..."  -> "t0: r r ; t1: r r | -"  (each thread alone, fresh engine)
//   h_threads mt    < ONE line, same format                   -> "t0: r r ; t1: r r | inventory"   (threads, one engine)
#include "hcommon.hpp"
#include <atomic>
#include <chrono>
#include <fstream>
#include <optional>
#include <random>
#include <thread>
#include <algorithm>

using namespace chaiscript;

template<int K> struct VT { int v; };
static std::atomic<int> g_counter[16];
static std::atomic<int> g_flag[64];
static void vf_bump(int k) { if (k >= 0 && k < 16) ++g_counter[k]; }
static int cf0() { return 100; }
static int cf1(int a) { return 101 + a; }
static int cf2(double) { return 102; }
static int cf3(const std::string &) { return 103; }
static int shared_add(int a, int b) { return a + b; }
template<int K> static VT<K> vt_make() { return VT<K>{K}; }
template<int K> static int vt_take(const VT<K> &x) { return x.v; }

static std::string g_dir;

static std::unique_ptr<ChaiScript_Basic> new_engine() {
  auto chai = vf::make_engine(true, {}, {g_dir + "/"});
  chai->add(fun(&vf_bump), "vf_bump");
  chai->add(fun(&shared_add), "shared_add");
  chai->add(fun(&vt_make<0>), "vt_make_0"); chai->add(fun(&vt_make<1>), "vt_make_1");
  chai->add(fun(&vt_make<2>), "vt_make_2"); chai->add(fun(&vt_make<3>), "vt_make_3");
  chai->add(fun(&vt_take<0>), "vt_take_0"); chai->add(fun(&vt_take<1>), "vt_take_1");
  chai->add(fun(&vt_take<2>), "vt_take_2"); chai->add(fun(&vt_take<3>), "vt_take_3");
  chai->eval("def shared_script(x) { x * 2 + 1 }; def shared_pick(a, b) { if (a > b) { a } else { b } }");
  chai->add_global_const(const_var(1000), "shared_const");
  return chai;
}

template<int A, int B> static void add_conv(ChaiScript_Basic &c) {
  c.add(chaiscript::type_conversion<VT<A>, VT<B>>([](const VT<A> &a) { return VT<B>{a.v + 10}; }));
}
static void add_conv_rt(ChaiScript_Basic &c, int a, int b) {
  switch (a * 4 + b) {
#define CV(A, B) case A * 4 + B: add_conv<A, B>(c); return;
    CV(0, 1) CV(0, 2) CV(0, 3) CV(1, 0) CV(1, 2) CV(1, 3) CV(2, 0) CV(2, 1) CV(2, 3) CV(3, 0) CV(3, 1) CV(3, 2)
#undef CV
    default: throw std::logic_error("bad conversion index");
  }
}
static Type_Info vt_info(int k) {
  switch (k) { case 0: return user_type<VT<0>>(); case 1: return user_type<VT<1>>(); case 2: return user_type<VT<2>>(); default: return user_type<VT<3>>(); }
}
static int vt_index(const Type_Info &ti) {
  for (int k = 0; k < 4; ++k) if (vt_info(k).bare_equal(ti)) return k;
  return 99;
}

static int fid_of(const Proxy_Function &f) {
  if (std::dynamic_pointer_cast<const dispatch::Dynamic_Proxy_Function>(f)) return f->get_arity();
  const auto &pt = f->get_param_types();
  if (pt.size() == 1) return 100;
  if (pt.size() == 2 && pt[1].bare_equal(user_type<int>())) return 101;
  if (pt.size() == 2 && pt[1].bare_equal(user_type<double>())) return 102;
  if (pt.size() == 2 && pt[1].bare_equal(user_type<std::string>())) return 103;
  return 199;
}
static std::string fids(const std::vector<Proxy_Function> &v) {
  std::vector<int> ids;
  for (const auto &f : v) ids.push_back(fid_of(f));
  std::sort(ids.begin(), ids.end());
  std::string s;
  for (size_t i = 0; i < ids.size(); ++i) s += (i ? "," : "") + std::to_string(ids[i]);
  return s;
}
static std::string show_global(const ChaiScript_Basic &chai, const Boxed_Value &bv) {
  if (bv.get_type_info().bare_equal(user_type<Type_Info>())) return "type:" + std::to_string(vt_index(chai.boxed_cast<const Type_Info &>(bv)));
  return std::to_string(chai.boxed_cast<int>(bv)) + (bv.is_const() ? "c" : "m");
}
static bool has_conv(ChaiScript_Basic &chai, int a, int b) {
  try {
    chai.eval("vt_take_" + std::to_string(b) + "(vt_make_" + std::to_string(a) + "())");
    return true;
  } catch (const exception::eval_error &) {
    return false;
  } catch (const exception::dispatch_error &) {
    return false;
  } catch (const exception::bad_boxed_cast &) {
    return false;
  }
}
static bool pfx(const std::string &s, const char *p) { return s.rfind(p, 0) == 0; }

static std::string inventory(ChaiScript_Basic &chai) {
  auto st = chai.get_state();
  std::string s = "F[";
  for (const auto &p : st.engine_state.m_functions) if (pfx(p.first, "vf_") && p.first != "vf_bump") s += " " + p.first + ":" + fids(*p.second);
  s += " ] G[";
  for (const auto &p : st.engine_state.m_global_objects) if (pfx(p.first, "vg_") || pfx(p.first, "VN")) s += " " + p.first + "=" + show_global(chai, p.second);
  s += " ] T[";
  for (const auto &p : st.engine_state.m_types) if (pfx(p.first, "VN")) s += " " + p.first + "=" + std::to_string(vt_index(p.second));
  s += " ] V[";
  for (int a = 0; a < 4; ++a) for (int b = 0; b < 4; ++b) if (a != b && has_conv(chai, a, b)) s += " " + std::to_string(a) + ">" + std::to_string(b);
  s += " ] U[";
  for (const auto &f : st.used_files) {
    auto p = f.rfind("/f");
    s += " " + (p == std::string::npos ? f : f.substr(p + 2, f.size() - p - 2 - 5));
  }
  s += " ] E[";
  for (int k = 0; k < 16; ++k) for (int i = 0; i < g_counter[k].load(); ++i) s += " " + std::to_string(k);
  s += " ]";
  return s;
}

struct Ctx {
  ChaiScript_Basic &chai;
  bool solo = false;
  std::optional<ChaiScript_Basic::State> snap;
};

static std::string defun(const std::string &name, int k) {
  std::string ps, sum = std::to_string(k * 1000);
  for (int i = 0; i < k; ++i) { ps += (i ? ", p" : "p") + std::to_string(i); sum += " + p" + std::to_string(i); }
  return "def " + name + "(" + ps + ") { " + sum + " }";
}

static std::string do_op(Ctx &c, const std::string &tok) {
  auto f = vf::split(tok, ':');
  const std::string &o = f[0];
  auto &chai = c.chai;
  try {
    if (o == "F" || o == "P") {
      chai.eval(defun(f[1], std::stoi(f[2])));
      if (o == "P") g_flag[std::stoi(f[3])].store(1);
      return "ok";
    }
    if (o == "C") {
      switch (std::stoi(f[2])) {
        case 0: chai.add(fun(&cf0), f[1]); break;
        case 1: chai.add(fun(&cf1), f[1]); break;
        case 2: chai.add(fun(&cf2), f[1]); break;
        default: chai.add(fun(&cf3), f[1]); break;
      }
      return "ok";
    }
    if (o == "G") { chai.add_global(var(std::stoi(f[2])), f[1]); return "ok"; }
    if (o == "K") { chai.add_global_const(const_var(std::stoi(f[2])), f[1]); return "ok"; }
    if (o == "S") { chai.set_global(var(std::stoi(f[2])), f[1]); return "ok"; }
    if (o == "T") { chai.add(vt_info(std::stoi(f[2])), f[1]); return "ok"; }
    if (o == "V") { add_conv_rt(chai, std::stoi(f[1]), std::stoi(f[2])); return "ok"; }
    if (o == "U") { chai.use("f" + f[1] + ".chai"); return "ok"; }
    if (o == "N") { c.snap = chai.get_state(); return "ok"; }
    if (o == "M") { if (!c.snap) return "nosnap"; chai.set_state(*c.snap); return "ok"; }
    if (o == "Z") { auto st = chai.get_state(); return st.engine_state.m_functions.size() > 0 ? "ok" : "EMPTY"; }
    if (o == "L" || o == "W") {
      if (o == "W" && !c.solo) {
        auto t0 = std::chrono::steady_clock::now();
        while (g_flag[std::stoi(f[2])].load() == 0) {
          std::this_thread::yield();
          if (std::chrono::steady_clock::now() - t0 > std::chrono::seconds(20)) return "timeout";
        }
      }
      if (o == "W" && c.solo) return "seen";
      auto st = chai.get_state();
      const auto itr = st.engine_state.m_functions.find(f[1]);
      const bool in_state = itr != st.engine_state.m_functions.end();
      const bool exists = chai.eval<bool>("function_exists(\"" + f[1] + "\")");
      if (o == "W") return (in_state && exists) ? "seen" : "MISSING";
      if (in_state != exists) return "INCONSISTENT";
      if (!in_state) return "n=0[]";
      return "n=" + std::to_string(itr->second->size()) + "[" + fids(*itr->second) + "]";
    }
    if (o == "Q") {
      try {
        return "v=" + show_global(chai, chai.eval(f[1]));
      } catch (const exception::eval_error &) {
        return "none";
      }
    }
    if (o == "Y") {
      auto st = chai.get_state();
      const auto itr = st.engine_state.m_types.find(f[1]);
      if (itr == st.engine_state.m_types.end()) return "none";
      return "k=" + std::to_string(vt_index(itr->second));
    }
    if (o == "H") return has_conv(chai, std::stoi(f[1]), std::stoi(f[2])) ? "yes" : "no";
    // --- evaluation operations (not in the Coq model; compared with the thread's solo run)
    if (o == "D") { chai.eval("var lx = " + f[1] + "; var ly = " + f[1] + " + 1"); return "ok"; }
    if (o == "E") {
      int r = chai.eval<int>("{ var i = 0; while (i < " + f[2] + ") { lx = (lx * 3 + " + f[1] + " + shared_add(i, ly) + shared_script(i) + shared_const) % 10007; ++i } }; lx");
      return "=" + std::to_string(r);
    }
    if (o == "X") { return "=" + std::to_string(chai.eval<int>(f[1] + "(" + (f.size() > 2 ? f[2] : std::string()) + ")")); }
    if (o == "O") {
      int r = chai.eval<int>("class " + f[1] + " { var v; def " + f[1] + "(x) { this.v = x }; def get_" + f[1] + "() { shared_pick(this.v, 0) } }; var o_" + f[1]
                             + " = " + f[1] + "(" + f[2] + "); o_" + f[1] + ".get_" + f[1] + "()");
      return "=" + std::to_string(r);
    }
    return "?";
  } catch (const exception::name_conflict_error &) {
    return "conflict";
  } catch (const exception::conversion_error &) {
    return "conflict";
  } catch (const exception::eval_error &e) {
    if (e.reason.rfind("Function redefined", 0) == 0) return "conflict";
    return "ERR(eval_error:" + e.reason.substr(0, 40) + ")";
  } catch (...) {
    std::string d;
    std::string k = vf::classify_current_exception(&d);
    return "ERR(" + k + ")";
  }
}

static void reset_globals() {
  for (auto &c : g_counter) c.store(0);
  for (auto &fl : g_flag) fl.store(0);
}

static std::string run_seq(const std::string &line) {
  reset_globals();
  auto toks = vf::split(line, ' ');
  if (toks.empty() || toks[0] != "seq") return "?";
  auto chai = new_engine();
  Ctx c{*chai};
  std::string out;
  for (size_t i = 1; i < toks.size(); ++i) {
    if (toks[i].empty()) continue;
    out += (out.empty() ? "" : " ") + do_op(c, toks[i]);
  }
  return out + " | " + inventory(*chai);
}

struct Mix {
  int T = 0;
  unsigned seed = 0;
  int ymode = 0;
  std::vector<std::vector<std::string>> ops;
};
static Mix parse_mix(const std::string &line) {
  Mix m;
  auto parts = vf::split(line, '|');
  std::istringstream hd(parts[0]);
  hd >> m.T >> m.seed >> m.ymode;
  for (size_t i = 1; i < parts.size(); ++i) {
    std::vector<std::string> v;
    for (auto &t : vf::split(parts[i], ' ')) if (!t.empty()) v.push_back(t);
    m.ops.push_back(v);
  }
  return m;
}

static void perturb(std::mt19937 &rng, int ymode) {
  if (ymode == 0) return;
  switch (rng() % 8) {
    case 0: case 1: break;
    case 2: case 3: std::this_thread::yield(); break;
    case 4: std::this_thread::sleep_for(std::chrono::microseconds(30 * ymode)); break;
    case 5: std::this_thread::sleep_for(std::chrono::microseconds(150 * ymode)); break;
    case 6: { volatile unsigned x = 0; for (unsigned n = rng() % 3000; n > 0; --n) x += n; break; }
    default: std::this_thread::yield(); std::this_thread::yield(); std::this_thread::yield(); break;
  }
}

static std::string join_results(const std::vector<std::vector<std::string>> &res) {
  std::string out;
  for (size_t t = 0; t < res.size(); ++t) {
    out += (t ? " ; t" : "t") + std::to_string(t) + ":";
    for (auto &r : res[t]) out += " " + r;
  }
  return out;
}

static std::string run_solo(const std::string &line) {
  Mix m = parse_mix(line);
  std::vector<std::vector<std::string>> res(m.ops.size());
  for (size_t t = 0; t < m.ops.size(); ++t) {
    reset_globals();
    auto chai = new_engine();
    Ctx c{*chai, true};
    for (auto &tok : m.ops[t]) res[t].push_back(do_op(c, tok));
  }
  return join_results(res) + " | -";
}

static std::string run_mt(const std::string &line) {
  Mix m = parse_mix(line);
  reset_globals();
  auto chai = new_engine();
  std::vector<std::vector<std::string>> res(m.ops.size());
  std::atomic<int> ready{0};
  std::atomic<bool> go{false};
  std::vector<std::thread> th;
  for (size_t t = 0; t < m.ops.size(); ++t) {
    th.emplace_back([&, t]() {
      std::mt19937 rng(m.seed * 1000003u + static_cast<unsigned>(t) * 7919u + 1u);
      Ctx c{*chai};
      ++ready;
      while (!go.load()) std::this_thread::yield();
      for (auto &tok : m.ops[t]) {
        perturb(rng, m.ymode);
        res[t].push_back(do_op(c, tok));
      }
    });
  }
  while (ready.load() < static_cast<int>(m.ops.size())) std::this_thread::yield();
  go.store(true);
  for (auto &x : th) x.join();
  return join_results(res) + " | " + inventory(*chai);
}

int main(int argc, char **argv) {
  std::string mode = argc > 1 ? argv[1] : "seq";
  char tmpl[] = "/tmp/vf_c13_XXXXXX";
  if (!mkdtemp(tmpl)) return 3;
  g_dir = tmpl;
  for (int k = 0; k < 16; ++k) {
    std::ofstream o(g_dir + "/f" + std::to_string(k) + ".chai");
    o << "vf_bump(" << k << ")\n";
  }
  int rc = 0;
  if (mode == "seq") rc = vf::run_cases(run_seq);
  else if (mode == "solo") rc = vf::run_cases(run_solo);
  else if (mode == "mt") {
    std::string l;
    std::getline(std::cin, l);
    std::cout << run_mt(l) << std::endl;
  } else rc = 2;
  for (int k = 0; k < 16; ++k) std::remove((g_dir + "/f" + std::to_string(k) + ".chai").c_str());
  rmdir(g_dir.c_str());
  return rc;
}
