// C05 harness: evaluate one arithmetic expression on typed operands and report
// (width/sign/float class, exact value bits) of the result and of `a` afterwards.
// case line:  <route> <op> <ltype> <lval> <rtype> <rval> [noopt]   (rtype/rval '-' for unary)
#include "hcommon.hpp"
#include <cmath>
#include <cstdint>
#include <limits>
using namespace chaiscript;

template<typename T> static std::string cls() {
  if constexpr (std::is_same_v<T, bool>) return "bool";
  else if constexpr (std::is_floating_point_v<T>) return sizeof(T) == 4 ? "f32" : sizeof(T) == 8 ? "f64" : "f80";
  else return std::string(std::is_signed_v<T> ? "i" : "u") + std::to_string(sizeof(T) * 8);
}
template<typename T> static std::string bits(T v) {
  if constexpr (std::is_same_v<T, bool>) return v ? "1" : "0";
  else if constexpr (std::is_floating_point_v<T>) {
    if (v != v) return "nan";
    unsigned char b[16] = {0};
    size_t n = sizeof(T) == 16 ? 10 : sizeof(T);
    std::memcpy(b, &v, n);
    std::string r;
    static const char *d = "0123456789abcdef";
    for (size_t i = n; i-- > 0;) { r.push_back(d[b[i] >> 4]); r.push_back(d[b[i] & 15]); }
    return r;
  } else if constexpr (std::is_signed_v<T>) return std::to_string(static_cast<long long>(v));
  else return std::to_string(static_cast<unsigned long long>(v));
}
template<typename T> static bool show_as(const Boxed_Value &bv, std::string &out) {
  if (bv.get_type_info().bare_equal(user_type<T>())) {
    out = cls<T>() + ":" + bits<T>(*static_cast<const T *>(bv.get_const_ptr()));
    return true;
  }
  return false;
}
static std::string show(const Boxed_Value &bv) {
  std::string o;
  if (bv.is_undef()) return "undef";
  if (show_as<bool>(bv, o) || show_as<int>(bv, o) || show_as<unsigned>(bv, o) || show_as<long>(bv, o) || show_as<unsigned long>(bv, o)
      || show_as<long long>(bv, o) || show_as<unsigned long long>(bv, o) || show_as<char>(bv, o) || show_as<signed char>(bv, o)
      || show_as<unsigned char>(bv, o) || show_as<short>(bv, o) || show_as<unsigned short>(bv, o) || show_as<wchar_t>(bv, o)
      || show_as<char16_t>(bv, o) || show_as<char32_t>(bv, o) || show_as<float>(bv, o) || show_as<double>(bv, o) || show_as<long double>(bv, o))
    return o;
  return std::string("other:") + bv.get_type_info().bare_name();
}
template<typename T> static T parse_val(const std::string &s) {
  if constexpr (std::is_floating_point_v<T>) {
    if (s == "nan") return std::numeric_limits<T>::quiet_NaN();
    unsigned char b[16] = {0};
    size_t n = sizeof(T) == 16 ? 10 : sizeof(T);
    std::string raw = vf::unhex(s);
    for (size_t i = 0; i < n && i < raw.size(); ++i) b[n - 1 - i] = static_cast<unsigned char>(raw[i]);
    T v;
    std::memcpy(&v, b, sizeof(T) == 16 ? 16 : n);
    return v;
  } else if constexpr (std::is_signed_v<T>) return static_cast<T>(std::stoll(s));
  else return static_cast<T>(std::stoull(s));
}
static Boxed_Value mk(const std::string &ty, const std::string &v) {
#define TY(n, T) if (ty == n) return Boxed_Value(parse_val<T>(v));
  TY("int8", std::int8_t) TY("uint8", std::uint8_t) TY("int16", std::int16_t) TY("uint16", std::uint16_t)
  TY("int", int) TY("uint", unsigned) TY("long", long) TY("ulong", unsigned long) TY("llong", long long) TY("ullong", unsigned long long)
  TY("char", char) TY("uchar", unsigned char) TY("wchar", wchar_t) TY("char16", char16_t) TY("char32", char32_t)
  TY("float", float) TY("double", double) TY("ldouble", long double)
#undef TY
  if (ty == "cint") return const_var(parse_val<int>(v));
  if (ty == "cdouble") return const_var(parse_val<double>(v));
  throw std::runtime_error("bad type " + ty);
}

static std::string literal(const std::string &ty, const std::string &v) {
  auto neg = [](const std::string &x) { return !x.empty() && x[0] == '-'; };
  if (ty == "int" || ty == "cint") {
    if (v == "-2147483648") return "(-2147483647-1)";
    return neg(v) ? "(" + v + ")" : v;
  }
  if (ty == "uint") return v + "u";
  if (ty == "long") {
    if (v == "-9223372036854775808") return "(-9223372036854775807l-1l)";
    return neg(v) ? "(" + v + "l)" : v + "l";
  }
  if (ty == "ulong") return v + "ul";
  if (ty == "llong") {
    if (v == "-9223372036854775808") return "(-9223372036854775807ll-1ll)";
    return neg(v) ? "(" + v + "ll)" : v + "ll";
  }
  if (ty == "ullong") return v + "ull";
  if (ty == "float" || ty == "double" || ty == "ldouble" || ty == "cdouble") {
    long double x = ty == "float" ? parse_val<float>(v) : ty == "ldouble" ? parse_val<long double>(v) : parse_val<double>(v);
    char buf[128];
    snprintf(buf, sizeof buf, "%.6Lf", x < 0 ? -x : x);
    if (std::strtold(buf, nullptr) != (x < 0 ? -x : x)) throw std::runtime_error("no exact literal");
    std::string t = std::string(buf) + (ty == "float" ? "f" : ty == "ldouble" ? "l" : "");
    return x < 0 || std::signbit(static_cast<double>(x)) ? "(-" + t + ")" : t;
  }
  throw std::runtime_error("no literal for " + ty);
}

int main(int argc, char **argv) {
  if (argc > 1 && std::string(argv[1]) == "platform") {
    std::cout << "char_signed=" << std::is_signed_v<char> << " long=" << sizeof(long) << " llong=" << sizeof(long long) << " wchar=" << sizeof(wchar_t)
              << " wchar_signed=" << std::is_signed_v<wchar_t> << " char16_signed=" << std::is_signed_v<char16_t> << " char32_signed=" << std::is_signed_v<char32_t>
              << " int=" << sizeof(int) << " ldouble_digits=" << std::numeric_limits<long double>::digits << "\n";
    return 0;
  }
  std::unique_ptr<ChaiScript_Basic> eng[2];
  auto fn = [&](const std::string &line) -> std::string {
    auto f = vf::split(line);
    if (f.size() < 6) return "BADCASE";
    bool opt = !(f.size() > 6 && f[6] == "noopt");
    auto &chai = eng[opt ? 1 : 0];
    if (!chai) chai = vf::make_engine(opt);
    const std::string &route = f[0], &op = f[1];
    std::string script;
    std::map<std::string, Boxed_Value> locals;
    Boxed_Value a, b;
    bool has_a = false;
    try {
      if (route == "fold") script = literal(f[2], f[3]) + " " + op + " " + literal(f[4], f[5]);
      else if (route == "foldu") script = op + literal(f[2], f[3]);
      else {
        a = mk(f[2], f[3]); locals["a"] = a; has_a = true;
        if (route == "foldr") script = "a " + op + " " + literal(f[4], f[5]);
        else if (route == "self") script = "a " + op + " a";      // one variable on both sides (what a self-comparison fold would touch)
        else if (route == "pre") script = op + "a";
        else if (route == "fnu") script = "`" + op + "`(a)";
        else {
          b = mk(f[4], f[5]); locals["b"] = b;
          if (route == "bin" || route == "asg") script = "a " + op + " b";
          else if (route == "fn") script = "`" + op + "`(a, b)";
          else return "BADCASE";
        }
      }
    } catch (const std::exception &e) { return std::string("BADCASE ") + e.what(); }
    chai->set_locals(locals);
    std::string res;
    try {
      Boxed_Value r = chai->eval(script);
      res = show(r);
      if (has_a && r.get_const_ptr() != nullptr && r.get_const_ptr() == a.get_const_ptr()) res += " same";
    } catch (...) {
      res = "ERR(" + vf::classify_current_exception() + ")";
    }
    if (has_a) res += " | a=" + show(a);
    return res;
  };
  return vf::run_cases(fn);
}
