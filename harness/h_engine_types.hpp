// C15: C++ types registered by the history harness and by its loadable modules (named, so that
// std::type_info compares equal across the executable and the shared object)
#pragma once
namespace vf_c15 {
  template<int K> struct Ty { int v = K; };
}
