// C12 harness: run one operation sequence on a built-in container, one script statement per step,
// and report the result / error class of every step together with the full container contents and
// the positions of the live range views.
//
// case line:   <Kind> <step>;<step>;...          Kind in Vector | List | string | Map | Pair
// step:        <target> <op> <arg>...            target c (container), k (same container, const),
//                                                r (range made from c), q (range made from k)
// special ops: mkrange (c -> r, k -> q), set i x (c[i] = x), setfirst x / setsecond x (c.first = x)
// args:        decimal integer | zN (size_t(N)) | 'N (char(N)) | "abc (string) | {a=1,b=2 (Map) | <a=1 (Map_Pair)
// A leading '!' on the kind keeps the views alive across structural modifications (the separately recorded
// "modify while iterating" case; such lines are never judged).  Otherwise the views r/q are dropped after every
// successful step on c/k that is not a const observer, exactly like the model's world semantics.
// observation: per step  `OK <value> | <contents> | r=b,e q=b,e`  or `ERR(class) | ...`, joined by " ;; "
#include "hcommon.hpp"
#include <chaiscript/dispatchkit/bootstrap_stl.hpp>
#include <list>
using namespace chaiscript;
namespace sl = chaiscript::bootstrap::standard_library;

using Vec = std::vector<Boxed_Value>;
using Lst = std::list<Boxed_Value>;
using Str = std::string;
using Map = std::map<std::string, Boxed_Value>;
using Pr = std::pair<Boxed_Value, Boxed_Value>;
using MapPair = std::pair<const std::string, Boxed_Value>;

static std::string show_str(const std::string &s) {
  std::string r = "\"";
  static const char *d = "0123456789abcdef";
  for (unsigned char c : s) {
    if ((c >= 'a' && c <= 'z') || (c >= 'A' && c <= 'Z') || (c >= '0' && c <= '9')) r.push_back(static_cast<char>(c));
    else { r += "\\x"; r.push_back(d[c >> 4]); r.push_back(d[c & 15]); }
  }
  return r;
}

static std::string show(const Boxed_Value &bv) {
  if (bv.is_undef()) return "u";
  const auto &ti = bv.get_type_info();
  if (ti.bare_equal(user_type<void>())) return "v";
  if (ti.is_pointer()) return "p";
  if (ti.bare_equal(user_type<bool>())) return *static_cast<const bool *>(bv.get_const_ptr()) ? "true" : "false";
  if (ti.bare_equal(user_type<char>())) return "'" + std::to_string(static_cast<unsigned>(static_cast<unsigned char>(*static_cast<const char *>(bv.get_const_ptr()))));
  if (ti.is_arithmetic()) {
    Boxed_Number n(bv);
    if (ti.bare_equal(user_type<size_t>()) || ti.bare_equal(user_type<unsigned long long>()) || ti.bare_equal(user_type<unsigned>()))
      return std::to_string(n.get_as<unsigned long long>());
    if (ti.bare_equal(user_type<double>()) || ti.bare_equal(user_type<float>()) || ti.bare_equal(user_type<long double>()))
      return "f" + std::to_string(n.get_as<double>());
    return std::to_string(n.get_as<long long>());
  }
  if (ti.bare_equal(user_type<std::string>())) return show_str(*static_cast<const std::string *>(bv.get_const_ptr()));
  if (ti.bare_equal(user_type<MapPair>())) {
    const auto &p = *static_cast<const MapPair *>(bv.get_const_ptr());
    return "<" + show_str(p.first) + "," + show(p.second) + ">";
  }
  if (ti.bare_equal(user_type<Pr>())) {
    const auto &p = *static_cast<const Pr *>(bv.get_const_ptr());
    return "<" + show(p.first) + "," + show(p.second) + ">";
  }
  return std::string("other:") + ti.bare_name();
}

struct World {
  std::string kind;
  Vec vec; Lst lst; Str str; Map map; Pr pr;
  Boxed_Value r, q;   // live range views (undef when none)
};

template<typename C> static std::string show_elems(const C &c) {
  std::string o = "[";
  bool first = true;
  for (const auto &e : c) { if (!first) o += ","; first = false; o += show(e); }
  return o + "]";
}
static std::string contents(const World &w) {
  if (w.kind == "Vector") return show_elems(w.vec);
  if (w.kind == "List") return show_elems(w.lst);
  if (w.kind == "string") return show_str(w.str);
  if (w.kind == "Map") {
    std::string o = "{";
    bool first = true;
    for (const auto &e : w.map) { if (!first) o += ","; first = false; o += show_str(e.first) + "=" + show(e.second); }
    return o + "}";
  }
  return "<" + show(w.pr.first) + "," + show(w.pr.second) + ">";
}

template<typename C> static std::string view_pos(const Boxed_Value &v, const C &c) {
  if (v.is_undef()) return "-";
  using R = sl::Bidir_Range<C, typename C::iterator>;
  using CR = sl::Bidir_Range<const C, typename C::const_iterator>;
  if (v.get_type_info().bare_equal(user_type<R>())) {
    const R &r = boxed_cast<const R &>(v);
    typename C::const_iterator b = r.m_begin, e = r.m_end;
    return std::to_string(std::distance(c.begin(), b)) + "," + std::to_string(std::distance(c.begin(), e));
  }
  if (v.get_type_info().bare_equal(user_type<CR>())) {
    const CR &r = boxed_cast<const CR &>(v);
    return std::to_string(std::distance(c.begin(), r.m_begin)) + "," + std::to_string(std::distance(c.begin(), r.m_end));
  }
  return "?";
}
static std::string views(const World &w) {
  auto one = [&](const Boxed_Value &v) -> std::string {
    if (w.kind == "Vector") return view_pos(v, w.vec);
    if (w.kind == "List") return view_pos(v, w.lst);
    if (w.kind == "string") return view_pos(v, w.str);
    if (w.kind == "Map") return view_pos(v, w.map);
    return "-";
  };
  return "r=" + one(w.r) + " q=" + one(w.q);
}

static std::string render_arg(const std::string &a) {
  if (a.empty()) throw std::runtime_error("empty arg");
  auto entry = [](const std::string &kv) {
    auto eq = kv.find('=');
    if (eq == std::string::npos) throw std::runtime_error("bad map entry");
    return std::make_pair(kv.substr(0, eq), kv.substr(eq + 1));
  };
  switch (a[0]) {
    case '\'': return "char(" + a.substr(1) + ")";
    case '"': return "\"" + a.substr(1) + "\"";
    case 'z': return "size_t(" + a.substr(1) + ")";
    case '<': { auto e = entry(a.substr(1)); return "Map_Pair(\"" + e.first + "\", " + e.second + ")"; }
    case '{': {
      if (a.size() == 1) return "Map()";
      std::string o = "[";
      bool first = true;
      for (auto &kv : vf::split(a.substr(1), ',')) { auto e = entry(kv); if (!first) o += ", "; first = false; o += "\"" + e.first + "\":" + e.second; }
      return o + "]";
    }
    case '-': return "(" + a + ")";
    default: return a;
  }
}

static std::string script_of(const std::vector<std::string> &t) {
  const std::string &tg = t[0], &op = t[1];
  std::vector<std::string> a;
  for (size_t i = 2; i < t.size(); ++i) a.push_back(render_arg(t[i]));
  auto need = [&](size_t n) { if (a.size() != n) throw std::runtime_error("arity"); };
  if (op == "set") { need(2); return tg + "[" + a[0] + "] = " + a[1]; }
  if (op == "setfirst") { need(1); return tg + ".first = " + a[0]; }
  if (op == "setsecond") { need(1); return tg + ".second = " + a[0]; }
  if (op == "[]") { need(1); return tg + "[" + a[0] + "]"; }
  if (op == "+=") { need(1); return tg + " += " + a[0]; }
  if (op == "mkrange") { need(0); return "range(" + tg + ")"; }
  std::string s = tg + "." + op + "(";
  for (size_t i = 0; i < a.size(); ++i) s += (i ? ", " : "") + a[i];
  return s + ")";
}

static bool readonly_op(const std::string &kind, const std::string &op) {
  static const char *ro[] = {"front", "back", "at", "size", "empty", "capacity", "find", "rfind", "find_first_of", "find_last_of",
                             "find_first_not_of", "find_last_not_of", "substr", "count", "c_str", "data", "first", "second"};
  for (auto *n : ro) if (op == n) return true;
  return op == "[]" && kind != "Map";
}

int main(int argc, char **argv) {
  std::unique_ptr<ChaiScript_Basic> chai;
  std::shared_ptr<World> world;   // kept alive until the next case replaces the globals that refer to it
  bool show_script = argc > 1 && std::string(argv[1]) == "scripts";
  auto fn = [&](const std::string &line) -> std::string {
    auto sp = line.find(' ');
    std::string kind = line.substr(0, sp);
    bool keepviews = !kind.empty() && kind[0] == '!';
    if (keepviews) kind = kind.substr(1);
    std::string rest = sp == std::string::npos ? "" : line.substr(sp + 1);
    if (!chai) {
      chai = vf::make_engine(true);
      auto m = std::make_shared<Module>();
      sl::list_type<Lst>("List", *m);   // List is not part of the default Std_Lib
      chai->add(m);
    }
    auto w = std::make_shared<World>();
    w->kind = kind;
    Boxed_Value c, k;
    if (kind == "Vector") { c = var(std::ref(w->vec)); k = var(std::cref(w->vec)); }
    else if (kind == "List") { c = var(std::ref(w->lst)); k = var(std::cref(w->lst)); }
    else if (kind == "string") { c = var(std::ref(w->str)); k = var(std::cref(w->str)); }
    else if (kind == "Map") { c = var(std::ref(w->map)); k = var(std::cref(w->map)); }
    else if (kind == "Pair") { c = var(std::ref(w->pr)); k = var(std::cref(w->pr)); }
    else return "BADCASE kind";
    chai->set_global(c, "c");
    chai->set_global(k, "k");
    chai->set_global(Boxed_Value(), "r");
    chai->set_global(Boxed_Value(), "q");
    world = w;
    std::string out;
    if (rest.empty()) return "";
    for (const auto &stepraw : vf::split(rest, ';')) {
      std::vector<std::string> t;
      for (auto &x : vf::split(stepraw)) if (!x.empty()) t.push_back(x);
      if (t.size() < 2) return "BADCASE step";
      std::string script;
      try { script = script_of(t); } catch (const std::exception &e) { return std::string("BADCASE ") + e.what(); }
      std::string res;
      try {
        Boxed_Value rv = chai->eval(script);
        if (t[1] == "mkrange") {
          if (t[0] == "c") { w->r = rv; chai->set_global(rv, "r"); }
          else { w->q = rv; chai->set_global(rv, "q"); }
          res = "OK range";
        } else res = "OK " + show(rv);
        if (!keepviews && (t[0] == "c" || t[0] == "k") && t[1] != "mkrange" && !readonly_op(kind, t[1])) {
          w->r = Boxed_Value(); w->q = Boxed_Value();
          chai->set_global(Boxed_Value(), "r"); chai->set_global(Boxed_Value(), "q");
        }
      } catch (...) {
        res = "ERR(" + vf::classify_current_exception() + ")";
      }
      if (!out.empty()) out += " ;; ";
      if (show_script) out += "`" + script + "` ";
      out += res + " | " + contents(*w) + " | " + views(*w);
    }
    return out;
  };
  return vf::run_cases(fn, true, 5);   // a case that does not finish in 5 s is an observation SIG(14)
}
