// Canonical one-line dump of a ChaiScript syntax tree, shared by the parse/optimizer/eval harnesses.
// ( Kind[:Class] t=<hex text> l=<l1>:<c1>-<l2>:<c2> [k=<const>] child ... )
// Bodies that Def/Method/Lambda nodes detach into m_body_node / m_guard_node / m_lambda_node are
// re-attached in the order the parser built them (…, guard?, body); a Fold_Right node (class FoldRight) keeps both children, the second being
// the Constant it folded; a Compiled node dumps `( Compiled … original children… )`.
#pragma once
#include <cstring>
#include <limits>
#include <string>
#include "hcommon.hpp"
#include <chaiscript/language/chaiscript_tracer.hpp>

namespace vf {
  using Tr = chaiscript::eval::Noop_Tracer;
  using NodeImpl = chaiscript::eval::AST_Node_Impl<Tr>;

  // read access to Lambda_AST_Node::m_lambda_node (private) through an explicit-instantiation friend
  template<typename Tag, typename Tag::type M> struct Rob { friend typename Tag::type get(Tag) { return M; } };
  struct LambdaBody { using type = const std::shared_ptr<NodeImpl> chaiscript::eval::Lambda_AST_Node<Tr>::*; friend type get(LambdaBody); };
  template struct Rob<LambdaBody, &chaiscript::eval::Lambda_AST_Node<Tr>::m_lambda_node>;

  template<typename T> inline std::string num_cls() {
    if constexpr (std::is_same_v<T, bool>) return "bool";
    else if constexpr (std::is_floating_point_v<T>) return sizeof(T) == 4 ? "f32" : sizeof(T) == 8 ? "f64" : "f80";
    else return std::string(std::is_signed_v<T> ? "i" : "u") + std::to_string(sizeof(T) * 8);
  }
  template<typename T> inline std::string num_bits(T v) {
    if constexpr (std::is_same_v<T, bool>) return v ? "1" : "0";
    else if constexpr (std::is_floating_point_v<T>) {
      if (v != v) return "nan";
      unsigned char b[16] = {0};
      size_t n = sizeof(T) == 16 ? 10 : sizeof(T);
      std::memcpy(b, &v, n);
      std::string r;
      static const char *d = "0123456789abcdef";
      for (size_t i = n; i-- > 0;) { r.push_back(d[b[i] >> 4]); r.push_back(d[b[i] & 15]); }
      return r;
    } else if constexpr (std::is_signed_v<T>) return std::to_string(static_cast<long long>(v));
    else return std::to_string(static_cast<unsigned long long>(v));
  }
  template<typename T> inline bool show_num_as(const chaiscript::Boxed_Value &bv, std::string &out, const char *name) {
    if (bv.get_type_info().bare_equal(chaiscript::user_type<T>())) {
      out = std::string(name) + ":" + num_cls<T>() + ":" + num_bits<T>(*static_cast<const T *>(bv.get_const_ptr()));
      return true;
    }
    return false;
  }
  // type-name:class:value, e.g. int:i32:5, ulong:u64:7, double:f64:3ff0…, bool:bool:1, char:i8:97, string:<hex>
  inline std::string show_value(const chaiscript::Boxed_Value &bv) {
    using namespace chaiscript;
    std::string o;
    if (bv.is_undef()) return "undef";
    if (bv.get_type_info().bare_equal(user_type<void>())) return "void";
    if (show_num_as<bool>(bv, o, "bool") || show_num_as<int>(bv, o, "int") || show_num_as<unsigned>(bv, o, "uint") || show_num_as<long>(bv, o, "long")
        || show_num_as<unsigned long>(bv, o, "ulong") || show_num_as<long long>(bv, o, "llong") || show_num_as<unsigned long long>(bv, o, "ullong")
        || show_num_as<char>(bv, o, "char") || show_num_as<signed char>(bv, o, "int8") || show_num_as<unsigned char>(bv, o, "uint8")
        || show_num_as<short>(bv, o, "int16") || show_num_as<unsigned short>(bv, o, "uint16") || show_num_as<wchar_t>(bv, o, "wchar")
        || show_num_as<char16_t>(bv, o, "char16") || show_num_as<char32_t>(bv, o, "char32") || show_num_as<float>(bv, o, "float")
        || show_num_as<double>(bv, o, "double") || show_num_as<long double>(bv, o, "ldouble"))
      return o;
    if (bv.get_type_info().bare_equal(user_type<std::string>())) return "string:" + hex(*static_cast<const std::string *>(bv.get_const_ptr()));
    if (bv.get_type_info().bare_equal(user_type<std::shared_ptr<std::string>>()))
      return "string:" + hex(**static_cast<const std::shared_ptr<std::string> *>(bv.get_const_ptr()));
    if (bv.get_type_info().bare_equal(user_type<dispatch::Placeholder_Object>())) return "placeholder";
    return std::string("other:") + bv.get_type_info().bare_name();
  }

  inline void dump_node(const NodeImpl &n, std::string &out);
  inline void dump_ptr(const NodeImpl *p, std::string &out) {
    if (p) dump_node(*p, out); else out += " ( Null )";
  }
  inline void dump_node(const NodeImpl &n, std::string &out) {
    using namespace chaiscript;
    using namespace chaiscript::eval;
    out += " ( ";
    out += ast_node_type_to_string(n.identifier);
    const auto *fr = dynamic_cast<const Fold_Right_Binary_Operator_AST_Node<Tr> *>(&n);
    const auto *cn = dynamic_cast<const Constant_AST_Node<Tr> *>(&n);
    const auto *cp = dynamic_cast<const Compiled_AST_Node<Tr> *>(&n);
    if (fr) out += ":FoldRight";
    // Unused_Return_Fun_Call_AST_Node keeps the identifier Fun_Call; only its dynamic class differs
    if (dynamic_cast<const Unused_Return_Fun_Call_AST_Node<Tr> *>(&n)) out += ":UnusedReturn";
    out += " t=" + hex(n.text);
    out += " l=" + std::to_string(n.location.start.line) + ":" + std::to_string(n.location.start.column) + "-" + std::to_string(n.location.end.line) + ":"
           + std::to_string(n.location.end.column);
    if (cn) out += std::string(" k=") + (cn->m_value.is_const() ? "c," : "m,") + show_value(cn->m_value);
    if (cp) dump_ptr(cp->m_original_node.get(), out);
    for (const auto &c : n.children) dump_ptr(c.get(), out);
    if (const auto *d = dynamic_cast<const Def_AST_Node<Tr> *>(&n)) {
      if (d->m_guard_node) dump_node(*d->m_guard_node, out);
      dump_ptr(d->m_body_node.get(), out);
    } else if (const auto *m = dynamic_cast<const Method_AST_Node<Tr> *>(&n)) {
      if (m->m_guard_node) dump_node(*m->m_guard_node, out);
      dump_ptr(m->m_body_node.get(), out);
    } else if (const auto *l = dynamic_cast<const Lambda_AST_Node<Tr> *>(&n)) {
      dump_ptr(((*l).*get(LambdaBody())).get(), out);
    }
    out += " )";
  }
  inline std::string dump_tree(const chaiscript::AST_Node &root) {
    const auto *impl = dynamic_cast<const NodeImpl *>(&root);
    std::string out;
    if (!impl) return "( Foreign )";
    dump_node(*impl, out);
    return out.substr(1);
  }
} // namespace vf
