// C18 harness: drive ChaiScript's from_json / to_json (utility/json.hpp, utility/json_wrap.hpp) through the
// functions the standard library registers, and print canonical observations.
//   from <hex text>  ->  tree1 | <hex of to_json(tree1)> | tree2      (tree2 = from_json of that text)
//                        or ERR(class) in place of the first part that threw
//   rt <tree>        ->  <hex of to_json(tree)> | tree2
//   load <hex text>  ->  ERR(std:out_of_range) etc. from json::JSON::Load directly (class of the raw exception)
// tree ::= N | T | F | I<dec> | S<hex> | D<16 hex digits> | V<n> tree^n | M<n> (K<hex> tree)^n
// on input J/H/L/U/Y<dec> are integers boxed as int / short / long long / unsigned / signed char.
#include "hcommon.hpp"
#include <chaiscript/utility/json_wrap.hpp>
#include <cstdint>
#include <map>
using namespace chaiscript;

using Map = std::map<std::string, Boxed_Value>;
using Vec = std::vector<Boxed_Value>;

static std::string hex16(double d) {
  std::uint64_t u;
  std::memcpy(&u, &d, 8);
  char b[32];
  snprintf(b, sizeof b, "%016llx", static_cast<unsigned long long>(u));
  return b;
}

static void show(const Boxed_Value &bv, std::string &out) {
  auto sep = [&] { if (!out.empty()) out.push_back(' '); };
  const auto &ti = bv.get_type_info();
  if (bv.is_undef()) { sep(); out += "N"; return; }
  if (ti.bare_equal(user_type<Map>())) {
    const auto &m = boxed_cast<const Map &>(bv);
    sep(); out += "M" + std::to_string(m.size());
    for (const auto &p : m) { sep(); out += "K" + vf::hex(p.first); show(p.second, out); }
    return;
  }
  if (ti.bare_equal(user_type<Vec>())) {
    const auto &v = boxed_cast<const Vec &>(bv);
    sep(); out += "V" + std::to_string(v.size());
    for (const auto &e : v) show(e, out);
    return;
  }
  sep();
  if (ti.bare_equal(user_type<std::string>())) { out += "S" + vf::hex(boxed_cast<const std::string &>(bv)); return; }
  if (ti.bare_equal(user_type<bool>())) { out += boxed_cast<bool>(bv) ? "T" : "F"; return; }
  if (ti.bare_equal(user_type<std::int64_t>())) { out += "I" + std::to_string(boxed_cast<std::int64_t>(bv)); return; }
  if (ti.bare_equal(user_type<double>())) { out += "D" + hex16(boxed_cast<double>(bv)); return; }
  if (ti.bare_equal(user_type<int>())) { out += "J" + std::to_string(boxed_cast<int>(bv)); return; }
  out += std::string("O:") + ti.bare_name();
}

static Boxed_Value read(const std::vector<std::string> &t, size_t &i) {
  if (i >= t.size() || t[i].empty()) throw std::logic_error("bad tree");
  const std::string tok = t[i++];
  const std::string body = tok.substr(1);
  switch (tok[0]) {
    case 'N': return Boxed_Value();
    case 'T': return Boxed_Value(true);
    case 'F': return Boxed_Value(false);
    case 'I': return Boxed_Value(static_cast<std::int64_t>(std::stoll(body)));
    case 'J': return Boxed_Value(static_cast<int>(std::stoll(body)));
    case 'H': return Boxed_Value(static_cast<short>(std::stoll(body)));
    case 'L': return Boxed_Value(static_cast<long long>(std::stoll(body)));
    case 'U': return Boxed_Value(static_cast<unsigned>(std::stoll(body)));
    case 'Y': return Boxed_Value(static_cast<signed char>(std::stoll(body)));
    case 'S': return Boxed_Value(vf::unhex(body));
    case 'D': {
      std::uint64_t u = std::stoull(body, nullptr, 16);
      double d;
      std::memcpy(&d, &u, 8);
      return Boxed_Value(d);
    }
    case 'V': {
      Vec v;
      size_t n = std::stoul(body);
      for (size_t k = 0; k < n; ++k) v.push_back(read(t, i));
      return Boxed_Value(v);
    }
    case 'M': {
      Map m;
      size_t n = std::stoul(body);
      for (size_t k = 0; k < n; ++k) {
        if (i >= t.size() || t[i].empty() || t[i][0] != 'K') throw std::logic_error("bad tree");
        std::string key = vf::unhex(t[i++].substr(1));
        Boxed_Value x = read(t, i);
        m.insert(std::make_pair(key, x));
      }
      return Boxed_Value(m);
    }
  }
  throw std::logic_error("bad tree");
}

static std::string err_class() {
  std::string detail;
  std::string c = vf::classify_current_exception(&detail);
  if (c == "std:runtime_error") {
    if (detail == "Unparsed JSON input") return "ERR(unparsed)";
    if (detail.find("maximum nesting depth") != std::string::npos) return "ERR(depth)";
    if (detail.rfind("JSON ERROR", 0) == 0) return "ERR(parse)";
    return "ERR(runtime_error:" + detail + ")";
  }
  return "ERR(" + c + ")";
}

int main(int argc, char **argv) {
  auto chai = vf::make_engine();
  auto from_json = chai->eval<std::function<Boxed_Value(const std::string &)>>("from_json");
  auto to_json = chai->eval<std::function<std::string(const Boxed_Value &)>>("to_json");

  auto second_half = [&](const Boxed_Value &v, std::string &out) {
    std::string text;
    try { text = to_json(v); } catch (...) { out += err_class() + " | -"; return; }
    out += vf::hex(text) + " | ";
    try {
      Boxed_Value v2 = from_json(text);
      std::string t2;
      show(v2, t2);
      out += t2;
    } catch (...) { out += err_class(); }
  };

  auto fn = [&](const std::string &line) -> std::string {
    auto t = vf::split(line);
    try {
      if (t.size() == 2 && t[0] == "from") {
        Boxed_Value v;
        try { v = from_json(vf::unhex(t[1])); } catch (...) { return err_class(); }
        std::string out;
        show(v, out);
        out += " | ";
        second_half(v, out);
        return out;
      }
      if (t.size() >= 2 && t[0] == "rt") {
        size_t i = 1;
        Boxed_Value v = read(t, i);
        if (i != t.size()) return "BADCASE";
        std::string out;
        second_half(v, out);
        return out;
      }
      if (t.size() >= 2 && t[0] == "seq") {
        // a history: from_json on each text in turn, in this process and thread; one short observation per text
        std::string out;
        for (size_t i = 1; i < t.size(); ++i) {
          std::string o;
          try { Boxed_Value v = from_json(vf::unhex(t[i])); show(v, o); if (o.size() > 60) o = o.substr(0, 60) + "#" + std::to_string(o.size()); }
          catch (...) { o = err_class(); }
          out += (i > 1 ? " ; " : "") + o;
        }
        return out;
      }
      if (t.size() == 2 && t[0] == "load") {
        try {
          auto j = json::JSON::Load(vf::unhex(t[1]));
          return "VAL " + vf::hex(j.dump());
        } catch (...) { return "ERR(" + vf::classify_current_exception() + ")"; }
      }
    } catch (const std::logic_error &) { return "BADCASE"; }
    return "BADCASE";
  };
  return vf::run_cases(fn, !(argc > 1 && std::string(argv[1]) == "nofork"));
}
