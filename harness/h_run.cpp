// run harness: evaluate a program on a fresh engine and report tree, stdout, result.
//   input : <opt|raw> <hex program> [repeat=<k>] [nohints] [shape] [tree2] [fault=<n>:<runtime_error|out_of_range|boxed|eval_error|foreign>]
//   output: TREE <dump> || OUT <hex stdout> || RES <value>     or … || ERR(<class>) <hex reason> [<call stack>]
#include "astdump.hpp"
#include <algorithm>
#include <fcntl.h>
#include <sys/mman.h>
#include <unistd.h>
using namespace chaiscript;

namespace {
  std::string show_deep(const Boxed_Value &bv, int depth = 0) {
    if (depth > 8) return "...";
    if (bv.is_undef()) return "undef";
    const auto &ti = bv.get_type_info();
    if (ti.bare_equal(user_type<std::vector<Boxed_Value>>())) {
      const auto &v = *static_cast<const std::vector<Boxed_Value> *>(bv.get_const_ptr());
      std::string r = "[";
      for (size_t i = 0; i < v.size(); ++i) r += (i ? "," : "") + show_deep(v[i], depth + 1);
      return r + "]";
    }
    if (ti.bare_equal(user_type<std::map<std::string, Boxed_Value>>())) {
      const auto &m = *static_cast<const std::map<std::string, Boxed_Value> *>(bv.get_const_ptr());
      std::string r = "{";
      bool first = true;
      for (const auto &kv : m) { r += (first ? "" : ",") + vf::hex(kv.first) + "=" + show_deep(kv.second, depth + 1); first = false; }
      return r + "}";
    }
    if (ti.bare_equal(user_type<dispatch::Proxy_Function_Base>())) return "fun";
    if (ti.bare_equal(user_type<dispatch::Dynamic_Object>())) {
      const auto &d = *static_cast<const dispatch::Dynamic_Object *>(bv.get_const_ptr());
      std::string r = "obj:" + d.get_type_name() + "{";
      bool first = true;
      for (const auto &kv : d.get_attrs()) { r += (first ? "" : ",") + kv.first + "=" + show_deep(kv.second, depth + 1); first = false; }
      return r + "}";
    }
    // C++ exception objects handed to the script by a catch clause (boxed with the static type of the native handler)
    if (ti.bare_equal(user_type<exception::eval_error>())) return "exc:eval_error";
    if (ti.bare_equal(user_type<std::runtime_error>())) return "exc:runtime_error";
    if (ti.bare_equal(user_type<std::out_of_range>())) return "exc:out_of_range";
    if (ti.bare_equal(user_type<std::logic_error>())) return "exc:logic_error";
    if (ti.bare_equal(user_type<std::exception>())) return "exc:exception";
    return vf::show_value(bv);
  }

  std::string call_stack(const exception::eval_error &e) {
    std::string r = "[";
    for (size_t i = 0; i < e.call_stack.size(); ++i) {
      const auto &n = e.call_stack[i];
      r += std::string(i ? "," : "") + ast_node_type_to_string(n.identifier) + "@" + vf::hex(n.filename()) + ":" + std::to_string(n.start().line) + ":"
           + std::to_string(n.start().column);
    }
    return r + "]";
  }
}

// harness callback `cb(x)`: returns x, or throws the configured exception on its n-th invocation
static int g_cb_count = 0, g_cb_fault_at = 0;
static std::string g_cb_kind;
static int cb(int x) {
  if (++g_cb_count == g_cb_fault_at) {
    if (g_cb_kind == "runtime_error") throw std::runtime_error("injected");
    if (g_cb_kind == "out_of_range") throw std::out_of_range("injected");
    if (g_cb_kind == "boxed") throw chaiscript::Boxed_Value(77);
    if (g_cb_kind == "eval_error") throw chaiscript::exception::eval_error("injected");
    if (g_cb_kind == "foreign") throw 42;
  }
  return x;
}

int main() {
  int cap = memfd_create("out", 0);
  auto fn = [&](const std::string &line) -> std::string {
    auto f = vf::split(line);
    if (f.size() < 2) return "BADCASE";
    const bool opt = f[0] == "opt";
    const std::string prog = vf::unhex(f[1]);
    int repeat = 1;
    bool nohints = false, shape = false, tree2 = false;
    for (size_t i = 2; i < f.size(); ++i) {
      if (f[i].rfind("repeat=", 0) == 0) repeat = std::stoi(f[i].substr(7));
      if (f[i] == "nohints") nohints = true;
      if (f[i] == "shape") shape = true;
      if (f[i] == "tree2") tree2 = true;
      if (f[i].rfind("fault=", 0) == 0) {
        const auto spec = f[i].substr(6);
        const auto colon = spec.find(':');
        g_cb_fault_at = std::stoi(spec.substr(0, colon));
        g_cb_kind = spec.substr(colon + 1);
      }
    }
    g_cb_count = 0;
    if (std::none_of(f.begin(), f.end(), [](const std::string &x) { return x.rfind("fault=", 0) == 0; })) g_cb_fault_at = 0;
    chaiscript::detail::Dispatch_Engine::verif_ignore_hints().store(nohints);
    auto chai = vf::make_engine(opt);
    chai->add(chaiscript::fun(&cb), "cb");
    auto show_shape = [&]() {
      auto a = chai->verif_stack_shape();
      std::string r;
      for (size_t i = 0; i < a.size(); ++i) r += (i ? "," : "") + std::to_string(a[i]);
      return r;
    };
    const std::string shape_before = shape ? show_shape() : std::string();
    std::string res;
    AST_NodePtr tree;
    try {
      tree = chai->parse(prog);
      res = "TREE " + vf::dump_tree(*tree);
    } catch (const exception::eval_error &e) {
      return "PARSE-ERR(eval_error) " + vf::hex(e.reason);
    } catch (...) {
      return "PARSE-ERR(" + vf::classify_current_exception() + ")";
    }
    fflush(stdout);
    ftruncate(cap, 0);
    lseek(cap, 0, SEEK_SET);
    int saved = dup(1);
    dup2(cap, 1);
    std::string outcome;
    for (int k = 0; k < repeat; ++k) {
      try {
        Boxed_Value r = chai->eval(*tree);
        outcome = "RES " + show_deep(r);
      } catch (const exception::eval_error &e) {
        outcome = "ERR(eval_error) " + vf::hex(e.reason) + " " + call_stack(e);
      } catch (const Boxed_Value &bv) {
        if (bv.get_type_info().bare_equal(user_type<exception::eval_error>())) {
          // ChaiScript_Basic::eval(const AST_Node &) hands an eval_error over boxed
          const auto &e = boxed_cast<const exception::eval_error &>(bv);
          outcome = "ERR(eval_error) " + vf::hex(e.reason) + " " + call_stack(e);
        } else {
          outcome = "ERR(boxed) " + show_deep(bv);
        }
      } catch (const std::exception &e) {
        std::string d;
        try { throw; } catch (...) { const std::string c = vf::classify_current_exception(&d); outcome = "ERR(" + c + ") " + vf::hex(d); }
      } catch (...) {
        outcome = "ERR(other)";
      }
      if (repeat > 1) {
        fflush(stdout);
        dprintf(1, "\x1e");  // record separator between repetitions
      }
    }
    fflush(stdout);
    dup2(saved, 1);
    close(saved);
    off_t n = lseek(cap, 0, SEEK_END);
    std::string out(static_cast<size_t>(n), '\0');
    pread(cap, out.data(), out.size(), 0);
    std::string tail;
    if (shape) {
      tail = " || SHAPE " + shape_before + " -> " + show_shape();
      std::string probe;
      try { probe = std::to_string(chai->eval<int>("var verif_probe_a = 20; { var verif_probe_a = 1 }; verif_probe_a + 1")); } catch (...) { probe = "ERR"; }
      std::string locals;
      for (const auto &kv : chai->get_locals()) locals += kv.first + ",";
      tail += " PROBE " + probe + " LOCALS " + locals + " CBCOUNT " + std::to_string(g_cb_count);
    }
    if (tree2) tail += " || TREE2 " + vf::dump_tree(*tree);   // the tree after it has been evaluated
    return res + " || OUT " + vf::hex(out) + " || " + outcome + tail;
  };
  return vf::run_cases(fn, true, 20);
}
