// C19 — eval_file evaluates the file's bytes; use() evaluates once.   usage: h_file <scratch dir>
// One case per line:
//   load <hex>                     write the bytes to a file, call ChaiScript_Basic::load_file on it     -> C:<hex> | ERR(file:<name>)
//   loadmissing                    load_file of a path that does not exist
//   cmp <hex content> <hex bytes>  eval_file(file with <content>) on one fresh engine, eval(<bytes>) on another
//                                  -> F{<observation>} B{<observation>}   observation = value, captured stdout, error class/reason/position
//   hist | paths p.. | file <rel> <fact>.. | ... | <op> | <op> ...
//        fact: use:<name> | evalfile:<name> | throw        op: use <name> | suse <name> | evalfile <rel> | sevalfile <name>
//        after every op: outcome ; evaluation counter of every file ; used_files (from get_state())
#include "hcommon.hpp"
#include <fcntl.h>
#include <fstream>
#include <map>
#include <sys/stat.h>

using namespace chaiscript;

// ChaiScript_Basic::load_file is a private static member: reach it through an explicit instantiation
namespace rob {
  using LoadFn = std::string (*)(const std::string &);
  template<LoadFn P> struct Rob { friend LoadFn get_load_file() { return P; } };
  LoadFn get_load_file();
  template struct Rob<&chaiscript::ChaiScript_Basic::load_file>;
}

namespace {
  std::string g_scratch;

  void write_file(const std::string &path, const std::string &bytes) {
    std::ofstream o(path, std::ios::binary | std::ios::trunc);
    o.write(bytes.data(), static_cast<std::streamsize>(bytes.size()));
  }

  std::string rel(const std::string &p) {
    if (p.compare(0, g_scratch.size() + 1, g_scratch + "/") == 0) return p.substr(g_scratch.size() + 1);
    return p;
  }

  // redirects the process's stdout (print / puts write to the C stream) into a file for the duration of one evaluation
  struct Capture {
    int saved;
    std::string path;
    explicit Capture(const std::string &p) : path(p) {
      fflush(stdout);
      std::cout.flush();
      saved = dup(1);
      int fd = open(path.c_str(), O_RDWR | O_CREAT | O_TRUNC, 0600);
      dup2(fd, 1);
      close(fd);
    }
    std::string finish() {
      fflush(stdout);
      std::cout.flush();
      dup2(saved, 1);
      close(saved);
      std::ifstream in(path, std::ios::binary);
      std::stringstream ss;
      ss << in.rdbuf();
      return ss.str();
    }
  };

  std::string show(ChaiScript_Basic &chai, const Boxed_Value &bv) {
    const auto &ti = bv.get_type_info();
    if (bv.is_undef()) return "undef";
    if (ti.bare_equal(user_type<void>())) return "void";
    try {
      if (ti.bare_equal(user_type<int>())) return "int:" + std::to_string(chai.boxed_cast<int>(bv));
      if (ti.bare_equal(user_type<bool>())) return chai.boxed_cast<bool>(bv) ? "bool:1" : "bool:0";
      if (ti.bare_equal(user_type<double>())) { char b[64]; snprintf(b, sizeof b, "double:%a", chai.boxed_cast<double>(bv)); return b; }
      if (ti.bare_equal(user_type<std::string>())) return "string:" + vf::hex(chai.boxed_cast<std::string>(bv));
      if (ti.bare_equal(user_type<char>())) return "char:" + std::to_string(static_cast<int>(chai.boxed_cast<char>(bv)));
      if (ti.bare_equal(user_type<long>())) return "long:" + std::to_string(chai.boxed_cast<long>(bv));
      if (ti.bare_equal(user_type<unsigned int>())) return "uint:" + std::to_string(chai.boxed_cast<unsigned int>(bv));
    } catch (...) { return "uncastable"; }
    return std::string("type:") + ti.bare_name();
  }

  // observation of one evaluation
  std::string observe(bool from_file, const std::string &path, const std::string &bytes) {
    auto chai = vf::make_engine();
    std::string emits;
    chai->add(fun([&emits](int x) { emits += std::to_string(x) + ","; }), "emit");
    std::string res;
    Capture cap(g_scratch + "/stdout.txt");
    try {
      Boxed_Value v = from_file ? chai->eval_file(path) : chai->eval(bytes, Exception_Handler(), path);
      res = "V(" + show(*chai, v) + ")";
    } catch (const exception::eval_error &e) {
      res = "E(eval_error:" + vf::hex(e.reason) + ":" + std::to_string(e.start_position.line) + ":" + std::to_string(e.start_position.column) + ":" + vf::hex(rel(e.filename)) + ")";
    } catch (const exception::file_not_found_error &e) {
      res = "E(file:" + rel(e.filename) + ")";
    } catch (const Boxed_Value &bv) {
      res = "E(boxed:" + show(*chai, bv) + ")";
    } catch (...) {
      res = "E(" + vf::classify_current_exception() + ")";
    }
    std::string out = cap.finish();
    return res + " out=" + vf::hex(out) + " emit=" + emits;
  }

  std::string run_hist(const std::vector<std::string> &segs) {
    std::vector<std::string> paths, files;
    std::map<std::string, int> counter;
    std::vector<std::vector<std::string>> ops;
    for (size_t i = 1; i < segs.size(); ++i) {
      auto w = vf::split(segs[i]);
      if (w.empty() || w[0].empty()) continue;
      if (w[0] == "paths") {
        for (size_t k = 1; k < w.size(); ++k) { paths.push_back(g_scratch + "/" + w[k]); mkdir((g_scratch + "/" + w[k]).c_str(), 0700); }
      } else if (w[0] == "file") {
        std::string text = "bump(\"" + w.at(1) + "\")\n";
        for (size_t k = 2; k < w.size(); ++k) {
          if (w[k].rfind("use:", 0) == 0) text += "use(\"" + w[k].substr(4) + "\")\n";
          else if (w[k].rfind("evalfile:", 0) == 0) text += "eval_file(\"" + w[k].substr(9) + "\")\n";
          else if (w[k] == "throw") text += "this_function_does_not_exist()\n";
          else return "BADCASE";
        }
        files.push_back(w[1]);
        write_file(g_scratch + "/" + w[1], text);
      } else ops.push_back(w);
    }
    auto chai = vf::make_engine(true, {}, paths);
    chai->add(fun([&counter](const std::string &f) { ++counter[f]; }), "bump");
    std::string out;
    for (const auto &w : ops) {
      std::string oc = "OK";
      try {
        if (w.at(0) == "use") chai->use(w.at(1));
        else if (w[0] == "suse") chai->eval("use(\"" + w.at(1) + "\")");
        else if (w[0] == "evalfile") chai->eval_file(g_scratch + "/" + w.at(1));
        else if (w[0] == "sevalfile") chai->eval("eval_file(\"" + w.at(1) + "\")");
        else return "BADCASE";
      } catch (const exception::file_not_found_error &e) {
        oc = "ERR(file:" + rel(e.filename) + ")";
      } catch (...) {
        oc = "ERR(" + vf::classify_current_exception() + ")";
      }
      if (!out.empty()) out += " || ";
      out += oc + " ;";
      for (const auto &f : files) out += " " + f + "=" + std::to_string(counter[f]);
      out += " ; U[";
      auto st = chai->get_state();
      bool first = true;
      for (const auto &f : files)
        if (st.used_files.count(g_scratch + "/" + f)) { if (!first) out += ","; out += f; first = false; }
      out += "]";
    }
    for (const auto &f : files) unlink((g_scratch + "/" + f).c_str());
    return out;
  }

  std::string run_case(const std::string &line) {
    auto w = vf::split(line);
    const std::string path = g_scratch + "/f.chai";
    if (w[0] == "load" && w.size() == 2) {
      write_file(path, vf::unhex(w[1]));
      try { return "C:" + vf::hex(rob::get_load_file()(path)); }
      catch (const exception::file_not_found_error &e) { return "ERR(file:" + rel(e.filename) + ")"; }
      catch (...) { return "ERR(" + vf::classify_current_exception() + ")"; }
    }
    if (w[0] == "loadmissing") {
      try { return "C:" + vf::hex(rob::get_load_file()(g_scratch + "/no_such_file.chai")); }
      catch (const exception::file_not_found_error &e) { return "ERR(file:" + rel(e.filename) + ")"; }
      catch (...) { return "ERR(" + vf::classify_current_exception() + ")"; }
    }
    if (w[0] == "cmp" && w.size() == 3) {
      write_file(path, vf::unhex(w[1]));
      std::string f = observe(true, path, "");
      std::string b = observe(false, path, vf::unhex(w[2]));
      return "F{" + f + "} B{" + b + "}";
    }
    if (w[0] == "evalmissing") return observe(true, g_scratch + "/no_such_file.chai", "");
    if (w[0] == "hist") {
      std::vector<std::string> segs;
      size_t pos = 0;
      while (true) {
        size_t e = line.find(" | ", pos);
        segs.push_back(line.substr(pos, e == std::string::npos ? std::string::npos : e - pos));
        if (e == std::string::npos) break;
        pos = e + 3;
      }
      return run_hist(segs);
    }
    return "BADCASE";
  }
} // namespace

int main(int argc, char **argv) {
  if (argc < 2) { std::cerr << "usage: h_file <scratch dir>\n"; return 2; }
  g_scratch = argv[1];
  return vf::run_cases(run_case);
}
