// C06 harness: overload dispatch and unboxing.
//   h_dispatch catalog            -> the catalogue of C++ signatures with the engine's own Type_Info of every parameter,
//                                    the registered conversions, the std::type_info::before ranks, the argument evaluation order
//   stdin, one case per line:
//     D <convset> <route> <ids,comma-separated, registration order> | <arg> <arg> ...
//         -> ARGS <box descr>.. | ORDER ids | ENTER id [recv;recv].. | RES ok|ERR(class)
//     C <convset> <mode> <form>.<type> | <arg>
//         -> ARGS .. | CAST recv | ERR(class)          (mode: conv = engine.boxed_cast<T>, noconv = chaiscript::boxed_cast<T>(bv),
//                                                        eval = engine.eval<T>(script text of the literal))
//   arg = kind.type.payload  (kinds: var cvar ref cref ptr cptr sp csp nullsp ret uniq upref upcref upsp lit fn vec cvec undef)
//   route reseat[N] | sreseat[N] / mode rconv[N]: history: the (shared_ptr-held) argument is first passed N (default 1) times to a C++ function
//         taking std::shared_ptr<T>& that re-seats it to a new object; the case is then about the object the variable holds now
//         (sreseat: the call is then made from script text).  Output gains  | HIST <box descr before> <payload after step 1> ..
//   recv = <static type id>:<value>@<S|D|-|N>[:h<const>]   S = the address C++ received is the argument's own object
#include "hcommon.hpp"
#include <map>
#include <set>
using namespace chaiscript;

// ChaiScript_Basic::get_eval_engine() is private; the explicit-instantiation rule lets a template argument name it
namespace rob {
  template<typename Tag, typename Tag::type M> struct Rob { friend typename Tag::type get(Tag) { return M; } };
  struct EngTag { using type = chaiscript::detail::Dispatch_Engine &(ChaiScript_Basic::*)() noexcept; friend type get(EngTag); };
  template struct Rob<EngTag, &ChaiScript_Basic::get_eval_engine>;
  inline chaiscript::detail::Dispatch_Engine &engine_of(ChaiScript_Basic &c) { return (c.*get(EngTag()))(); }
}
// ---- user types -------------------------------------------------------------------------------
struct Base { virtual ~Base() = default; int tag = 0; explicit Base(int t = 0) : tag(t) {} void set(int v) { tag = v; } int get() const { return tag; } };
struct Derived : Base { int extra = 7; explicit Derived(int t = 0) : Base(t) {} };
struct Other { int tag = 0; explicit Other(int t = 0) : tag(t) {} };
// non-polymorphic: records its most derived type itself (a sliced copy is an SBase again)
struct SBase { int tag = 0; int dyn = 20; explicit SBase(int t = 0) : tag(t) {} SBase(const SBase &o) : tag(o.tag) {} SBase &operator=(const SBase &o) { tag = o.tag; return *this; } };
struct SDerived : SBase { int extra = 9; explicit SDerived(int t = 0) : SBase(t) { dyn = 21; } SDerived(const SDerived &o) : SBase(o), extra(o.extra) { dyn = 21; } };
using VecInt = std::vector<int>;
using VecBV = std::vector<Boxed_Value>;
using FnII = std::function<int(int)>;
using FnSI = std::function<std::string(int)>;

enum { T_BV = 0, T_BN = 1, T_FUN = 2, T_INT = 10, T_UINT = 11, T_LONG = 12, T_DOUBLE = 13, T_BOOL = 14, T_CHAR = 15, T_STRING = 16, T_BASE = 17,
       T_DERIVED = 18, T_OTHER = 19, T_SBASE = 20, T_SDERIVED = 21, T_VECBV = 22, T_VECINT = 23, T_FNII = 30, T_FNSI = 31, T_VOID = 98, T_UNKNOWN = 99 };

static std::map<std::string, int> &type_ids() {
  static std::map<std::string, int> m;
  if (m.empty()) {
#define TID(T, id) m[user_type<T>().bare_name()] = id;
    TID(Boxed_Value, T_BV) TID(Boxed_Number, T_BN) TID(dispatch::Proxy_Function_Base, T_FUN) TID(int, T_INT) TID(unsigned, T_UINT) TID(long, T_LONG)
    TID(double, T_DOUBLE) TID(bool, T_BOOL) TID(char, T_CHAR) TID(std::string, T_STRING) TID(Base, T_BASE) TID(Derived, T_DERIVED) TID(Other, T_OTHER)
    TID(SBase, T_SBASE) TID(SDerived, T_SDERIVED) TID(VecBV, T_VECBV) TID(VecInt, T_VECINT) TID(FnII, T_FNII) TID(FnSI, T_FNSI) TID(void, T_VOID)
#undef TID
  }
  return m;
}
static int tid_of(const Type_Info &ti) {
  if (ti.is_undef()) return T_UNKNOWN;
  auto it = type_ids().find(ti.bare_name());
  return it == type_ids().end() ? T_UNKNOWN : it->second;
}
template<typename T> struct StaticId;
#define SID(T, id) template<> struct StaticId<T> { static constexpr int value = id; };
SID(int, T_INT) SID(unsigned, T_UINT) SID(long, T_LONG) SID(double, T_DOUBLE) SID(bool, T_BOOL) SID(char, T_CHAR) SID(std::string, T_STRING) SID(Base, T_BASE)
SID(Derived, T_DERIVED) SID(Other, T_OTHER) SID(SBase, T_SBASE) SID(SDerived, T_SDERIVED) SID(VecBV, T_VECBV) SID(VecInt, T_VECINT)
#undef SID

// ---- values -------------------------------------------------------------------------------------
static std::string sval(const std::string &s) { return (s.size() > 1 && s[0] == 's') ? s.substr(1) : std::string("-1"); }
static std::string box_payload(const Boxed_Value &bv);
static std::string pval(int v) { return std::to_string(v); }
static std::string pval(unsigned v) { return std::to_string(v); }
static std::string pval(long v) { return std::to_string(v); }
static std::string pval(char v) { return std::to_string(static_cast<int>(v)); }
static std::string pval(bool v) { return v ? "1" : "0"; }
static std::string pval(double v) { return std::to_string(static_cast<long long>(v * 2)); }
static std::string pval(const std::string &v) { return sval(v); }
static std::string pval(const Base &v) { return std::to_string(dynamic_cast<const Derived *>(&v) ? T_DERIVED : T_BASE) + "." + std::to_string(v.tag); }
static std::string pval(const Other &v) { return std::to_string(T_OTHER) + "." + std::to_string(v.tag); }
static std::string pval(const SBase &v) { return std::to_string(v.dyn) + "." + std::to_string(v.tag); }
static std::string pval(const VecInt &v) {
  std::string r = "[";
  for (size_t i = 0; i < v.size(); ++i) r += (i ? "," : "") + std::to_string(T_INT) + ":" + std::to_string(v[i]);
  return r + "]";
}
static std::string pval(const VecBV &v) {
  std::string r = "[";
  for (size_t i = 0; i < v.size(); ++i) r += (i ? "," : "") + std::to_string(tid_of(v[i].get_type_info())) + ":" + box_payload(v[i]);
  return r + "]";
}
// static type of a SDerived seen through SBase* would print 20: only used with exact types
static std::string box_payload(const Boxed_Value &bv) {
  if (bv.is_undef()) return "none";
  const void *p = bv.get_const_ptr();
  if (!p) return "null";
  switch (tid_of(bv.get_type_info())) {
    case T_INT: return pval(*static_cast<const int *>(p));
    case T_UINT: return pval(*static_cast<const unsigned *>(p));
    case T_LONG: return pval(*static_cast<const long *>(p));
    case T_DOUBLE: return pval(*static_cast<const double *>(p));
    case T_BOOL: return pval(*static_cast<const bool *>(p));
    case T_CHAR: return pval(*static_cast<const char *>(p));
    case T_STRING: return pval(*static_cast<const std::string *>(p));
    case T_BASE: return pval(*static_cast<const Base *>(p));
    case T_DERIVED: return pval(static_cast<const Base &>(*static_cast<const Derived *>(p)));
    case T_OTHER: return pval(*static_cast<const Other *>(p));
    case T_SBASE: return pval(*static_cast<const SBase *>(p));
    case T_SDERIVED: return pval(*static_cast<const SDerived *>(p));
    case T_VECINT: return pval(*static_cast<const VecInt *>(p));
    case T_VECBV: return pval(*static_cast<const VecBV *>(p));
    case T_FUN: return "fn";
    default: return "?";
  }
}

// ---- log ----------------------------------------------------------------------------------------
static std::string g_log;
static const void *g_arg_addr[4] = {nullptr, nullptr, nullptr, nullptr};
static bool g_arg_unknown[4] = {false, false, false, false}; // literal in script text: address not known to the harness
static char mark(const void *p, int j) {
  if (j >= 0 && j < 4 && g_arg_unknown[j]) return '?';
  return (j >= 0 && j < 4 && p == g_arg_addr[j]) ? 'S' : 'D';
}
static std::string show_box(const Boxed_Value &bv, int j) {
  std::string r = std::to_string(tid_of(bv.get_type_info())) + ":" + box_payload(bv) + "@";
  r += bv.is_undef() ? 'U' : (bv.get_const_ptr() == nullptr ? 'N' : mark(bv.get_const_ptr(), j));
  return r + ":h" + (bv.is_const() ? "1" : "0");
}
template<typename T> struct is_shared : std::false_type {};
template<typename T> struct is_shared<std::shared_ptr<T>> : std::true_type {};
template<typename T> struct is_refw : std::false_type {};
template<typename T> struct is_refw<std::reference_wrapper<T>> : std::true_type {};
template<typename T> struct is_stdfn : std::false_type {};
template<typename T> struct is_stdfn<std::function<T>> : std::true_type {};

template<typename X> static X &unwrap(std::reference_wrapper<X> r) { return r.get(); }
template<typename X> static X &unwrap(X &r) { return r; }
template<typename P, typename A> std::string shw(A &&a, int j) {
  using U = std::remove_cv_t<std::remove_reference_t<P>>;
  if constexpr (std::is_same_v<U, Boxed_Value>) return show_box(a, j);
  else if constexpr (std::is_same_v<U, Boxed_Number>) return show_box(a.bv, j);
  else if constexpr (is_stdfn<U>::value) return std::to_string(T_FUN) + ":fn@-:h?";
  else if constexpr (is_shared<U>::value) {
    using E = std::remove_cv_t<typename U::element_type>;
    if (!a) return std::to_string(StaticId<E>::value) + ":null@N";
    return std::to_string(StaticId<E>::value) + ":" + pval(*a) + "@" + mark(a.get(), j);
  } else if constexpr (std::is_pointer_v<U>) {
    using E = std::remove_cv_t<std::remove_pointer_t<U>>;
    if (!a) return std::to_string(StaticId<E>::value) + ":null@N";
    return std::to_string(StaticId<E>::value) + ":" + pval(*a) + "@" + mark(a, j);
  } else if constexpr (is_refw<U>::value) {
    using E = std::remove_cv_t<typename U::type>;
    auto &ref = unwrap(a);
    return std::to_string(StaticId<E>::value) + ":" + pval(ref) + "@" + mark(&ref, j);
  } else if constexpr (std::is_reference_v<P>) {
    return std::to_string(StaticId<U>::value) + ":" + pval(a) + "@" + mark(&a, j);
  } else {
    return std::to_string(StaticId<U>::value) + ":" + pval(a) + "@-";
  }
}
static void enter(int id, std::initializer_list<std::string> rs) {
  g_log += " | ENTER " + std::to_string(id) + " [";
  bool first = true;
  for (auto &r : rs) { g_log += (first ? "" : ";") + r; first = false; }
  g_log += "]";
}

// ---- forms --------------------------------------------------------------------------------------
template<typename P> struct FormOf { static const char *name() { return "FVal"; } };
template<typename T> struct FormOf<const T &> { static const char *name() { return "FCRef"; } };
template<typename T> struct FormOf<T &> { static const char *name() { return "FRef"; } };
template<typename T> struct FormOf<T &&> { static const char *name() { return "FRRef"; } };
template<typename T> struct FormOf<T *> { static const char *name() { return "FPtr"; } };
template<typename T> struct FormOf<const T *> { static const char *name() { return "FCPtr"; } };
template<typename T> struct FormOf<std::shared_ptr<T>> { static const char *name() { return "FSh"; } };
template<typename T> struct FormOf<std::shared_ptr<const T>> { static const char *name() { return "FShC"; } };
template<typename T> struct FormOf<const std::shared_ptr<T> &> { static const char *name() { return "FShCRef"; } };
template<typename T> struct FormOf<const std::shared_ptr<const T> &> { static const char *name() { return "FShCCRef"; } };
template<typename T> struct FormOf<std::reference_wrapper<T>> { static const char *name() { return "FRw"; } };
template<typename T> struct FormOf<std::reference_wrapper<const T>> { static const char *name() { return "FRwC"; } };
template<> struct FormOf<Boxed_Value> { static const char *name() { return "FBV"; } };
template<> struct FormOf<const Boxed_Value &> { static const char *name() { return "FBVCRef"; } };
template<> struct FormOf<Boxed_Value &> { static const char *name() { return "FBVRef"; } };
template<> struct FormOf<Boxed_Number> { static const char *name() { return "FBN"; } };
template<> struct FormOf<const Boxed_Number &> { static const char *name() { return "FBN"; } };
template<typename S> struct FormOf<std::function<S>> { static const char *name() { return "FFn"; } };
template<typename S> struct FormOf<const std::function<S> &> { static const char *name() { return "FFn"; } };

// ---- catalogue ----------------------------------------------------------------------------------
struct Entry {
  int id;
  std::string kind;                 // native | dyn | attr
  std::vector<std::string> forms;   // per parameter
  std::vector<int> fnar;            // arity of Sig for FFn parameters (else 0)
  std::function<Proxy_Function()> make;   // native/attr
  std::string def;                  // dyn: text after the name
  std::vector<int> named;           // dyn: parameter declared with a type
  int guard = -1;
  bool throws = false;
};
static std::vector<Entry> &catalogue() {
  static std::vector<Entry> c;
  return c;
}
template<typename S> struct FnAr { static constexpr int value = 0; };
template<typename R, typename... A> struct FnAr<std::function<R(A...)>> { static constexpr int value = sizeof...(A); };
template<typename P> int fnar() { return FnAr<std::remove_cv_t<std::remove_reference_t<P>>>::value; }

#define F0(ID) catalogue().push_back(Entry{ID, "native", {}, {}, [] { return fun([]() { enter(ID, {}); }); }, "", {}, -1, false});
#define F1(ID, P0) catalogue().push_back(Entry{ID, "native", {FormOf<P0>::name()}, {fnar<P0>()}, \
    [] { return fun([](P0 a0) { enter(ID, {shw<P0>(a0, 0)}); }); }, "", {}, -1, false});
#define F2(ID, P0, P1) catalogue().push_back(Entry{ID, "native", {FormOf<P0>::name(), FormOf<P1>::name()}, {fnar<P0>(), fnar<P1>()}, \
    [] { return fun([](P0 a0, P1 a1) { enter(ID, {shw<P0>(a0, 0), shw<P1>(a1, 1)}); }); }, "", {}, -1, false});
#define F3(ID, P0, P1, P2) catalogue().push_back(Entry{ID, "native", {FormOf<P0>::name(), FormOf<P1>::name(), FormOf<P2>::name()}, {fnar<P0>(), fnar<P1>(), fnar<P2>()}, \
    [] { return fun([](P0 a0, P1 a1, P2 a2) { enter(ID, {shw<P0>(a0, 0), shw<P1>(a1, 1), shw<P2>(a2, 2)}); }); }, "", {}, -1, false});
#define F1R(ID, RET, P0, VALUE) catalogue().push_back(Entry{ID, "native", {FormOf<P0>::name()}, {fnar<P0>()}, \
    [] { return fun([](P0 a0) -> RET { enter(ID, {shw<P0>(a0, 0)}); return VALUE; }); }, "", {}, -1, false});
#define F2R(ID, RET, P0, P1, VALUE) catalogue().push_back(Entry{ID, "native", {FormOf<P0>::name(), FormOf<P1>::name()}, {fnar<P0>(), fnar<P1>()}, \
    [] { return fun([](P0 a0, P1 a1) -> RET { enter(ID, {shw<P0>(a0, 0), shw<P1>(a1, 1)}); return VALUE; }); }, "", {}, -1, false});
#define DYN(ID, TEXT, NAMED, GUARD) catalogue().push_back(Entry{ID, "dyn", {}, {}, nullptr, TEXT, NAMED, GUARD, false});

using CRI = const int &; using RI = int &; using PI = int *; using CPI = const int *; using SPI = std::shared_ptr<int>; using SPCI = std::shared_ptr<const int>;
using CRSPI = const std::shared_ptr<int> &; using CRS = const std::string &; using RS = std::string &; using RB = Base &; using CRB = const Base &; using PB = Base *;
using SPB = std::shared_ptr<Base>; using SPCB = std::shared_ptr<const Base>; using RD = Derived &; using CRD = const Derived &; using SPD = std::shared_ptr<Derived>;
using CRO = const Other &; using CRBV = const Boxed_Value &; using CRVI = const VecInt &; using RWI = std::reference_wrapper<int>; using RRI = int &&;
using CRSB = const SBase &; using PSB = SBase *; using RDbl = double &; using CRL = const long &; using CPB = const Base *;

static const std::string &keep_str() { static const std::string s("s1"); return s; }
static void build_catalogue() {
  if (!catalogue().empty()) return;
  F1(1, int) F1(2, CRI) F1(3, RI) F1(4, PI) F1(5, CPI) F1(6, SPI) F1(7, SPCI) F1(8, CRSPI) F1(9, long) F1(10, double) F1(11, unsigned) F1(12, char) F1(13, bool)
  F1(14, std::string) F1(15, CRS) F1(16, RS) F1(17, RB) F1(18, CRB) F1(19, PB) F1(20, SPB) F1(21, SPCB) F1(22, RD) F1(23, CRD) F1(24, SPD) F1(25, CRO) F1(26, Other)
  F1(27, Boxed_Value) F1(28, CRBV) F1(29, Boxed_Number) F1(30, FnII) F1(31, CRVI) F1(32, RWI) F1(33, RRI) F1(34, CRSB) F1(35, PSB) F1(36, RDbl) F1(37, CRL)
  catalogue().push_back(Entry{38, "native", {FormOf<CRI>::name()}, {0},
                              [] { return fun([](CRI a0) { enter(38, {shw<CRI>(a0, 0)}); throw std::runtime_error("body"); }); }, "", {}, -1, true});
  DYN(39, "(x) { __log1(39, x) }", {0}, -1)
  DYN(40, "(int x) { __log1(40, x) }", {1}, -1)
  DYN(41, "(Base x) { __log1(41, x) }", {1}, -1)
  DYN(42, "(x) : is_type(x, \"int\") { __log1(42, x) }", {0}, 0)
  catalogue().push_back(Entry{43, "dynv", {}, {}, [] {
                                return dispatch::make_dynamic_proxy_function([](const Function_Params &ps) {
                                  std::string r = " | ENTER 43 [";
                                  for (size_t i = 0; i < ps.size(); ++i) r += (i ? ";" : "") + show_box(ps[i], static_cast<int>(i));
                                  g_log += r + "]";
                                  return Boxed_Value();
                                });
                              }, "", {}, -1, false});
  catalogue().push_back(Entry{44, "attr", {"FVal"}, {0}, [] { return fun(&Base::tag); }, "", {}, -1, false});
  F1(46, CPB) F1(47, CRD)
  F2(50, int, int) F2(51, double, double) F2(52, CRS, int) F2(53, RI, CRI) F2(54, CRB, int) F2(55, RB, long) F2(56, Boxed_Value, int) F2(57, int, Boxed_Value)
  F2(58, Boxed_Number, Boxed_Number) F2(59, CRD, double) F2(60, long, long) F2(61, CRI, CRS) F2(62, RS, CRS)
  DYN(63, "(x, y) { __log2(63, x, y) }", (std::vector<int>{0, 0}), -1)
  DYN(64, "(int x, y) { __log2(64, x, y) }", (std::vector<int>{1, 0}), -1)
  F2(65, SPI, int) F2(66, CRB, CRB)
  F3(70, int, int, int) F3(71, int, double, CRS) F3(72, CRB, int, int) F3(73, Boxed_Value, Boxed_Value, Boxed_Value) F3(74, double, int, int)
  // overload twins that differ in the constness of the parameter and in the return type
  F1R(90, int, RB, 1) F1R(91, std::string, CRB, std::string("s1")) F1R(92, std::string, RI, std::string("s1")) F1R(93, int, CRI, 1)
  F1R(94, int, RI, 1) F1R(95, std::string, CRI, std::string("s1")) F1R(96, Boxed_Value, RS, Boxed_Value(1)) F1R(97, int, CRS, 1)
  F1R(98, Boxed_Number, PI, Boxed_Number(1)) F1R(99, double, CPI, 1.5)
  // ... on class types held through a base-class conversion, on pointers, and in either parameter position of two-parameter overloads
  F1R(100, std::string, RD, std::string("s1")) F1R(101, int, CRD, 1) F1R(102, double, PB, 1.5) F1R(103, Boxed_Value, CPB, Boxed_Value(1))
  F1R(104, const std::string &, SPB, keep_str()) F1R(105, int, SPCB, 1) F1R(106, bool, std::shared_ptr<Other>, true) F1R(107, long, CRO, 1L)
  F2R(110, int, RB, int, 1) F2R(111, std::string, CRB, int, std::string("s1")) F2R(112, std::string, int, RS, std::string("s1")) F2R(113, int, int, CRS, 1)
  F2R(114, Boxed_Value, RB, RB, Boxed_Value(1)) F2R(115, double, CRB, CRB, 1.5)
  F0(80)
  catalogue().push_back(Entry{81, "native", {}, {}, [] { return fun([]() { enter(81, {}); }); }, "", {}, -1, false});
}

// ---- engines ------------------------------------------------------------------------------------
struct Eng {
  std::unique_ptr<ChaiScript_Basic> chai;
  int names = 0;
};
static void add_convs(ChaiScript_Basic &c, int convset) {
  c.add(user_type<Base>(), "Base");
  c.add(user_type<Derived>(), "Derived");
  c.add(user_type<Other>(), "Other");
  c.add(base_class<Base, Derived>());
  c.add(base_class<SBase, SDerived>());
  c.add(type_conversion<Other, std::string>([](const Other &o) { return "s" + std::to_string(o.tag + 100); }));
  c.add(vector_conversion<VecInt>());
  if (convset == 1) c.add(type_conversion<int, Other>([](const int &i) { return Other(i + 200); }));
  c.add(fun([](int id, const Boxed_Value &a) { g_log += " | ENTER " + std::to_string(id) + " [" + show_box(a, 0) + "]"; }), "__log1");
  c.add(fun([](int id, const Boxed_Value &a, const Boxed_Value &b) {
          g_log += " | ENTER " + std::to_string(id) + " [" + show_box(a, 0) + ";" + show_box(b, 1) + "]";
        }), "__log2");
}
// re-seating callees: what the script variable holds afterwards is known to the harness independently of the Boxed_Value's cached pointers
static const void *g_reseat_addr = nullptr;
static const void *g_reseat_from = nullptr;   // the object the re-seated shared_ptr held before
static std::string g_reseat_pay;
template<typename T, typename Mk> static void add_reseat(ChaiScript_Basic &c, Mk mk) {
  c.add(fun([mk](std::shared_ptr<T> &p) {
          g_reseat_from = p.get();
          p = std::make_shared<T>(mk(*p));
          g_reseat_addr = p.get();
          g_reseat_pay = pval(static_cast<const T &>(*p));
        }), "__reseat");
}
static void add_reseats(ChaiScript_Basic &c) {
  add_reseat<int>(c, [](const int &v) { return v + 1000; });
  add_reseat<std::string>(c, [](const std::string &v) { return "s" + std::to_string(std::stoi(sval(v)) + 1000); });
  add_reseat<Base>(c, [](const Base &v) { return Base(v.tag + 50); });
  add_reseat<Derived>(c, [](const Derived &v) { return Derived(v.tag + 50); });
  add_reseat<Other>(c, [](const Other &v) { return Other(v.tag + 50); });
  add_reseat<double>(c, [](const double &v) { return v + 1000; });
}
static Eng &engine(int convset) {
  static Eng e[2];
  if (!e[convset].chai || e[convset].names > 400) {
    e[convset].chai = vf::make_engine(true);
    e[convset].names = 0;
    add_convs(*e[convset].chai, convset);
    add_reseats(*e[convset].chai);
  }
  return e[convset];
}

// ---- arguments ----------------------------------------------------------------------------------
struct Keep { std::vector<std::shared_ptr<void>> objs; };
template<typename T> static T *keep(Keep &k, T v) {
  auto p = std::make_shared<T>(std::move(v));
  k.objs.push_back(p);
  return p.get();
}
template<typename T> static Boxed_Value mk_kind(const std::string &kind, T v, Keep &k) {
  if (kind == "var") return Boxed_Value(v);
  if (kind == "cvar") return const_var(v);
  if (kind == "ret") return Boxed_Value(v, true);
  if (kind == "ref") return var(std::ref(*keep(k, v)));
  if (kind == "cref") return var(std::cref(*keep(k, v)));
  if (kind == "ptr") return var(keep(k, v));
  if (kind == "cptr") return var(const_cast<const T *>(keep(k, v)));
  if (kind == "sp") return var(std::make_shared<T>(v));
  if (kind == "csp") return var(std::shared_ptr<const T>(std::make_shared<T>(v)));
  if (kind == "nullsp") return var(std::shared_ptr<T>());
  if (kind == "cnullsp") return var(std::shared_ptr<const T>());
  if (kind == "uniq") return var(std::make_unique<T>(v));
  throw std::runtime_error("bad kind " + kind);
}
static Boxed_Value mk_arg(const std::string &spec, Keep &k, std::string &script_text) {
  auto f = vf::split(spec, '.');
  if (f.size() != 3) throw std::runtime_error("bad arg " + spec);
  const std::string &kind = f[0];
  int ty = std::stoi(f[1]);
  long long v = std::stoll(f[2]);
  script_text.clear();
  if (kind == "undef") return Boxed_Value();
  if (kind == "fn") { // script function values
    static const char *txt[] = {"fun(x) { x + 1 }", "fun(x) { \"s\" + to_string(x) }", "fun(x, y) { x }", "fun() { 5 }", "fun(x) { 2.5 }"};
    if (v < 0 || v > 4) throw std::runtime_error("bad fn kind");
    script_text = txt[v];
    return Boxed_Value();
  }
  if (kind == "vec" || kind == "cvec") {
    VecBV vec;
    if (v == 0) { vec.push_back(var(1)); vec.push_back(var(2)); vec.push_back(var(3)); }
    else if (v == 1) { vec.push_back(var(1)); vec.push_back(var(std::string("s4"))); }
    return kind == "vec" ? Boxed_Value(vec) : const_var(vec);
  }
  if (kind == "lit") {
    switch (ty) {
      case T_INT: script_text = v < 0 ? "(" + std::to_string(v) + ")" : std::to_string(v); break;
      case T_UINT: script_text = std::to_string(v) + "u"; break;
      case T_LONG: script_text = v < 0 ? "(" + std::to_string(v) + "l)" : std::to_string(v) + "l"; break;
      case T_DOUBLE: { char b[64]; snprintf(b, sizeof b, "%.1f", double(v < 0 ? -v : v) / 2); script_text = v < 0 ? std::string("(-") + b + ")" : b; break; }
      case T_BOOL: script_text = v ? "true" : "false"; break;
      case T_CHAR: script_text = std::string("'") + static_cast<char>(v) + "'"; break;
      case T_STRING: script_text = "\"s" + std::to_string(v) + "\""; break;
      default: throw std::runtime_error("no literal of type " + f[1]);
    }
    return Boxed_Value();
  }
  if (kind == "upref") return var(std::ref(static_cast<Base &>(*keep(k, Derived(static_cast<int>(v))))));
  if (kind == "upcref") return var(std::cref(static_cast<const Base &>(*keep(k, Derived(static_cast<int>(v))))));
  if (kind == "upsp") return var(std::shared_ptr<Base>(std::make_shared<Derived>(static_cast<int>(v))));
  switch (ty) {
    case T_INT: return mk_kind<int>(kind, static_cast<int>(v), k);
    case T_UINT: return mk_kind<unsigned>(kind, static_cast<unsigned>(v), k);
    case T_LONG: return mk_kind<long>(kind, static_cast<long>(v), k);
    case T_DOUBLE: return mk_kind<double>(kind, double(v) / 2, k);
    case T_BOOL: return mk_kind<bool>(kind, v != 0, k);
    case T_CHAR: return mk_kind<char>(kind, static_cast<char>(v), k);
    case T_STRING: return mk_kind<std::string>(kind, "s" + std::to_string(v), k);
    case T_BASE: return mk_kind<Base>(kind, Base(static_cast<int>(v)), k);
    case T_DERIVED: return mk_kind<Derived>(kind, Derived(static_cast<int>(v)), k);
    case T_OTHER: return mk_kind<Other>(kind, Other(static_cast<int>(v)), k);
    case T_SBASE: return mk_kind<SBase>(kind, SBase(static_cast<int>(v)), k);
    case T_SDERIVED: return mk_kind<SDerived>(kind, SDerived(static_cast<int>(v)), k);
    case T_VECINT: return mk_kind<VecInt>(kind, VecInt{1, 2}, k);
    default: throw std::runtime_error("bad type " + f[1]);
  }
}
static std::string describe_arg(const Boxed_Value &bv, const std::string *payload = nullptr) {
  const auto &ti = bv.get_type_info();
  // ty const arith undef stor null ret
  int stor = bv.is_undef() ? 3 : (bv.is_ref() ? (std::string(bv.get().type().name()).find("unique_ptr") != std::string::npos ? 2 : 1) : 0);
  return std::to_string(tid_of(ti)) + ":" + (bv.is_const() ? "1" : "0") + ":" + (ti.is_arithmetic() ? "1" : "0") + ":" + (bv.is_undef() ? "1" : "0") + ":"
       + std::to_string(stor) + ":" + ((!bv.is_undef() && bv.is_null()) ? "1" : "0") + ":" + (bv.is_return_value() ? "1" : "0") + ":" + (payload ? *payload : box_payload(bv));
}

// keeps converted temporaries alive the way script evaluation does (Function_Push_Pop enables the conversion saves)
struct Saves {
  Type_Conversions::Conversion_Saves &s;
  explicit Saves(Type_Conversions::Conversion_Saves &t) : s(t) { Type_Conversions::enable_conversion_saves(s, true); }
  ~Saves() { s.saves.clear(); Type_Conversions::enable_conversion_saves(s, false); }
};
// ---- cast-out table -----------------------------------------------------------------------------
struct CastCtx { ChaiScript_Basic *chai; std::string mode; std::string text; };
template<typename T> static decltype(auto) do_cast(CastCtx &c, const Boxed_Value &b) {
  if (c.mode == "noconv") return chaiscript::boxed_cast<T>(b);
  return c.chai->boxed_cast<T>(b);
}
using CastFn = std::function<std::string(CastCtx &, const Boxed_Value &)>;
static std::map<std::string, CastFn> &cast_table() {
  static std::map<std::string, CastFn> t;
  if (!t.empty()) return t;
#define CAST1(FORM, ID, P) t[std::string(FORM) + "." + std::to_string(ID)] = [](CastCtx &c, const Boxed_Value &b) -> std::string { \
    if (c.mode == "eval" && c.text.empty()) return "BADCASE"; \
    Saves keep_saves(rob::engine_of(*c.chai).conversions().conversion_saves()); \
    if (c.mode == "eval") { if constexpr (std::is_reference_v<P> || std::is_pointer_v<P>) return "BADCASE"; else return shw<P>(c.chai->eval<P>(c.text), 0); } \
    return shw<P>(do_cast<P>(c, b), 0); };
#define CASTS(T, ID) CAST1("FVal", ID, T) CAST1("FCVal", ID, const T) CAST1("FCRef", ID, const T &) CAST1("FRef", ID, T &) CAST1("FPtr", ID, T *) \
    CAST1("FCPtr", ID, const T *) CAST1("FSh", ID, std::shared_ptr<T>) CAST1("FShC", ID, std::shared_ptr<const T>) CAST1("FShCRef", ID, const std::shared_ptr<T> &) \
    CAST1("FRw", ID, std::reference_wrapper<T>) CAST1("FRwC", ID, std::reference_wrapper<const T>)
  CASTS(int, T_INT) CASTS(unsigned, T_UINT) CASTS(long, T_LONG) CASTS(double, T_DOUBLE) CASTS(bool, T_BOOL) CASTS(char, T_CHAR) CASTS(std::string, T_STRING)
  CASTS(Base, T_BASE) CASTS(Derived, T_DERIVED) CASTS(Other, T_OTHER) CASTS(SBase, T_SBASE) CASTS(VecInt, T_VECINT)
  CAST1("FBV", T_BV, Boxed_Value) CAST1("FBVCRef", T_BV, const Boxed_Value &) CAST1("FBN", T_BN, Boxed_Number)
#undef CASTS
#undef CAST1
  // std::function wrappers: cast, then call it with 20 and hand the result to C++ as Ret
  t["FFn.30"] = [](CastCtx &c, const Boxed_Value &b) -> std::string {
    FnII f = c.mode == "eval" ? c.chai->eval<FnII>(c.text) : do_cast<FnII>(c, b);
    std::string r = std::to_string(T_FUN) + ":fn@-:h?";
    try { r += " call=" + std::to_string(T_INT) + ":" + pval(f(20)); } catch (...) { r += " call=ERR(" + vf::classify_current_exception() + ")"; }
    return r;
  };
  t["FFn.31"] = [](CastCtx &c, const Boxed_Value &b) -> std::string {
    FnSI f = c.mode == "eval" ? c.chai->eval<FnSI>(c.text) : do_cast<FnSI>(c, b);
    std::string r = std::to_string(T_FUN) + ":fn@-:h?";
    try { r += " call=" + std::to_string(T_STRING) + ":" + pval(f(20)); } catch (...) { r += " call=ERR(" + vf::classify_current_exception() + ")"; }
    return r;
  };
  return t;
}

static std::string err_class() {
  try { throw; }
  catch (const chaiscript::exception::arity_error &) { return "arity_error"; }
  catch (const chaiscript::exception::guard_error &) { return "guard_error"; }
  catch (const chaiscript::detail::exception::bad_any_cast &) { return "bad_any_cast"; }
  catch (...) { return vf::classify_current_exception(); }
}

// ---- one case -----------------------------------------------------------------------------------
static std::string run_case(const std::string &line) {
  auto halves = vf::split(line, '|');
  if (halves.size() != 2) return "BADCASE";
  auto head = vf::split(halves[0]);
  while (!head.empty() && head.back().empty()) head.pop_back();
  std::vector<std::string> argspecs;
  for (auto &a : vf::split(halves[1])) if (!a.empty()) argspecs.push_back(a);
  if (head.size() < 4) return "BADCASE";
  int convset = std::stoi(head[1]);
  Eng &E = engine(convset);
  ChaiScript_Basic &chai = *E.chai;
  Keep keepalive;
  std::vector<Boxed_Value> args;
  std::vector<std::string> texts;
  std::string out = "ARGS", hist;
  int nreseat = 0;
  bool script_route = head[0] == "D" && head[2] == "script";
  for (const char *pre : {"sreseat", "reseat", "rconv"}) {
    const std::string pf(pre);
    if (head[2].compare(0, pf.size(), pf) == 0 && head[2].find_first_not_of("0123456789", pf.size()) == std::string::npos) {
      nreseat = head[2].size() > pf.size() ? std::stoi(head[2].substr(pf.size())) : 1;
      if (pf == "sreseat") script_route = true;
      break;
    }
  }
  if (nreseat > 8) return "BADCASE history too long";
  try {
    for (size_t j = 0; j < argspecs.size(); ++j) {
      std::string text;
      Boxed_Value b = mk_arg(argspecs[j], keepalive, text);
      if (!text.empty()) {
        // literals and script function values are produced by the parser/evaluator
        if (head[0] == "C" || !script_route) b = chai.eval(text);
      }
      args.push_back(b);
      texts.push_back(text);
      g_arg_unknown[j] = (!text.empty() && script_route);
      g_arg_addr[j] = b.get_const_ptr();
      if (j == 0 && nreseat > 0) {
        // history: N times, a C++ function taking std::shared_ptr<T>& re-seats the variable
        hist = " | HIST " + describe_arg(b);
        chai.set_locals({{"rs", b}});
        for (int step = 0; step < nreseat; ++step) {
          g_reseat_addr = nullptr;
          chai.eval("__reseat(rs)");
          if (!g_reseat_addr) { chai.set_locals({}); return "BADCASE reseat did not run"; }
          // dispatch may have handed the callee an arithmetic conversion of a const variable: then the variable itself was not re-seated
          if (g_reseat_from != g_arg_addr[j]) { chai.set_locals({}); return "BADCASE reseat was applied to a converted temporary, not to the variable"; }
          g_arg_addr[j] = g_reseat_addr;
          hist += " " + g_reseat_pay;
        }
        chai.set_locals({});
        g_arg_addr[j] = g_reseat_addr;
        out += " " + describe_arg(b, &g_reseat_pay);
        continue;
      }
      out += " " + (g_arg_unknown[j] ? std::string("text") : describe_arg(b));
    }
  } catch (const std::exception &e) { return std::string("BADCASE ") + e.what(); }
  out += hist;
  g_log.clear();
  if (head[0] == "C") {
    CastCtx ctx{&chai, nreseat > 0 ? std::string("conv") : head[2], texts.empty() ? "" : texts[0]};
    auto it = cast_table().find(head[3]);
    if (it == cast_table().end() || args.size() != 1) return "BADCASE no such cast " + head[3];
    try { out += " | CAST " + it->second(ctx, args[0]); }
    catch (...) { out += " | ERR(" + err_class() + ")"; }
    return out;
  }
  // D: register the overloads under a fresh name, in the given order
  const std::string name = "f" + std::to_string(E.names++) + "_";
  std::map<const void *, int> idof;
  std::set<const void *> seen;
  try {
    for (auto &s : vf::split(head[3], ',')) {
      int id = std::stoi(s);
      const Entry *en = nullptr;
      for (auto &e : catalogue()) if (e.id == id) en = &e;
      if (!en) return "BADCASE unknown id " + s;
      if (en->kind == "dyn") chai.eval("def " + name + en->def);
      else chai.add(en->make(), name);
      // identify the function object that was just added
      Boxed_Value fo = chai.eval(name);
      auto pf = chaiscript::boxed_cast<Const_Proxy_Function>(fo);
      auto inner = pf->get_contained_functions();
      if (inner.empty()) inner.push_back(pf);
      for (auto &g : inner) if (!seen.count(g.get())) { seen.insert(g.get()); idof[g.get()] = id; }
    }
  } catch (...) { return out + " | REGERR(" + err_class() + ")"; }
  Boxed_Value fo = chai.eval(name);
  auto pf = chaiscript::boxed_cast<Const_Proxy_Function>(fo);
  {
    auto inner = pf->get_contained_functions();
    if (inner.empty()) inner.push_back(pf);
    out += " | ORDER ";
    for (size_t i = 0; i < inner.size(); ++i) out += (i ? "," : "") + std::to_string(idof[inner[i].get()]);
  }
  std::string res;
  Boxed_Value ret;
  try {
    if (script_route) {
      std::map<std::string, Boxed_Value> locals;
      std::string call = name + "(";
      for (size_t j = 0; j < args.size(); ++j) {
        if (!texts[j].empty()) call += (j ? ", " : "") + texts[j];
        else { locals["a" + std::to_string(j)] = args[j]; call += (j ? ", a" : "a") + std::to_string(j); }
      }
      chai.set_locals(locals);
      ret = chai.eval(call + ")");
    } else if (head[2] == "fncall") {
      // C++ calls the registered overloads through a std::function wrapper obtained from the engine (public API only)
      switch (args.size()) {
        case 0: chai.eval<std::function<void()>>(name)(); break;
        case 1: chai.eval<std::function<void(Boxed_Value)>>(name)(args[0]); break;
        case 2: chai.eval<std::function<void(Boxed_Value, Boxed_Value)>>(name)(args[0], args[1]); break;
        default: chai.eval<std::function<void(Boxed_Value, Boxed_Value, Boxed_Value)>>(name)(args[0], args[1], args[2]); break;
      }
    } else {
      // the function object is called the way Fun_Call_AST_Node calls it; converted temporaries are kept alive for the
      // duration of the call as they are during script evaluation (Function_Push_Pop enables the conversion saves)
      auto &eng = rob::engine_of(chai);
      auto &saves = eng.conversions().conversion_saves();
      Type_Conversions_State st(eng.conversions(), saves);
      Saves keep_saves(saves);
      ret = (*pf)(Function_Params{args}, st);
    }
    res = "ok";
  } catch (...) { res = "ERR(" + err_class() + ")"; }
  // Attribute_Access runs no harness code: recognise its result (a reference to the member `tag` of the argument)
  if (res == "ok" && g_log.empty() && args.size() == 1 && !ret.is_undef() && !args[0].is_undef()
      && (tid_of(args[0].get_type_info()) == T_BASE || tid_of(args[0].get_type_info()) == T_DERIVED) && tid_of(ret.get_type_info()) == T_INT && ret.is_ref()) {
    const Base *bp = tid_of(args[0].get_type_info()) == T_BASE ? static_cast<const Base *>(args[0].get_const_ptr())
                                                                : static_cast<const Base *>(static_cast<const Derived *>(args[0].get_const_ptr()));
    if (bp == nullptr) g_log += " | ENTER 44 [" + std::to_string(T_BASE) + ":null@N]";   // o->*m_attr on a null object: the result must not be read
    else if (ret.get_const_ptr() == &bp->tag) g_log += " | ENTER 44 [" + std::to_string(T_BASE) + ":" + pval(*bp) + "@S]";
  }
  if (script_route) chai.set_locals({});
  return out + g_log + " | RES " + res;
}

static void dump_catalog() {
  auto chai = vf::make_engine(true);
  add_convs(*chai, 1);
  // every parameter Type_Info, for the before() ranks
  struct PT { Type_Info ti; };
  std::vector<std::pair<int, std::vector<Type_Info>>> all;
  std::vector<Type_Info> distinct;
  for (auto &e : catalogue()) {
    std::vector<Type_Info> tis;
    if (e.kind == "dyn") {
      chai->eval("def cat" + std::to_string(e.id) + e.def);
      auto pf = chaiscript::boxed_cast<Const_Proxy_Function>(chai->eval("cat" + std::to_string(e.id)));
      auto inner = pf->get_contained_functions();
      tis = (inner.empty() ? pf : inner[0])->get_param_types();
    } else tis = e.make()->get_param_types();
    all.emplace_back(e.id, tis);
    for (size_t i = 0; i < tis.size(); ++i) {
      bool found = false;
      for (auto &d : distinct) if (!(d < tis[i]) && !(tis[i] < d)) found = true;
      if (!found) distinct.push_back(tis[i]);
    }
  }
  std::sort(distinct.begin(), distinct.end(), [](const Type_Info &a, const Type_Info &b) { return a < b; });
  auto rank = [&](const Type_Info &t) { for (size_t i = 0; i < distinct.size(); ++i) if (!(distinct[i] < t) && !(t < distinct[i])) return static_cast<int>(i); return -1; };
  for (size_t n = 0; n < catalogue().size(); ++n) {
    auto &e = catalogue()[n];
    auto &tis = all[n].second;
    Proxy_Function pf = e.kind == "dyn" ? Proxy_Function() : e.make();
    int arity = e.kind == "dyn" ? static_cast<int>(tis.size()) - 1 : pf->get_arity();
    // slot 0 of get_param_types() is the return type: bare:const:undef:rank
    std::cout << "FUNC " << e.id << " " << e.kind << " " << arity << " " << (e.throws ? 1 : 0) << " " << e.guard << " "
              << tid_of(tis[0]) << ":" << tis[0].is_const() << ":" << tis[0].is_undef() << ":" << rank(tis[0]) << " " << (tis.size() - 1);
    for (size_t i = 1; i < tis.size(); ++i) {
      const auto &t = tis[i];
      bool fullbare = std::string(t.name()) == t.bare_name();
      std::string form = e.kind == "dyn" ? "FBV" : (i - 1 < e.forms.size() ? e.forms[i - 1] : "FVal");
      std::cout << " " << tid_of(t) << ":" << t.is_const() << ":" << t.is_arithmetic() << ":" << t.is_undef() << ":" << fullbare << ":" << rank(t) << ":" << form << ":"
                << (i - 1 < e.fnar.size() ? e.fnar[i - 1] : 0) << ":" << ((e.kind == "dyn" && i - 1 < e.named.size()) ? e.named[i - 1] : 0);
    }
    std::cout << "\n";
  }
  std::cout << "CONV 0 " << T_BASE << " " << T_DERIVED << " dyn 0\nCONV 0 " << T_SBASE << " " << T_SDERIVED << " static 0\nCONV 0 " << T_STRING << " " << T_OTHER
            << " user 1\nCONV 0 " << T_VECINT << " " << T_VECBV << " user 2\nCONV 1 " << T_OTHER << " " << T_INT << " user 3\n";
  // stdlib conversions that make Proxy_Function_Base a convertible type
  std::cout << "CONVERTIBLE_FUN " << rob::engine_of(*chai).conversions().convertable_type<dispatch::Proxy_Function_Base>() << "\n";
  // argument evaluation order of this compiler
  static std::string order;
  auto tick = [](int i) { order += std::to_string(i); return i; };
  auto two = [](int, int) {};
  two(tick(0), tick(1));
  std::cout << "ARGORDER " << (order == "10" ? "rtl" : "ltr") << "\n";
  std::cout << "PLATFORM int=" << sizeof(int) << " long=" << sizeof(long) << " char_signed=" << std::is_signed_v<char> << "\n";
}

int main(int argc, char **argv) {
  build_catalogue();
  if (argc > 1 && std::string(argv[1]) == "catalog") { dump_catalog(); return 0; }
  return vf::run_cases([](const std::string &l) {
    try { return run_case(l); } catch (const std::exception &e) { return std::string("HARNESS-EXC ") + e.what(); }
  });
}
