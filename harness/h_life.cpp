// C11 harness: object lifetimes of an instrumented C++ class seen through the script engine.
//
// case line:    hex-encoded script; the text is cut at lines consisting of `#EVAL` into segments that are
//               evaluated by separate chai.eval() calls on the same engine (an exception ends its segment only).
//               An optional first line `#NOOPT` selects the unoptimised parser.
// observation:  items joined by " ; "
//     cp:<label>:<live>:<kinds>     script called checkpoint(label): number of live Tracked objects and the
//                                   construction kind of each live one, in id order
//                                   (D default, I from int, C copy, M move, V converted from Seed, X C++-side, O member of an Owner)
//     in:<fn>:<live>                a registered C++ function was entered with that many live objects
//     val:<label>:<n>               script called checkval(label, e): the int the expression evaluated to
//     t:<id>                        a member of a live object was used (script `get`/`set`/`id` or C++ side)
//     err:<class>                   the segment ended with that exception class
//     TOUCH-AFTER-DESTROY:<id|?>    a member function ran on a destroyed object (canary poisoned)
//     DOUBLE-DESTROY:<id|?>         a destructor ran on an already destroyed object
//     end:<live>:<kinds>            after the engine was destroyed (C++-kept shared_ptrs still held)
//     final:<live>:<kinds>          after the C++ side released what it kept
// ASan/UBSan death of the child = SIG(n)/EXIT(n) for that case (vf::run_cases).
#include "hcommon.hpp"
#include <chaiscript/dispatchkit/bootstrap_stl.hpp>
#include <map>
using namespace chaiscript;

namespace {
  constexpr uint64_t LIVE = 0x11fe11fe11fe11feULL;
  constexpr uint64_t DEAD = 0xdeaddeaddeaddeadULL;

  struct Reg {
    struct Rec { char kind; bool alive; };
    std::vector<Rec> recs;
    std::vector<std::string> items;
    int live() const { int n = 0; for (auto &r : recs) n += r.alive; return n; }
    std::string kinds() const { std::string s; for (auto &r : recs) if (r.alive) s.push_back(r.kind); return s.empty() ? "-" : s; }
  };
  Reg *g = nullptr;
  bool g_trace_touch = true;

  struct Tracked {
    uint64_t canary;
    int id;
    int val;
    void born(char k) {
      canary = LIVE;
      id = static_cast<int>(g->recs.size());
      g->recs.push_back({k, true});
    }
    bool ok(const char *what) const {
      (void)what;
      if (canary != LIVE) {
        g->items.push_back(std::string("TOUCH-AFTER-DESTROY:") + (canary == DEAD && id >= 0 && id < static_cast<int>(g->recs.size()) ? std::to_string(id) : "?"));
        return false;
      }
      if (g_trace_touch) g->items.push_back("t:" + std::to_string(id));
      return true;
    }
    Tracked() : val(0) { born('D'); }
    explicit Tracked(int v) : val(v) { born('I'); }
    Tracked(int v, char k) : val(v) { born(k); }
    Tracked(const Tracked &o) : val(0) { if (o.okq()) val = o.val; born('C'); }
    Tracked(Tracked &&o) noexcept : val(0) { if (o.okq()) val = o.val; born('M'); }
    Tracked &operator=(const Tracked &o) { if (okq() && o.okq()) val = o.val; return *this; }
    ~Tracked() {
      if (canary == DEAD) { g->items.push_back("DOUBLE-DESTROY:" + std::to_string(id)); return; }
      if (canary != LIVE) { g->items.push_back("DOUBLE-DESTROY:?"); return; }
      g->recs[static_cast<size_t>(id)].alive = false;
      canary = DEAD;
    }
    // quiet validity check (copies/assignments report misuse but do not add touch items)
    bool okq() const {
      if (canary != LIVE) { g->items.push_back(std::string("TOUCH-AFTER-DESTROY:") + (canary == DEAD ? std::to_string(id) : "?")); return false; }
      return true;
    }
    int get() const { return ok("get") ? val : -1; }
    void set(int v) { if (ok("set")) val = v; }
    int ident() const { return ok("id") ? id : -1; }
  };

  struct Seed { int v; explicit Seed(int x) : v(x) {} };
  struct Owner { Tracked inner; Owner() : inner(5, 'O') {} };   // a C++ object that contains an instrumented member

  void in(const char *fn) { g->items.push_back(std::string("in:") + fn + ":" + std::to_string(g->live())); }

  // what the C++ side holds
  std::vector<std::shared_ptr<Tracked>> *g_kept = nullptr;
  std::shared_ptr<Tracked> *g_cxx_owned = nullptr;   // an object created and owned by C++ (kind X)

  int by_value(Tracked t) { in("by_value"); return t.get(); }
  int by_ref(Tracked &t) { in("by_ref"); return t.get(); }
  int by_cref(const Tracked &t) { in("by_cref"); return t.get(); }
  int by_ptr(Tracked *t) { in("by_ptr"); return t ? t->get() : -2; }
  int by_cptr(const Tracked *t) { in("by_cptr"); return t ? t->get() : -2; }
  int by_sp(std::shared_ptr<Tracked> t) { in("by_sp"); return t ? t->get() : -2; }
  int by_csp(const std::shared_ptr<Tracked> &t) { in("by_csp"); return t ? t->get() : -2; }
  int by_spref(std::shared_ptr<Tracked> &t) { in("by_spref"); return t ? t->get() : -2; }   // non-const shared_ptr &: pointer_sentinel, not re-seated
  // re-seats the shared_ptr held by the script value: the old object loses that owner, the value owns a new one
  void reseat(std::shared_ptr<Tracked> &p, int v) { in("reseat"); p = std::make_shared<Tracked>(v); in("reseated"); }
  int by_bv(Boxed_Value bv) { in("by_bv"); return boxed_cast<const Tracked &>(bv).get(); }
  void keep(std::shared_ptr<Tracked> t) { in("keep"); g_kept->push_back(std::move(t)); }
  void release_kept() { g_kept->clear(); in("release_kept"); }
  int kept_count() { return static_cast<int>(g_kept->size()); }
  int touch_kept() { int s = 0; for (auto &p : *g_kept) s += p->get(); return s; }

  Tracked make_value(int v) { in("make_value"); return Tracked(v); }
  const Tracked make_cvalue(int v) { in("make_cvalue"); return Tracked(v); }
  std::shared_ptr<Tracked> make_sp(int v) { in("make_sp"); return std::make_shared<Tracked>(v); }
  std::unique_ptr<Tracked> make_up(int v) { in("make_up"); return std::make_unique<Tracked>(v); }
  Tracked &ref_of(Tracked &t) { in("ref_of"); return t; }
  const Tracked &cref_of(const Tracked &t) { in("cref_of"); return t; }
  Tracked *ptr_of(Tracked &t) { in("ptr_of"); return &t; }
  const Tracked *cptr_of(const Tracked &t) { in("cptr_of"); return &t; }
  std::shared_ptr<Tracked> sp_of(const std::shared_ptr<Tracked> &t) { in("sp_of"); return t; }
  // (a function returning its own `const std::shared_ptr<T> &` parameter is not usable through the engine: the
  //  parameter is a temporary of call_func; see the builder's report)
  const std::shared_ptr<Tracked> &cxx_csp() { in("cxx_csp"); return *g_cxx_owned; }
  Tracked *cxx_ptr() { in("cxx_ptr"); return g_cxx_owned->get(); }
  Tracked copy_of(const Tracked &t) { in("copy_of"); return t; }
  Tracked &cxx_ref() { in("cxx_ref"); return **g_cxx_owned; }
  std::shared_ptr<Tracked> cxx_sp() { in("cxx_sp"); return *g_cxx_owned; }
  Boxed_Value bv_of(Boxed_Value bv) { in("bv_of"); return bv; }
  std::shared_ptr<Tracked> last_kept() { in("last_kept"); return g_kept->empty() ? std::shared_ptr<Tracked>() : g_kept->back(); }

  void checkpoint(const std::string &label) {
    g->items.push_back("cp:" + label + ":" + std::to_string(g->live()) + ":" + g->kinds());
  }
  // the value a script expression evaluates to (loop counters referred to after their loop): val:<label>:<value>
  void checkval(const std::string &label, int v) { g->items.push_back("val:" + label + ":" + std::to_string(v)); }
  void fail_here() { throw std::runtime_error("fail_here"); }

  ModulePtr life_module() {
    auto m = std::make_shared<Module>();
    m->add(user_type<Tracked>(), "Tracked");
    m->add(constructor<Tracked()>(), "Tracked");
    m->add(constructor<Tracked(int)>(), "Tracked");
    m->add(constructor<Tracked(const Tracked &)>(), "Tracked");
    m->add(fun(&Tracked::get), "get");
    m->add(fun(&Tracked::set), "set");
    m->add(fun(&Tracked::ident), "id");
    m->add(fun([](Tracked &a, const Tracked &b) -> Tracked & { a = b; return a; }), "=");
    m->add(user_type<Owner>(), "Owner");
    m->add(constructor<Owner()>(), "Owner");
    m->add(constructor<Owner(const Owner &)>(), "Owner");
    m->add(fun(&Owner::inner), "inner");
    m->add(user_type<Seed>(), "Seed");
    m->add(constructor<Seed(int)>(), "Seed");
    m->add(type_conversion<Seed, Tracked>([](const Seed &s) { return Tracked(s.v, 'V'); }));
    m->add(fun(&by_value), "by_value");
    m->add(fun(&by_ref), "by_ref");
    m->add(fun(&by_cref), "by_cref");
    m->add(fun(&by_ptr), "by_ptr");
    m->add(fun(&by_cptr), "by_cptr");
    m->add(fun(&by_sp), "by_sp");
    m->add(fun(&by_csp), "by_csp");
    m->add(fun(&by_bv), "by_bv");
    m->add(fun(&by_spref), "by_spref");
    m->add(fun(&reseat), "reseat");
    m->add(fun(&keep), "keep");
    m->add(fun(&release_kept), "release_kept");
    m->add(fun(&kept_count), "kept_count");
    m->add(fun(&touch_kept), "touch_kept");
    m->add(fun(&make_value), "make_value");
    m->add(fun(&make_cvalue), "make_cvalue");
    m->add(fun(&make_sp), "make_sp");
    m->add(fun(&make_up), "make_up");
    m->add(fun(&ref_of), "ref_of");
    m->add(fun(&cref_of), "cref_of");
    m->add(fun(&ptr_of), "ptr_of");
    m->add(fun(&cptr_of), "cptr_of");
    m->add(fun(&sp_of), "sp_of");
    m->add(fun(&cxx_csp), "cxx_csp");
    m->add(fun(&cxx_ptr), "cxx_ptr");
    m->add(fun(&copy_of), "copy_of");
    m->add(fun(&cxx_ref), "cxx_ref");
    m->add(fun(&cxx_sp), "cxx_sp");
    m->add(fun(&bv_of), "bv_of");
    m->add(fun(&last_kept), "last_kept");
    m->add(fun(&checkpoint), "checkpoint");
    m->add(fun(&checkval), "checkval");
    m->add(fun(&fail_here), "fail_here");
    return m;
  }

  std::vector<std::string> segments(const std::string &script, bool &opt) {
    std::vector<std::string> segs;
    std::string cur;
    std::istringstream is(script);
    std::string line;
    bool first = true;
    while (std::getline(is, line)) {
      if (first && line == "#NOOPT") { opt = false; first = false; continue; }
      first = false;
      if (line == "#EVAL") { segs.push_back(cur); cur.clear(); continue; }
      cur += line;
      cur += "\n";
    }
    segs.push_back(cur);
    return segs;
  }

  std::string run_case(const std::string &line) {
    Reg reg;
    g = &reg;
    std::vector<std::shared_ptr<Tracked>> kept;
    g_kept = &kept;
    std::shared_ptr<Tracked> owned = std::make_shared<Tracked>(77, 'X');
    g_cxx_owned = &owned;
    bool opt = true;
    auto segs = segments(vf::unhex(line), opt);
    {
      static const auto lib = verif_stdlib();     // the library module is shared between engines, as applications do
      auto chai = std::make_unique<chaiscript::ChaiScript_Basic>(lib, verif_parser(opt));
      chai->add(life_module());
      for (auto &s : segs) {
        try {
          chai->eval(s);
        } catch (...) {
          reg.items.push_back("err:" + vf::classify_current_exception());
        }
      }
    }
    reg.items.push_back("end:" + std::to_string(reg.live()) + ":" + reg.kinds());
    kept.clear();
    owned.reset();
    reg.items.push_back("final:" + std::to_string(reg.live()) + ":" + reg.kinds());
    std::string out;
    for (size_t i = 0; i < reg.items.size(); ++i) { if (i) out += " ; "; out += reg.items[i]; }
    g = nullptr;
    return out;
  }

} // namespace

int main(int argc, char **argv) {
  bool fork_mode = !(argc > 1 && std::string(argv[1]) == "nofork");
  return vf::run_cases(run_case, fork_mode, 20);
}
