#include <chaiscript/language/chaiscript_parser.hpp>
namespace vf {
  // Optimizer<> (empty pack) does not compile; an identity pass gives the unoptimised parser.
  struct Identity_Pass {
    template<typename T> auto optimize(chaiscript::eval::AST_Node_Impl_Ptr<T> p) { return p; }
  };
}
std::unique_ptr<chaiscript::parser::ChaiScript_Parser_Base> verif_parser(bool optimize) {
  using namespace chaiscript;
  if (optimize) return std::make_unique<parser::ChaiScript_Parser<eval::Noop_Tracer, optimizer::Optimizer_Default>>();
  return std::make_unique<parser::ChaiScript_Parser<eval::Noop_Tracer, optimizer::Optimizer<vf::Identity_Pass>>>();
}
