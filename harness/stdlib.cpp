#include <chaiscript/chaiscript_stdlib.hpp>
std::shared_ptr<chaiscript::Module> verif_stdlib() { return chaiscript::Std_Lib::library(); }
