// Shared helpers for the verification harness programs (compiled against /repo/include).
#pragma once
#include <chaiscript/chaiscript_basic.hpp>
#include <csignal>
#include <cstdio>
#include <cstring>
#include <functional>
#include <iostream>
#include <sstream>
#include <string>
#include <vector>
#include <sys/time.h>
#include <sys/wait.h>
#include <unistd.h>

std::shared_ptr<chaiscript::Module> verif_stdlib();
std::unique_ptr<chaiscript::parser::ChaiScript_Parser_Base> verif_parser(bool optimize);

namespace vf {
  inline std::unique_ptr<chaiscript::ChaiScript_Basic> make_engine(bool optimize = true, std::vector<std::string> modpaths = {}, std::vector<std::string> usepaths = {}) {
    return std::make_unique<chaiscript::ChaiScript_Basic>(verif_stdlib(), verif_parser(optimize), std::move(modpaths), std::move(usepaths));
  }

  inline std::string hex(const std::string &s) {
    if (s.empty()) return "-";
    static const char *d = "0123456789abcdef";
    std::string r;
    r.reserve(s.size() * 2);
    for (unsigned char c : s) { r.push_back(d[c >> 4]); r.push_back(d[c & 15]); }
    return r;
  }
  inline std::string unhex(const std::string &h) {
    if (h == "-") return "";
    std::string r;
    auto v = [](char c) { return c <= '9' ? c - '0' : (c | 32) - 'a' + 10; };
    for (size_t i = 0; i + 1 < h.size(); i += 2) r.push_back(static_cast<char>(v(h[i]) * 16 + v(h[i + 1])));
    return r;
  }
  inline std::vector<std::string> split(const std::string &s, char sep = ' ') {
    std::vector<std::string> r;
    std::string cur;
    for (char c : s) { if (c == sep) { r.push_back(cur); cur.clear(); } else cur.push_back(c); }
    r.push_back(cur);
    return r;
  }

  // Canonical error class of whatever exception is in flight.
  inline std::string classify_current_exception(std::string *detail = nullptr) {
    try { throw; }
    catch (const chaiscript::exception::eval_error &e) { if (detail) *detail = e.reason; return "eval_error"; }
    catch (const chaiscript::exception::arithmetic_error &e) { if (detail) *detail = e.what(); return "arithmetic_error"; }
    catch (const chaiscript::exception::bad_boxed_cast &e) { if (detail) *detail = e.what(); return "bad_boxed_cast"; }
    catch (const chaiscript::exception::dispatch_error &e) { if (detail) *detail = e.what(); return "dispatch_error"; }
    catch (const chaiscript::exception::file_not_found_error &e) { if (detail) *detail = e.what(); return "file_not_found_error"; }
    catch (const chaiscript::Boxed_Value &bv) { if (detail) *detail = bv.get_type_info().bare_name(); return "boxed"; }
    catch (const std::out_of_range &e) { if (detail) *detail = e.what(); return "std:out_of_range"; }
    catch (const std::range_error &e) { if (detail) *detail = e.what(); return "std:range_error"; }
    catch (const std::logic_error &e) { if (detail) *detail = e.what(); return "std:logic_error"; }
    catch (const std::runtime_error &e) { if (detail) *detail = e.what(); return "std:runtime_error"; }
    catch (const std::bad_cast &e) { if (detail) *detail = e.what(); return "std:bad_cast"; }
    catch (const std::exception &e) { if (detail) *detail = e.what(); return "std:exception"; }
    catch (...) { return "other"; }
  }

  // Run fn over every input line, each batch in a forked child so that a signal
  // (SIGFPE, SIGSEGV, abort, sanitizer death) is an observation for that one case.
  inline int run_cases(const std::function<std::string(const std::string &)> &fn, bool fork_mode = true, unsigned alarm_s = 0) {
    std::vector<std::string> lines;
    std::string l;
    while (std::getline(std::cin, l)) lines.push_back(l);
    size_t i = 0;
    if (!fork_mode) {
      for (auto &x : lines) std::cout << fn(x) << "\n";
      return 0;
    }
    while (i < lines.size()) {
      int fd[2];
      if (pipe(fd) != 0) return 2;
      std::cout.flush();
      pid_t pid = fork();
      if (pid == 0) {
        close(fd[0]);
        FILE *o = fdopen(fd[1], "w");
        for (size_t k = i; k < lines.size(); ++k) {
          if (alarm_s) {
            // CPU-time limit per case (SIGPROF = 27); wall-clock alarms misfire when the machine is loaded
            struct itimerval tv {};
            tv.it_value.tv_sec = alarm_s;
            setitimer(ITIMER_PROF, &tv, nullptr);
          }
          std::string r = fn(lines[k]);
          for (auto &c : r) if (c == '\n') c = ' ';
          fprintf(o, "%s\n", r.c_str());
          fflush(o);
        }
        fclose(o);
        _exit(0);
      }
      close(fd[1]);
      FILE *in = fdopen(fd[0], "r");
      char *buf = nullptr;
      size_t cap = 0;
      ssize_t n;
      while ((n = getline(&buf, &cap, in)) > 0) {
        if (buf[n - 1] == '\n') buf[n - 1] = 0;
        std::cout << buf << "\n";
        ++i;
      }
      free(buf);
      fclose(in);
      int st = 0;
      waitpid(pid, &st, 0);
      if (i < lines.size()) {
        if (WIFSIGNALED(st)) std::cout << "SIG(" << WTERMSIG(st) << ")\n";
        else std::cout << "EXIT(" << WEXITSTATUS(st) << ")\n";
        ++i;
      }
    }
    return 0;
  }
} // namespace vf
