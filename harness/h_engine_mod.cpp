// C15: two loadable modules (one shared object) for the load_module / active_loaded_modules part of a State.
// Content mirrored by the `%vm0 ...` / `%vm1 ...` segments that tools/p_C15.py puts in front of every history:
//   vm0: type MT0 = Ty<2>;  mf0() -> 9001 (kind 10);  f0(int) -> 9002 (kind 11);  f1() -> 9003 (kind 10)
//   vm1: type T0 = Ty<3>;   c0(int, int) -> 9004 (kind 12)
#include <chaiscript/chaiscript_basic.hpp>
#include "h_engine_types.hpp"

namespace {
  int k10a() { return 9001; }
  int k11(int) { return 9002; }
  int k10b() { return 9003; }
  int k12(int, int) { return 9004; }
}

extern "C" chaiscript::ModulePtr create_chaiscript_module_vm0() {
  auto m = std::make_shared<chaiscript::Module>();
  m->add(chaiscript::user_type<vf_c15::Ty<2>>(), "MT0");
  m->add(chaiscript::fun(&k10a), "mf0");
  m->add(chaiscript::fun(&k11), "f0");
  m->add(chaiscript::fun(&k10b), "f1");
  return m;
}

extern "C" chaiscript::ModulePtr create_chaiscript_module_vm1() {
  auto m = std::make_shared<chaiscript::Module>();
  m->add(chaiscript::user_type<vf_c15::Ty<3>>(), "T0");
  m->add(chaiscript::fun(&k12), "c0");
  return m;
}
