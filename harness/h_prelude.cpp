// C17 harness: run one real prelude function on given inputs with a callback from a fixed menu and
// report   R=<result> T=<callback trace> IN=<the by-reference inputs afterwards>   (or ERR(class) T=...).
// case line:  <fn> <callback names (lower case)...> <values in prefix notation (upper-case initial)...>
// values: I<int> D<int> S<text,_=space> C<code> B0|B1  L<n> v1..vn  P a b      (same grammar as coq/theories/PreludeIO.v)
#include "hcommon.hpp"
#include <map>
#include <sys/mman.h>
#include <sys/resource.h>
#include <sys/time.h>
using namespace chaiscript;

static std::vector<std::string> g_trace;

static char esc_chr(char c) { return c == '\t' ? '~' : c == '\n' ? '|' : c == '\r' ? '^' : c; }
static char unus_chr(char c) { return c == '_' ? ' ' : c == '~' ? '\t' : c == '|' ? '\n' : c == '^' ? '\r' : c; }
static std::string esc(std::string s) { for (auto &c : s) c = esc_chr(c); return s; }

static std::string show(const Boxed_Value &bv) {
  if (bv.is_undef() || bv.get_type_info().bare_equal(user_type<void>())) return "-";
  const auto &ti = bv.get_type_info();
  if (ti.bare_equal(user_type<int>())) return std::to_string(boxed_cast<int>(bv));
  if (ti.bare_equal(user_type<bool>())) return boxed_cast<bool>(bv) ? "true" : "false";
  if (ti.bare_equal(user_type<double>())) {
    double d = boxed_cast<double>(bv);
    long long z = static_cast<long long>(d);
    if (static_cast<double>(z) == d && d > -9e15 && d < 9e15) return "d" + std::to_string(z);
    char b[64];
    snprintf(b, sizeof b, "d?%.17g", d);
    return b;
  }
  if (ti.bare_equal(user_type<std::string>())) return "\"" + esc(boxed_cast<const std::string &>(bv)) + "\"";
  if (ti.bare_equal(user_type<char>())) return std::string("'") + esc_chr(boxed_cast<char>(bv)) + "'";
  if (ti.bare_equal(user_type<std::vector<Boxed_Value>>())) {
    const auto &v = boxed_cast<const std::vector<Boxed_Value> &>(bv);
    std::string r = "[";
    for (size_t i = 0; i < v.size(); ++i) r += (i ? "," : "") + show(v[i]);
    return r + "]";
  }
  if (ti.bare_equal(user_type<std::pair<Boxed_Value, Boxed_Value>>())) {
    const auto &p = boxed_cast<const std::pair<Boxed_Value, Boxed_Value> &>(bv);
    return "<" + show(p.first) + "," + show(p.second) + ">";
  }
  return std::string("other:") + ti.bare_name();
}

static Boxed_Value parse(const std::vector<std::string> &t, size_t &i) {
  if (i >= t.size() || t[i].empty()) throw std::runtime_error("value expected");
  const std::string tok = t[i++];
  std::string body = tok.substr(1);
  switch (tok[0]) {
    case 'I': return Boxed_Value(std::stoi(body));
    case 'D': return Boxed_Value(static_cast<double>(std::stoll(body)));
    case 'S': { for (auto &c : body) c = unus_chr(c); return Boxed_Value(body); }
    case 'C': return Boxed_Value(static_cast<char>(std::stoi(body)));
    case 'B': return Boxed_Value(body == "1");
    case 'L': {
      int n = std::stoi(body);
      std::vector<Boxed_Value> v;
      for (int k = 0; k < n; ++k) v.push_back(parse(t, i));
      return Boxed_Value(std::move(v));
    }
    case 'P': { Boxed_Value a = parse(t, i); Boxed_Value b = parse(t, i); return Boxed_Value(std::pair<Boxed_Value, Boxed_Value>(a, b)); }
    default: throw std::runtime_error("bad value token " + tok);
  }
}

struct Tmpl { const char *expr; bool result; std::vector<int> ins; };
static const std::map<std::string, Tmpl> &templates() {
  static const std::map<std::string, Tmpl> t = {
    {"for_each", {"for_each(a0, cb1_$)", false, {0}}},
    {"map", {"map(a0, cb1_$)", true, {0}}},
    {"map3", {"map(a0, cb1_$, back_inserter(a1))", false, {0, 1}}},
    {"filter", {"filter(a0, p1_$)", true, {0}}},
    {"filter3", {"filter(a0, p1_$, back_inserter(a1))", false, {0, 1}}},
    {"foldl", {"foldl(a0, cb2_$, a1)", true, {0}}},
    {"sum", {"sum(a0)", true, {0}}},
    {"product", {"product(a0)", true, {0}}},
    {"any_of", {"any_of(a0, p1_$)", true, {0}}},
    {"all_of", {"all_of(a0, p1_$)", true, {0}}},
    {"contains3", {"contains(a0, a1, m2_$)", true, {0}}},
    {"contains", {"contains(a0, a1)", true, {0}}},
    {"find3", {"drain(find(a0, a1, m2_$))", true, {0}}},
    {"find", {"drain(find(a0, a1))", true, {0}}},
    {"take", {"take(a0, a1)", true, {0}}},
    {"take3", {"take(a0, a1, back_inserter(a2))", false, {0, 2}}},
    {"drop", {"drop(a0, a1)", true, {0}}},
    {"drop3", {"drop(a0, a1, back_inserter(a2))", false, {0, 2}}},
    {"take_while", {"take_while(a0, p1_$)", true, {0}}},
    {"take_while3", {"take_while(a0, p1_$, back_inserter(a1))", false, {0, 1}}},
    {"drop_while", {"drop_while(a0, p1_$)", true, {0}}},
    {"drop_while3", {"drop_while(a0, p1_$, back_inserter(a1))", false, {0, 1}}},
    {"zip_with", {"zip_with(cb2_$, a0, a1)", true, {0, 1}}},
    {"zip_with4", {"zip_with(cb2_$, a0, a1, back_inserter(a2))", false, {0, 1, 2}}},
    {"zip", {"zip(a0, a1)", true, {0, 1}}},
    {"concat", {"concat(a0, a1)", true, {0, 1}}},
    {"join", {"join(a0, a1)", true, {0}}},
    {"reverse", {"reverse(a0)", true, {0}}},
    {"retro", {"drain(retro(range(a0)))", true, {0}}},
    {"retro_back", {"drain_back(retro(range(a0)))", true, {0}}},
    {"reduce", {"reduce(a0, cb2_$)", true, {0}}},
    {"generate_range", {"generate_range(a0, a1)", true, {}}},
    {"inline_range", {"[a0..a1]", true, {}}},
    {"generate_range3", {"generate_range(a0, a1, back_inserter(a2))", false, {2}}},
    {"max", {"max(a0, a1)", true, {}}},
    {"min", {"min(a0, a1)", true, {}}},
    {"odd", {"odd(a0)", true, {}}},
    {"even", {"even(a0)", true, {}}},
    {"ltrim", {"a0.ltrim()", true, {0}}},
    {"rtrim", {"a0.rtrim()", true, {0}}},
    {"trim", {"a0.trim()", true, {0}}},
    {"to_string", {"to_string(a0)", true, {0}}},
  };
  return t;
}

static const char *MENU = R"(
def cb1_id(x) { vlog(x); x }
def cb1_inc(x) { vlog(x); x + 1 }
def cb1_dbl(x) { vlog(x); x * 2 }
def cb1_neg(x) { vlog(x); -x }
def cb1_dup(x) { vlog(x); x + x }
def p1_tt(x) { vlog(x); true }
def p1_ff(x) { vlog(x); false }
def p1_pos(x) { vlog(x); x > 0 }
def p1_evenp(x) { vlog(x); x % 2 == 0 }
def p1_lt2(x) { vlog(x); x < 2 }
def p1_ne0(x) { vlog(x); x != 0 }
def p1_isa(x) { vlog(x); if (x.is_type("char")) { x == 'a' } else { x == "a" } }
def p1_nonempty(x) { vlog(x); x != "" }
def cb2_add(a, b) { vlog2(a, b); a + b }
def cb2_sub(a, b) { vlog2(a, b); a - b }
def cb2_mul(a, b) { vlog2(a, b); a * b }
def cb2_fst(a, b) { vlog2(a, b); a }
def cb2_snd(a, b) { vlog2(a, b); b }
def m2_eq(a, b) { vlog2(a, b); a == b }
def m2_lt(a, b) { vlog2(a, b); a < b }
def m2_ne(a, b) { vlog2(a, b); a != b }
def drain(r) { var out = []; while (!r.empty()) { out.push_back(r.front()); r.pop_front(); } out }
def drain_back(r) { var out = []; while (!r.empty()) { out.push_back(r.back()); r.pop_back(); } out }
)";

// shared between the forked batch children: which function was running when a child was killed (alarm), so that
// a non-terminating prelude function costs a few timeouts and not one per case
struct Shared { int inflight; int hangs[64]; };

int main() {
  struct rlimit rl = {3ul << 30, 3ul << 30};
  setrlimit(RLIMIT_AS, &rl);
  Shared *sh = static_cast<Shared *>(mmap(nullptr, sizeof(Shared), PROT_READ | PROT_WRITE, MAP_SHARED | MAP_ANONYMOUS, -1, 0));
  sh->inflight = -1;
  // one engine, built before run_cases forks its batch children (they inherit it)
  std::unique_ptr<ChaiScript_Basic> chai = vf::make_engine();
  chai->add(fun([](const Boxed_Value &v) { g_trace.push_back(show(v)); }), "vlog");
  chai->add(fun([](const Boxed_Value &a, const Boxed_Value &b) { g_trace.push_back("[" + show(a) + "," + show(b) + "]"); }), "vlog2");
  chai->eval(MENU);
  // a non-terminating prelude function is an observation SIG(27): CPU-time limit per case (immune to machine load)
  auto cpu_limit = [](long sec) {
    struct itimerval tv = {{0, 0}, {sec, 0}};
    setitimer(ITIMER_PROF, &tv, nullptr);
  };
  auto fn = [&](const std::string &line) -> std::string {
    auto f = vf::split(line);
    if (f.empty()) return "BADCASE";
    auto it = templates().find(f[0]);
    if (it == templates().end()) return "BADCASE unknown function";
    const int fidx = static_cast<int>(std::distance(templates().begin(), it)) % 64;
    if (sh->inflight >= 0) { sh->hangs[sh->inflight]++; sh->inflight = -1; }
    if (sh->hangs[fidx] >= 2) return "SKIPPED(this function already ran out of CPU time twice)";
    std::vector<std::string> cbs, vts;
    for (size_t k = 1; k < f.size(); ++k) {
      if (f[k].empty()) continue;
      (f[k][0] >= 'A' && f[k][0] <= 'Z' ? vts : cbs).push_back(f[k]);
    }
    std::vector<Boxed_Value> args;
    try {
      size_t i = 0;
      while (i < vts.size()) args.push_back(parse(vts, i));
    } catch (const std::exception &e) { return std::string("BADCASE ") + e.what(); }
    std::string expr = it->second.expr;
    auto pos = expr.find('$');
    if (pos != std::string::npos) {
      if (cbs.empty()) return "BADCASE callback missing";
      expr.replace(pos, 1, cbs[0]);
    }
    std::map<std::string, Boxed_Value> locals;
    for (size_t k = 0; k < args.size(); ++k) locals["a" + std::to_string(k)] = args[k];
    for (int k : it->second.ins) if (static_cast<size_t>(k) >= args.size()) return "BADCASE too few values";
    chai->set_locals(locals);
    g_trace.clear();
    std::string res;
    auto trace = [&]() {
      std::string t = "[";
      for (size_t k = 0; k < g_trace.size(); ++k) t += (k ? "," : "") + g_trace[k];
      return t + "]";
    };
    sh->inflight = fidx;
    cpu_limit(5);
    try {
      Boxed_Value r = chai->eval(expr);
      res = "R=" + (it->second.result ? show(r) : std::string("-")) + " T=" + trace() + " IN=[";
      for (size_t k = 0; k < it->second.ins.size(); ++k) res += (k ? "," : "") + show(args[static_cast<size_t>(it->second.ins[k])]);
      res += "]";
    } catch (...) {
      res = "ERR(" + vf::classify_current_exception() + ") T=" + trace();
    }
    cpu_limit(0);
    sh->inflight = -1;
    chai->set_locals({});
    return res;
  };
  return vf::run_cases(fn, true, 600);
}
