// error-location harness (C20): evaluate chunks, each under its own file name, on ONE fresh engine and report where the first
// eval_error says it happened.
//   input : <raw|opt> <hex file 1>:<hex chunk 1> <hex file 2>:<hex chunk 2> ...
//   output: OK <n chunks>
//         | ERR(eval_error) chunk=<k> <hex reason> pos=<line>:<col> file=<hex e.filename> [Kind@<hex file>:<line>:<col>,...]   (call_stack, innermost first)
//         | ERR(<other class>) chunk=<k>
#include "hcommon.hpp"
using namespace chaiscript;

static std::string call_stack(const exception::eval_error &e) {
  std::string r = "[";
  for (size_t i = 0; i < e.call_stack.size(); ++i) {
    const auto &n = e.call_stack[i];
    r += std::string(i ? "," : "") + ast_node_type_to_string(n.identifier) + "@" + vf::hex(n.filename()) + ":" + std::to_string(n.start().line) + ":"
         + std::to_string(n.start().column);
  }
  return r + "]";
}

int main() {
  auto fn = [&](const std::string &line) -> std::string {
    auto f = vf::split(line);
    if (f.size() < 2) return "BADCASE";
    auto chai = vf::make_engine(f[0] == "opt");
    for (size_t k = 1; k < f.size(); ++k) {
      const auto colon = f[k].find(':');
      if (colon == std::string::npos) return "BADCASE";
      const std::string fname = vf::unhex(f[k].substr(0, colon));
      const std::string chunk = vf::unhex(f[k].substr(colon + 1));
      auto show = [&](const exception::eval_error &e) {
        return "ERR(eval_error) chunk=" + std::to_string(k - 1) + " " + vf::hex(e.reason) + " pos=" + std::to_string(e.start_position.line) + ":"
               + std::to_string(e.start_position.column) + " file=" + vf::hex(e.filename) + " " + call_stack(e);
      };
      try {
        chai->eval(chunk, Exception_Handler(), fname);
      } catch (const exception::eval_error &e) {
        return show(e);
      } catch (const Boxed_Value &bv) {
        if (bv.get_type_info().bare_equal(user_type<exception::eval_error>())) return show(boxed_cast<const exception::eval_error &>(bv));
        return "ERR(boxed) chunk=" + std::to_string(k - 1);
      } catch (...) {
        return "ERR(" + vf::classify_current_exception() + ") chunk=" + std::to_string(k - 1);
      }
    }
    return "OK " + std::to_string(f.size() - 1);
  };
  return vf::run_cases(fn, true, 20);
}
