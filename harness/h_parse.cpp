// parse harness: <mode> <hex input> [<hex filename>]   mode: raw (identity optimizer) | opt (Optimizer_Default)
//   -> OK <tree dump>  |  ERR(eval_error) <hex reason> <line>:<col> <hex filename>  |  ERR(<other class>)
#include "astdump.hpp"
int main() {
  auto fn = [&](const std::string &line) -> std::string {
    auto f = vf::split(line);
    if (f.size() < 2) return "BADCASE";
    auto parser = verif_parser(f[0] == "opt");
    const std::string input = vf::unhex(f[1]);
    const std::string fname = f.size() > 2 ? vf::unhex(f[2]) : "F";
    try {
      auto tree = parser->parse(input, fname);
      return "OK " + vf::dump_tree(*tree);
    } catch (const chaiscript::exception::eval_error &e) {
      return "ERR(eval_error) " + vf::hex(e.reason) + " " + std::to_string(e.start_position.line) + ":" + std::to_string(e.start_position.column) + " " + vf::hex(e.filename);
    } catch (...) {
      return "ERR(" + vf::classify_current_exception() + ")";
    }
  };
  return vf::run_cases(fn, true, 10);
}
