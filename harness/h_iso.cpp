// C14 — Engine instances are isolated.
// Deterministic thread driver: worker threads live for the whole history and execute one command at a time (the
// issuing thread waits for each command), so a history is reproducible.  Engines are constructed by placement new
// into a fixed arena slot, so an address IS reused as soon as its slot is free again.
// One history per line:   <op> | <op> | ...
//   C e slot t        construct engine e in arena slot `slot`, on worker t
//   S e t name v      worker t:  chai.add(var(v), name)            (a local of that thread)
//   R e t name        worker t:  evaluate `name`   -> value | -
//   L e t             worker t:  get_locals() names
//   G e t name v      worker t:  chai.add_global(var(v), name)
//   D e t             worker t:  run the destructor
//   T e t p n         worker t:  chai.add(user_type<Probe_p>(), "Name_n")     (register a script name for a C++ type)
//   N e t p           worker t:  chai.get_type_name<Probe_p>()               -> the name this engine knows the type by
//   V e t c           worker t:  register user conversion c (0: Metres->Feet, 1: Celsius->Kelvin)
//   U e t c           worker t:  evaluate a call that needs conversion c      -> value | ERR
// Output: one observation per op, separated by " | ".   Engines still alive at the end are destroyed on worker 0.
#include "hcommon.hpp"
#include <condition_variable>
#include <map>
#include <mutex>
#include <new>
#include <thread>

using namespace chaiscript;

namespace {
  struct Probe_0 { int v = 0; };
  struct Probe_1 { int v = 0; };
  struct Metres { int v; };
  struct Feet { int v; };
  struct Celsius { int v; };
  struct Kelvin { int v; };
  int feet_value(const Feet &f) { return f.v; }
  int kelvin_value(const Kelvin &k) { return k.v; }

  void register_probe_functions(ChaiScript_Basic &c) {
    c.add(fun([]() { return Metres{2}; }), "mk_metres");
    c.add(fun([]() { return Celsius{5}; }), "mk_celsius");
    c.add(fun(&feet_value), "feet_value");
    c.add(fun(&kelvin_value), "kelvin_value");
  }

  constexpr int NSLOT = 3, NWORKER = 3;
  alignas(64) unsigned char g_arena[NSLOT][sizeof(ChaiScript_Basic)];
  bool g_slot_used[NSLOT];

  class Worker {
    std::mutex m;
    std::condition_variable cv;
    std::function<void()> job;
    bool has_job = false, done = false, quit = false;
    std::thread th;      // declared last: the thread starts in the constructor and must see the members above initialised

    void loop() {
      std::unique_lock<std::mutex> l(m);
      while (true) {
        cv.wait(l, [&] { return has_job || quit; });
        if (quit) return;
        auto j = std::move(job);
        has_job = false;
        l.unlock();
        j();
        l.lock();
        done = true;
        cv.notify_all();
      }
    }

  public:
    Worker() : th([this] { loop(); }) {}
    ~Worker() {
      { std::lock_guard<std::mutex> l(m); quit = true; }
      cv.notify_all();
      th.join();
    }
    void run(std::function<void()> f) {
      std::unique_lock<std::mutex> l(m);
      job = std::move(f);
      has_job = true;
      done = false;
      cv.notify_all();
      cv.wait(l, [&] { return done; });
    }
  };

  std::string run_history(const std::string &line) {
    std::vector<std::unique_ptr<Worker>> workers;
    for (int i = 0; i < NWORKER; ++i) workers.push_back(std::make_unique<Worker>());
    std::map<int, ChaiScript_Basic *> live;
    std::map<int, int> slot_of;
    for (auto &u : g_slot_used) u = false;
    std::string out;
    std::vector<std::string> segs;
    {
      size_t pos = 0;
      while (true) {
        size_t e = line.find(" | ", pos);
        segs.push_back(line.substr(pos, e == std::string::npos ? std::string::npos : e - pos));
        if (e == std::string::npos) break;
        pos = e + 3;
      }
    }
    for (const auto &seg : segs) {
      auto w = vf::split(seg);
      std::string res = "BAD";
      try {
        const std::string &k = w.at(0);
        const int e = std::stoi(w.at(1));
        if (k == "C") {
          const int slot = std::stoi(w.at(2)), t = std::stoi(w.at(3));
          if (slot < 0 || slot >= NSLOT || g_slot_used[slot] || live.count(e) || t < 0 || t >= NWORKER) return "BADCASE";
          ChaiScript_Basic *p = nullptr;
          workers[t]->run([&] { p = new (g_arena[slot]) ChaiScript_Basic(verif_stdlib(), verif_parser(true)); register_probe_functions(*p); });
          live[e] = p;
          slot_of[e] = slot;
          g_slot_used[slot] = true;
          res = "ok";
        } else {
          const int t = std::stoi(w.at(2));
          auto it = live.find(e);
          if (it == live.end() || t < 0 || t >= NWORKER) return "BADCASE";
          ChaiScript_Basic *p = it->second;
          if (k == "S") {
            const std::string name = w.at(3);
            const int v = std::stoi(w.at(4));
            workers[t]->run([&] { try { p->add(var(v), name); res = "ok"; } catch (...) { res = "ERR(" + vf::classify_current_exception() + ")"; } });
          } else if (k == "R") {
            const std::string name = w.at(3);
            workers[t]->run([&] { try { res = std::to_string(p->eval<int>(name)); } catch (...) { res = "-"; } });
          } else if (k == "L") {
            workers[t]->run([&] {
              try {
                res = "[";
                bool first = true;
                for (const auto &kv : p->get_locals()) { if (!first) res += ","; res += kv.first; first = false; }
                res += "]";
              } catch (...) { res = "ERR(" + vf::classify_current_exception() + ")"; }
            });
          } else if (k == "G") {
            const std::string name = w.at(3);
            const int v = std::stoi(w.at(4));
            workers[t]->run([&] { try { p->add_global(var(v), name); res = "ok"; } catch (...) { res = "conflict"; } });
          } else if (k == "T") {
            const int pt = std::stoi(w.at(3));
            const std::string name = "Name_" + w.at(4);
            workers[t]->run([&] {
              try { if (pt == 0) p->add(user_type<Probe_0>(), name); else p->add(user_type<Probe_1>(), name); res = "ok"; }
              catch (...) { res = "ERR(" + vf::classify_current_exception() + ")"; } });
          } else if (k == "N") {
            const int pt = std::stoi(w.at(3));
            workers[t]->run([&] {
              try { res = pt == 0 ? p->get_type_name<Probe_0>() : p->get_type_name<Probe_1>(); if (res.rfind("Name_", 0) != 0) res = "unregistered"; }
              catch (...) { res = "ERR(" + vf::classify_current_exception() + ")"; } });
          } else if (k == "V") {
            const int cv = std::stoi(w.at(3));
            workers[t]->run([&] {
              try {
                if (cv == 0) p->add(type_conversion<Metres, Feet>([](const Metres &m) { return Feet{m.v * 3}; }));
                else p->add(type_conversion<Celsius, Kelvin>([](const Celsius &c) { return Kelvin{c.v + 273}; }));
                res = "ok";
              } catch (...) { res = "ERR(" + vf::classify_current_exception() + ")"; } });
          } else if (k == "U") {
            const int cv = std::stoi(w.at(3));
            workers[t]->run([&] {
              try { res = std::to_string(p->eval<int>(cv == 0 ? "feet_value(mk_metres())" : "kelvin_value(mk_celsius())")); }
              catch (...) { res = "ERR"; } });
          } else if (k == "D") {
            workers[t]->run([&] { p->~ChaiScript_Basic(); });
            g_slot_used[slot_of[e]] = false;
            live.erase(it);
            res = "ok";
          } else return "BADCASE";
        }
      } catch (const std::exception &) { return "BADCASE"; }
      if (!out.empty()) out += " | ";
      out += res;
    }
    for (auto &kv : live) {
      ChaiScript_Basic *p = kv.second;
      workers[0]->run([&] { p->~ChaiScript_Basic(); });
    }
    return out;
  }
} // namespace

int main() { return vf::run_cases(run_history, true, 60); }   // a history that hangs is an observation (SIG(14))
