#!/usr/bin/env python3
"""Run checks against a confirmed seeded change: apply /verif/seeded/<id>/<n>/patch.diff in the private worktree
/tmp/mt/repo, run `./check <prop> --tier <tier>` with VERIF_REPO pointing there, record the outcome in
/verif/seeded/<id>/<n>/check.json, restore the worktree.  usage: seed_run.py <id> <n> [--tier quick] [--props C02,C03] [--inplace]
--inplace applies the patch to /repo itself (git -C /repo apply … ; git -C /repo checkout -- .) instead."""
import json, os, subprocess, sys, time

MT = os.environ.get("SEED_WT", "/tmp/mt/repo")


def sh(cmd, cwd=None, env=None, timeout=7200):
    p = subprocess.run(cmd, shell=True, cwd=cwd, capture_output=True, text=True, timeout=timeout, env=env)
    return p.returncode, p.stdout + p.stderr


def main():
    pid, n = sys.argv[1], sys.argv[2]
    tier = sys.argv[sys.argv.index("--tier") + 1] if "--tier" in sys.argv else "quick"
    props = sys.argv[sys.argv.index("--props") + 1].split(",") if "--props" in sys.argv else [pid]
    inplace = "--inplace" in sys.argv
    d = "/verif/seeded/%s/%s" % (pid, n)
    repo = "/repo" if inplace else MT
    if not inplace:
        if not os.path.isdir(MT):
            os.makedirs(os.path.dirname(MT), exist_ok=True)
            subprocess.run(["git", "-C", "/repo", "worktree", "add", "--detach", MT, "HEAD"], check=True, capture_output=True)
        head = subprocess.run(["git", "-C", "/repo", "rev-parse", "HEAD"], capture_output=True, text=True).stdout.strip()
        sh("git checkout -q -- . && git checkout -q --detach %s" % head, cwd=MT)
    rc, out = sh("git apply --whitespace=nowarn %s/patch.diff" % d, cwd=repo)
    if rc != 0:
        print("patch does not apply:", out)
        return 2
    results = {}
    try:
        for p in props:
            env = dict(os.environ)
            if not inplace:
                env["VERIF_REPO"] = MT
            t0 = time.time()
            rc, out = sh("./check %s --tier %s" % (p, tier), cwd="/verif", env=env)
            lines = [l for l in out.splitlines() if l.startswith(("VIOLATION", "OK property", "KNOWN-FINDING"))]
            viol = [l for l in lines if l.startswith("VIOLATION")]
            r = {"exit": rc, "lines": [l[:300] for l in lines], "seconds": int(time.time() - t0), "caught": bool(viol)}
            if viol:
                rp = viol[0].split("replay=")[1].split()[0]
                try:
                    rj = json.load(open(os.path.join("/verif", rp)))
                    r["replay_kind"] = rj.get("kind")
                    f = rj.get("failure") or {}
                    r["failing_input"] = json.dumps(f.get("case"))[:600] if f else None
                    r["what"] = f.get("what") if f else [str(t[1])[:200] for t in rj.get("broken_ties", [])[:3]]
                    r["no_failing_input_found"] = viol[0].rstrip().endswith("no-failing-input-found")
                except Exception as ex:
                    r["replay_error"] = str(ex)
            results[p] = r
            print(p, json.dumps(r)[:900])
    finally:
        sh("git checkout -q -- .", cwd=repo)
    cj = d + "/check.json"
    old = json.load(open(cj)) if os.path.exists(cj) else {}
    old.setdefault(tier, {}).update(results)
    json.dump(old, open(cj, "w"), indent=1)
    return 0


if __name__ == "__main__":
    sys.exit(main())
