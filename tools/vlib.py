"""Common machinery for the ChaiScript Coq-proof checks.

build caches (keyed by content hashes of /repo's *working tree*), the Coq
build (translators -> gen/*.v -> make), extraction of the executable model,
evidence writing, known-findings handling and the VIOLATION protocol.
"""
import fcntl, hashlib, json, os, random, re, subprocess, sys, time, glob, shutil

ROOT = os.path.dirname(os.path.dirname(os.path.abspath(__file__)))
REPO = os.environ.get("VERIF_REPO", "/repo")
BUILD = os.path.join(ROOT, "build")
COQ = os.path.join(ROOT, "coq")
GUARD = "CHAISCRIPT_VERIF"
NCPU = os.cpu_count() or 4

os.makedirs(BUILD, exist_ok=True)


def log(*a):
    print("[verif]", *a, file=sys.stderr, flush=True)


def sha(*parts):
    h = hashlib.sha256()
    for p in parts:
        if isinstance(p, str):
            p = p.encode()
        h.update(p)
        h.update(b"\0")
    return h.hexdigest()


def read(path, mode="r"):
    with open(path, mode) as f:
        return f.read()


def write_if_changed(path, content):
    os.makedirs(os.path.dirname(path), exist_ok=True)
    try:
        if read(path) == content:
            return False
    except OSError:
        pass
    tmp = path + ".tmp%d" % os.getpid()
    with open(tmp, "w") as f:
        f.write(content)
    os.replace(tmp, path)
    return True


_inc_hash = None


def include_hash():
    """Hash of every header in /repo/include as it is *now* on disk."""
    global _inc_hash
    if _inc_hash is None:
        h = hashlib.sha256()
        for d, _, fs in sorted(os.walk(os.path.join(REPO, "include"))):
            for f in sorted(fs):
                p = os.path.join(d, f)
                h.update(p.encode())
                h.update(read(p, "rb"))
        _inc_hash = h.hexdigest()
    return _inc_hash


def run(cmd, timeout=600, cwd=None, env=None, input=None, check=False):
    e = dict(os.environ)
    if env:
        e.update(env)
    try:
        r = subprocess.run(cmd, cwd=cwd, env=e, input=input, capture_output=True, timeout=timeout,
                           shell=isinstance(cmd, str))
        rc, out, err = r.returncode, r.stdout, r.stderr
    except subprocess.TimeoutExpired as ex:
        rc, out, err = -999, ex.stdout or b"", (ex.stderr or b"") + b"\nTIMEOUT"
    if check and rc != 0:
        raise RuntimeError("command failed (%s): %s\n%s" % (rc, cmd, err.decode(errors="replace")[-4000:]))
    return rc, out, err


class Lock:
    def __init__(self, name):
        self.path = os.path.join(BUILD, name + ".lock")

    def __enter__(self):
        self.f = open(self.path, "w")
        fcntl.flock(self.f, fcntl.LOCK_EX)
        return self

    def __exit__(self, *a):
        fcntl.flock(self.f, fcntl.LOCK_UN)
        self.f.close()


# --------------------------------------------------------------------------
# C++ harness builds
# --------------------------------------------------------------------------
FLAVORS = {
    "plain": ["-O0"],
    "opt": ["-O1"],
    "asan": ["-O1", "-g", "-fsanitize=address,undefined", "-fno-sanitize-recover=undefined", "-fno-omit-frame-pointer"],
    "tsan": ["-O1", "-g", "-fsanitize=thread"],
}
COMMON_TUS = ["stdlib.cpp", "parser.cpp"]


class BuildError(Exception):
    pass


def _compile_obj(src, flavor, extra):
    flags = ["-std=c++20", "-w", "-D" + GUARD, "-I" + os.path.join(REPO, "include"), "-I" + os.path.join(ROOT, "harness")] + FLAVORS[flavor] + extra
    hdrs = b"".join(read(h, "rb") for h in sorted(glob.glob(os.path.join(ROOT, "harness", "*.hpp"))))
    key = sha(include_hash(), read(src, "rb"), hdrs, " ".join(flags))[:24]
    obj = os.path.join(BUILD, "obj", key + ".o")
    if os.path.exists(obj):
        return obj, None
    os.makedirs(os.path.dirname(obj), exist_ok=True)
    tmp = obj + ".tmp%d.o" % os.getpid()
    p = subprocess.Popen(["g++"] + flags + ["-c", src, "-o", tmp], stdout=subprocess.PIPE, stderr=subprocess.STDOUT)
    return obj, (p, tmp)


CACHE_LIMIT = int(os.environ.get("VERIF_CACHE_MB", "6000")) * 1024 * 1024


def _prune_cache():
    """The harness cache is keyed by the content of /repo/include: every edited tree adds a full set of objects.
    Keep the most recently used entries within CACHE_LIMIT (entries used in the last ten minutes are never removed)."""
    try:
        ents = []
        for d in ("obj", "bin"):
            base = os.path.join(BUILD, d)
            for dp, dn, fn in os.walk(base):
                for f in fn:
                    fp = os.path.join(dp, f)
                    st = os.stat(fp)
                    ents.append((st.st_mtime, st.st_size, fp))
        total = sum(e[1] for e in ents)
        if total <= CACHE_LIMIT:
            return
        now = time.time()
        for mt, sz, fp in sorted(ents):
            if total <= CACHE_LIMIT * 0.7 or now - mt < 600:
                break
            try:
                os.remove(fp)
                total -= sz
            except OSError:
                pass
        for dp, dn, fn in os.walk(os.path.join(BUILD, "bin"), topdown=False):
            if not dn and not fn and dp != os.path.join(BUILD, "bin"):
                try:
                    os.rmdir(dp)
                except OSError:
                    pass
    except OSError:
        pass


def _touch(p):
    try:
        os.utime(p, None)
    except OSError:
        pass


def cxx_build(name, sources=None, flavor="plain", extra=None):
    """Build harness program `name` from harness/<name>.cpp (+ shared TUs)
    against /repo's current headers; cached by content hash."""
    extra = extra or []
    _prune_cache()
    srcs = [os.path.join(ROOT, "harness", s) for s in (sources or [name + ".cpp"]) + COMMON_TUS]
    t0 = time.time()
    pend = [(s,) + _compile_obj(s, flavor, extra) for s in srcs]
    objs = []
    for s, obj, job in pend:
        if job:
            p, tmp = job
            out = p.communicate()[0]
            if p.returncode != 0:
                raise BuildError("compile failed: %s\n%s" % (s, out.decode(errors="replace")[-6000:]))
            os.replace(tmp, obj)
        else:
            _touch(obj)
        objs.append(obj)
    key = sha(*objs, flavor)[:24]
    binp = os.path.join(BUILD, "bin", key, name)
    if not os.path.exists(binp):
        os.makedirs(os.path.dirname(binp), exist_ok=True)
        rc, out, err = run(["g++"] + FLAVORS[flavor] + objs + ["-o", binp + ".tmp", "-ldl", "-lpthread"], timeout=600)
        if rc != 0:
            raise BuildError("link failed: %s" % err.decode(errors="replace")[-4000:])
        os.replace(binp + ".tmp", binp)
        log("built %s [%s] in %.1fs" % (name, flavor, time.time() - t0))
    else:
        _touch(binp)
    return binp


# --------------------------------------------------------------------------
# Coq
# --------------------------------------------------------------------------
def run_translators(names=None):
    """Regenerate coq/gen/G_*.v from /repo's working tree. Returns {name: error or None}."""
    sys.path.insert(0, os.path.join(ROOT, "tools", "translate"))
    res = {}
    for f in sorted(glob.glob(os.path.join(ROOT, "tools", "translate", "t_*.py"))):
        n = os.path.basename(f)[2:-3]
        if names is not None and n not in names:
            continue
        mod = __import__("t_" + n)
        try:
            text = mod.translate(REPO)
            write_if_changed(os.path.join(COQ, "gen", "G_%s.v" % n), text)
            res[n] = None
        except Exception as ex:  # shape not recognised
            res[n] = "%s: %s" % (type(ex).__name__, ex)
            # leave a file that does not compile, so dependants fail loudly
            write_if_changed(os.path.join(COQ, "gen", "G_%s.v" % n), "(* translator failed: %s *)\nTranslator_failed.\n" % str(ex).replace("*)", "* )"))
    return res


def coq_project():
    vs = []
    for d in ("theories", "gen", "props"):
        vs += sorted(os.path.relpath(p, COQ) for p in glob.glob(os.path.join(COQ, d, "*.v")))
    txt = "-Q theories ChaiV\n-Q gen ChaiV.Gen\n-Q props ChaiV.Props\n-arg -w -arg -all\n" + "\n".join(vs) + "\n"
    if write_if_changed(os.path.join(COQ, "_CoqProject"), txt) or not os.path.exists(os.path.join(COQ, "Makefile")):
        run(["coq_makefile", "-f", "_CoqProject", "-o", "Makefile"], cwd=COQ, check=True)


def coq_make(targets, timeout=1500, translators=None):
    """make -k the given .vo targets (paths relative to coq/). Returns (ok: {target: bool}, log, translator results)."""
    with Lock("coq"):
        tr = run_translators(translators)
        coq_project()
        rc, out, err = run(["make", "-k", "-j%d" % NCPU] + targets, cwd=COQ, timeout=timeout,
                           env={"TIMED": "", "COQEXTRAFLAGS": ""})
        text = out.decode(errors="replace") + err.decode(errors="replace")
        ok = {t: rc == 0 for t in targets}
        if rc != 0:
            for t in targets:
                r2, o2, e2 = run(["make", t], cwd=COQ, timeout=timeout)
                ok[t] = (r2 == 0)
        return ok, text, tr


def assumptions_of(propfile):
    """Return the trusted-base lines reported by Print Assumptions for props/<propfile>.v."""
    p = os.path.join(COQ, "props", "." + propfile + ".assumptions")
    vo = os.path.join(COQ, "props", propfile + ".vo")
    if not os.path.exists(p) or (os.path.exists(vo) and os.path.getmtime(p) + 1 < os.path.getmtime(vo)):
        # recompile just this file to get the output
        with Lock("coq"):
            rc, out, err = run(["coqc", "-q", "-w", "-all", "-Q", "theories", "ChaiV", "-Q", "gen", "ChaiV.Gen", "-Q", "props", "ChaiV.Props",
                                "props/%s.v" % propfile], cwd=COQ, timeout=900)
            if rc == 0:
                with open(p, "w") as f:
                    f.write(out.decode(errors="replace"))
    try:
        txt = read(p)
    except OSError:
        return ["<Print Assumptions output unavailable>"]
    axioms = set()
    closed = 0
    for blk in re.split(r"\n(?=Closed under the global context|Axioms:)", "\n" + txt):
        if blk.strip().startswith("Closed under"):
            closed += blk.count("Closed under the global context")
        elif blk.strip().startswith("Axioms:"):
            for m in re.finditer(r"^([A-Za-z_][\w.']*)\s*:", blk, re.M):
                if m.group(1) != "Axioms":
                    axioms.add(m.group(1))
    return sorted(axioms), closed


def theorems_in(propfile):
    txt = read(os.path.join(COQ, "props", propfile + ".v"))
    txt = re.sub(r"\(\*.*?\*\)", "", txt, flags=re.S)
    return re.findall(r"^\s*(?:Theorem|Lemma|Corollary|Example)\s+([\w']+)", txt, re.M)


def axiom_gate():
    """No Axiom/Parameter/Admitted/admit/... anywhere in the development."""
    bad = []
    pat = re.compile(r"\b(Admitted|admit|Axiom|Axioms|Parameter|Parameters|Conjecture|Conjectures|Admit Obligations|bypass_check|Unset Guard Checking|Unset Positivity Checking|Unset Universe Checking|type-in-type|impredicative-set)\b")
    for d in ("theories", "gen", "props"):
        for p in glob.glob(os.path.join(COQ, d, "*.v")):
            txt = re.sub(r"\(\*.*?\*\)", "", read(p), flags=re.S)
            for i, line in enumerate(txt.split("\n")):
                if pat.search(line):
                    bad.append("%s:%d: %s" % (p, i + 1, line.strip()))
            for m in re.finditer(r"^\s*(Variable|Variables|Hypothesis|Hypotheses|Context)\b", txt, re.M):
                # allowed only inside a Section
                pre = txt[:m.start()]
                depth = len(re.findall(r"^\s*Section\s", pre, re.M)) - len(re.findall(r"^\s*End\s", pre, re.M)) + len(re.findall(r"^\s*Module\s", pre, re.M))
                if depth <= 0:
                    bad.append("%s: %s outside a section" % (p, m.group(1)))
    for p in glob.glob(os.path.join(ROOT, "extract", "*.v")):
        txt = re.sub(r"\(\*.*?\*\)", "", read(p), flags=re.S)
        if pat.search(txt):
            bad.append(p)
    return bad


# --------------------------------------------------------------------------
# extracted model programs
# --------------------------------------------------------------------------
def model_build(area, deps, driver="line"):
    """Extract extract/X_<area>.v (which Requires compiled theories) and build with extract/d_<area>.ml."""
    ok, text, tr = coq_make(deps)
    if not all(ok.values()):
        raise BuildError("model theories failed to build: %s\n%s" % ([t for t in ok if not ok[t]], text[-3000:]))
    xv = os.path.join(ROOT, "extract", "X_%s.v" % area)
    dml = os.path.join(ROOT, "extract", "d_%s.ml" % driver)
    h = hashlib.sha256()
    for t in deps:
        h.update(read(os.path.join(COQ, t), "rb"))
    key = sha(h.hexdigest(), read(xv, "rb"), read(dml, "rb"))[:24]
    d = os.path.join(BUILD, "model", key)
    binp = os.path.join(d, "m_" + area)
    if os.path.exists(binp):
        return binp
    with Lock("model_" + area):
        if os.path.exists(binp):
            return binp
        os.makedirs(d, exist_ok=True)
        shutil.copy(xv, os.path.join(d, "X.v"))
        shutil.copy(dml, os.path.join(d, "driver.ml"))
        run(["coqc", "-q", "-w", "-all", "-Q", os.path.join(COQ, "theories"), "ChaiV", "-Q", os.path.join(COQ, "gen"), "ChaiV.Gen", "X.v"], cwd=d, timeout=900, check=True)
        mls = sorted(glob.glob(os.path.join(d, "*.ml")))
        run("ocamlfind ocamlopt -O2 -w -a -package str model.mli model.ml driver.ml -o m_%s.tmp -linkpkg 2>&1 || ocamlfind ocamlopt -w -a -package str model.mli model.ml driver.ml -o m_%s.tmp -linkpkg" % (area, area), cwd=d, timeout=900, check=True)
        os.replace(os.path.join(d, "m_%s.tmp" % area), binp)
    return binp


# --------------------------------------------------------------------------
# known findings, evidence, verdicts
# --------------------------------------------------------------------------
def known_findings(prop):
    try:
        kf = json.load(open(os.path.join(ROOT, "known_findings.json")))
    except OSError:
        return []
    return [e for e in kf.get("entries", []) if e.get("property") == prop and e.get("status") == "finding"]


def write_replay(prop, obj):
    os.makedirs(os.path.join(ROOT, "replays"), exist_ok=True)
    body = json.dumps(obj, indent=1, sort_keys=True, default=str)
    p = os.path.join(ROOT, "replays", "%s-%s.json" % (prop, sha(body)[:12]))
    with open(p, "w") as f:
        f.write(body)
    return os.path.relpath(p, ROOT)


class Check:
    """Accumulates what one run of a property check did and renders the verdict."""

    def __init__(self, prop, tier, seed):
        self.prop, self.tier, self.seed = prop, tier, seed
        self.t0 = time.time()
        self.cov = {"samples": [], "trusted_base": [], "obligations": 0, "discharged": 0, "checker_cmd": "",
                    "evaluations": 0, "distinct_nontrivial": 0, "rule": "", "programs": 0,
                    "traces_validated_against_impl": 0, "disagreements_checked": 0}
        self.assumptions = []
        self.broken_ties = []      # [(kind, name, detail)]
        self.failures = []         # oracle failures not covered by a known finding: [dict]
        self.known_hits = {}       # finding key -> count
        self.level = "proof"
        self.dist = {}
        self.extra = {}

    # ---- proof side
    def prove(self, propfile, model_targets=(), translators=None):
        """translators: names (without t_) this property depends on; None = all (their failures are then all reported)"""
        targets = list(model_targets) + ["props/%s.vo" % propfile]
        ok, text, tr = coq_make(targets, translators=translators)
        for n, e in tr.items():
            if e:
                self.broken_ties.append(("translator", "t_" + n, e))
        thms = theorems_in(propfile)
        self.cov["obligations"] = len(thms)
        self.cov["checker_cmd"] = "cd coq && make -k -j%d %s  (coq_makefile, full .vo build; Coq 8.16.1)" % (NCPU, " ".join(targets))
        self.cov["theorems"] = thms
        if ok["props/%s.vo" % propfile]:
            self.cov["discharged"] = len(thms)
            ax, closed = assumptions_of(propfile)
            self.cov["trusted_base"] = ["Coq 8.16.1 kernel + vm_compute (no native_compute)"] + \
                (["axiom: " + a for a in ax] if ax else ["Print Assumptions: every property theorem closed under the global context (%d reports)" % closed])
        else:
            errs = re.findall(r'File "\./([^"]+)", line (\d+).*?\n(Error:.*?)(?=\n\S*make|\nFile|\Z)', text, re.S)
            first = errs[0] if errs else ("?", "?", text[-1500:])
            # which theorems still check? try to be precise: those in files that compiled are unknown; count 0
            self.cov["discharged"] = 0
            self.broken_ties.append(("proof", "Properties/%s" % propfile, "%s:%s %s" % (first[0], first[1], first[2][:600])))
        self.cov["translators"] = {("t_" + n): ("ok" if e is None else e) for n, e in tr.items()}
        return ok["props/%s.vo" % propfile]

    # ---- correspondence side
    def disagree(self, name, case, impl, model):
        self.broken_ties.append(("correspondence", name, {"case": case, "impl": impl, "model": model}))

    def fail(self, what, case, finding_key=None):
        """An input on which the *implementation* violates the property."""
        if finding_key is not None:
            self.known_hits[finding_key] = self.known_hits.get(finding_key, 0) + 1
        else:
            self.failures.append({"what": what, "case": case})

    def sample(self, s, limit=6):
        if len(self.cov["samples"]) < limit:
            self.cov["samples"].append(s)

    def finish(self):
        wall = time.time() - self.t0
        kf = known_findings(self.prop)
        viol = 0
        lines = []
        if self.failures:
            viol = len(self.failures)
            f0 = self.failures[0]
            rp = write_replay(self.prop, {"property": self.prop, "kind": "failing-input", "failure": f0, "n_failures": len(self.failures),
                                         "more": self.failures[1:6], "broken_ties": self.broken_ties[:5], "seed": self.seed})
            lines.append("VIOLATION property=%s replay=%s" % (self.prop, rp))
        elif self.broken_ties:
            viol = 1
            rp = write_replay(self.prop, {"property": self.prop, "kind": "tie-broken", "no_longer_checks": self.broken_ties[:10], "seed": self.seed})
            lines.append("VIOLATION property=%s replay=%s no-failing-input-found" % (self.prop, rp))
        for e in kf:
            lines.append("KNOWN-FINDING: property=%s %s" % (self.prop, e.get("what", e.get("key"))))
        cov = dict(self.cov)
        cov["input_distribution"] = self.dist
        cov["known_finding_hits"] = self.known_hits
        cov.update(self.extra)
        if cov.get("discharged", 0) == 0:
            # schema: a proof-level evidence needs discharged >= 1; a run whose proofs broke reports the generic keys instead
            cov["proofs_discharged"] = cov.pop("discharged", 0)
        if not cov["samples"]:
            cov["samples"] = ["(no generated cases in this run)"]
        ev = {"property_id": self.prop, "tier": self.tier, "seed": self.seed, "level": self.level, "coverage": cov,
              "assumptions": self.assumptions, "wall_s": round(wall, 2), "violations": viol}
        # evidence/ describes /repo only: a run against another tree (VERIF_REPO: seeded changes, private copies) writes elsewhere
        evdir = os.path.join(ROOT, "evidence") if os.path.realpath(REPO) == "/repo" else os.path.join(ROOT, "build", "evidence_other_tree")
        os.makedirs(evdir, exist_ok=True)
        with open(os.path.join(evdir, self.prop + ".json"), "w") as f:
            json.dump(ev, f, indent=1, sort_keys=True, default=str)
        for l in lines:
            print(l, flush=True)
        if not viol:
            print("OK property=%s tier=%s obligations=%d discharged=%d cases=%d wall=%.1fs" % (
                self.prop, self.tier, cov["obligations"], cov.get("discharged", 0), cov["evaluations"], wall), flush=True)
        return 1 if viol else 0


def hexs(b):
    if isinstance(b, str):
        b = b.encode("latin-1")
    return b.hex() if b else "-"


def unhex(s):
    return b"" if s == "-" else bytes.fromhex(s)


def run_lines(binp, lines, timeout=600, env=None, args=()):
    """Feed one case per line to a program, get one result line per case."""
    inp = ("\n".join(lines) + "\n").encode()
    rc, out, err = run([binp] + list(args), input=inp, timeout=timeout, env=env)
    res = out.decode(errors="replace").split("\n")
    if res and res[-1] == "":
        res.pop()
    return rc, res, err.decode(errors="replace")
