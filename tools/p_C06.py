"""C06 — C++ functions are only ever entered with correctly typed arguments.
proof: Properties_C06 over DispatchDefs (ports of boxed_cast / dispatch / registration / re-seating histories) and the rules regenerated
       from boxed_cast_helper.hpp, boxed_cast.hpp, boxed_value.hpp, proxy_functions*.hpp, dispatchkit.hpp (t_CastRules.py): besides the cast table,
       what each handler of boxed_cast catches, the first Type_Info slot function_less_than compares, which cached pointers ~Sentinel refreshes
tie:   translator (every run) + correspondence  h_dispatch (implementation) <-> m_dispatch (extracted mechanism model)
oracle: implementation observation vs the extracted specification (m_dispatchspec: recv_ok / exact_overload), independent of gen/."""
import itertools, json, os, random, re, sys
import vlib

FORMS = ["FVal", "FCVal", "FCPtr", "FPtr", "FPtrCRef", "FCPtrCRef", "FCRef", "FRef", "FRRef", "FUniqRRef", "FUniqRef", "FUniqCRef", "FSh", "FShC", "FCSh",
         "FShCRef", "FShRef", "FCShC", "FShCCRef", "FBV", "FBVRef", "FCBV", "FBVCRef", "FRw", "FCRw", "FRwCRef", "FRwC", "FCRwC", "FRwCCRef", "FBN", "FFn"]
T_INT, T_UINT, T_LONG, T_DOUBLE, T_BOOL, T_CHAR, T_STRING, T_BASE, T_DERIVED, T_OTHER, T_SBASE, T_SDERIVED, T_VECBV, T_VECINT = range(10, 24)
ARITH = [T_INT, T_UINT, T_LONG, T_DOUBLE, T_CHAR]
FN_ARITY = [1, 1, 2, 0, 1]
CAST_TYPES = {T_INT: 1, T_UINT: 1, T_LONG: 1, T_DOUBLE: 1, T_BOOL: 0, T_CHAR: 1, T_STRING: 0, T_BASE: 0, T_DERIVED: 0, T_OTHER: 0, T_SBASE: 0, T_VECINT: 0}
CAST_FORMS = ["FVal", "FCVal", "FCRef", "FRef", "FPtr", "FCPtr", "FSh", "FShC", "FShCRef", "FRw", "FRwC"]
FULLBARE = {"FVal", "FCVal", "FCRef", "FRef", "FRRef", "FBV", "FBVRef", "FCBV", "FBVCRef", "FBN", "FFn"}
# registered conversions of the catalogue environment: target type -> source types (base classes, user conversions)
CONV_FROM = {T_BASE: [T_DERIVED], T_SBASE: [T_SDERIVED], T_STRING: [T_OTHER], T_VECINT: [T_VECBV], T_DERIVED: [T_BASE]}
CONST_FORMS = {"FCPtr", "FCRef", "FShC", "FRwC", "FCShC", "FShCCRef", "FCRwC", "FRwCCRef", "FCPtrCRef"}


class Catalog:
    def __init__(self, hbin):
        rc, out, err = vlib.run([hbin, "catalog"], timeout=120)
        if rc != 0:
            raise vlib.BuildError("h_dispatch catalog failed: " + err.decode()[-500:])
        self.funcs, self.convs, self.arity, self.ret = {}, [], {}, {}
        self.rtl = None
        for l in out.decode().split("\n"):
            f = l.split()
            if not f:
                continue
            if f[0] == "FUNC":
                fid, kind, arity, throws, guard, np = int(f[1]), f[2], int(f[3]), int(f[4]), int(f[5]), int(f[7])
                ret = [int(x) for x in f[6].split(":")]      # slot 0 of get_param_types(): bare, const, undef, before-rank
                ps = []
                for p in f[8:8 + np]:
                    bare, c, ar, un, fb, rk, form, fnar, named = p.split(":")
                    ps.append([int(bare), int(c), int(ar), int(un), int(fb), int(rk), FORMS.index(form), int(fnar), int(named)])
                k = {"native": 0, "dyn": 1, "dynv": 1, "attr": 2}[kind]
                self.funcs[fid] = [fid, arity, k, throws, guard] + ret + [np] + [x for p in ps for x in p]
                self.ret[fid] = ret
                self.arity[fid] = arity
                self.funcs[fid] = (self.funcs[fid], kind, ps)
            elif f[0] == "CONV":
                self.convs.append((int(f[1]), int(f[2]), int(f[3]), {"dyn": 0, "static": 1, "user": 2}[f[4]], int(f[5])))
            elif f[0] == "ARGORDER":
                self.rtl = 1 if f[1] == "rtl" else 0
            elif f[0] == "PLATFORM":
                if l.strip() != "PLATFORM int=4 long=8 char_signed=1":
                    raise vlib.BuildError("platform differs from the modelled one: " + l)
        if self.rtl is None or not self.funcs:
            raise vlib.BuildError("catalogue dump incomplete")

    def conv_tokens(self, convset):
        cs = [c for c in self.convs if c[0] <= convset]
        return [len(cs)] + [x for c in cs for x in c[1:]]

    def by_arity(self, n):
        return sorted(f for f, a in self.arity.items() if a == n)


def pay_tokens(text, argspec):
    kind, ty, val = argspec.split(".")
    if text == "none" or text == "null":
        return [4]
    if text == "fn":
        k = int(val)
        return [3, FN_ARITY[k], k]
    if text.startswith("["):
        els = [e for e in text[1:-1].split(",") if e]
        out = [2, len(els)]
        for e in els:
            t, z = e.split(":")
            out += [int(t), int(z)]
        return out
    if "." in text:
        d, t = text.split(".")
        return [1, int(d), int(t)]
    return [0, int(text)]


def arg_tokens(descr, argspec):
    """box description printed by the harness (the engine's own view of the argument) -> model tokens"""
    if descr == "text":
        kind, ty, val = argspec.split(".")
        if kind == "fn":
            return [2, 0, 0, 0, 0, 0, 0, 3, FN_ARITY[int(val)], int(val)]
        return [int(ty), 1, 1 if int(ty) in ARITH else 0, 0, 0, 0, 0, 0, int(val)]
    f = descr.split(":", 7)
    return [int(x) for x in f[:7]] + pay_tokens(f[7], argspec)


def param_tokens(form, ty):
    """Type_Info of boxed_cast<Form<T>> as the engine computes it (checked against the catalogue for the shared forms)"""
    arith = CAST_TYPES.get(ty, 0) if form in ("FVal", "FCVal", "FCRef", "FRef", "FSh", "FShC", "FShCRef", "FRw", "FRwC") else 0
    return [ty, 1 if form in CONST_FORMS or form == "FCVal" else 0, arith, 0, 1 if form in FULLBARE else 0, 0, FORMS.index(form), 1 if form == "FFn" else 0, 0]


# ---------------------------------------------------------------------------------------------------
# argument pool
def arg_pool():
    pool = []
    for t in ARITH:
        vals = {T_INT: [5, -3, 300], T_UINT: [5, 4000000000], T_LONG: [5, -3, 5000000000], T_DOUBLE: [7, -5, 600], T_CHAR: [65]}[t]
        for k in ["var", "cvar", "ref", "cref", "ptr", "cptr", "sp", "csp", "ret"]:
            for v in (vals if k in ("var", "cvar") else vals[:1]):
                pool.append("%s.%d.%d" % (k, t, v))
        pool.append("nullsp.%d.0" % t)
    for k in ["var", "cvar", "ref"]:
        pool.append("%s.%d.1" % (k, T_BOOL))
    for k in ["var", "cvar", "ref", "cref", "ptr", "sp", "csp", "nullsp"]:
        pool.append("%s.%d.4" % (k, T_STRING))
    for t in (T_BASE, T_DERIVED, T_OTHER, T_SBASE, T_SDERIVED):
        for k in ["var", "cvar", "ref", "cref", "ptr", "cptr", "sp", "csp", "nullsp", "cnullsp", "uniq"]:
            pool.append("%s.%d.3" % (k, t))
    pool += ["upref.18.6", "upcref.18.6", "upsp.18.6", "vec.22.0", "vec.22.1", "cvec.22.0", "var.23.0", "cref.23.0", "undef.0.0"]
    pool += ["fn.2.%d" % k for k in range(5)]
    return pool


LITS = ["lit.10.5", "lit.10.-3", "lit.11.5", "lit.12.5", "lit.13.7", "lit.14.1", "lit.15.65", "lit.16.4"]


def relevant_args(cat, ids, pos, pool, rnd, k):
    """arguments aimed at the parameter types in position pos of the overloads, plus a few unrelated ones"""
    bares = set()
    arith = False
    for i in ids:
        ps = cat.funcs[i][2]
        if pos < len(ps):
            bares.add(ps[pos][0])
            arith = arith or ps[pos][2]
    rel = []
    for a in pool:
        t = int(a.split(".")[1])
        kind = a.split(".")[0]
        if t in bares or (arith and t in ARITH) or (T_BASE in bares and t == T_DERIVED) or (T_DERIVED in bares and (t == T_BASE or kind.startswith("up"))) \
                or (T_SBASE in bares and t == T_SDERIVED) or (T_STRING in bares and t == T_OTHER) or (T_VECINT in bares and t == T_VECBV) \
                or (30 in bares and kind == "fn") or (0 in bares) or (1 in bares and t in ARITH):
            rel.append(a)
    out = [rnd.choice(rel) for _ in range(k)] if rel else []
    out.append(rnd.choice(pool))
    return out


def gen_cases(cat, tier, seed):
    rnd = random.Random(seed * 1000003 + 6)
    pool = arg_pool()
    cases = []
    a1, a2, a3, a0 = cat.by_arity(1), cat.by_arity(2), cat.by_arity(3), cat.by_arity(0)
    var = cat.by_arity(-1)
    scale = {"quick": 1, "thorough": 12}[tier]
    # 1. every single arity-1 overload against the whole pool (the cast matrix through dispatch)
    for f in a1:
        for a in pool:
            cases.append("D 0 direct %d | %s" % (f, a))
    # 2. pairs and triples of equal arity, every registration order in thorough, seeded sample in quick
    def subsets(group, size, count):
        out = []
        for _ in range(count):
            ids = rnd.sample(group, size)
            out.append(ids)
        return out
    for size, count in ((2, (1200 if tier == "quick" else 1500 * scale)), (3, (800 if tier == "quick" else 1000 * scale))):
        for ids in subsets(a1 + var, size, count):
            orders = list(itertools.permutations(ids)) if tier == "thorough" else [tuple(ids)]
            for a in relevant_args(cat, ids, 0, pool, rnd, 2):
                for o in (orders if tier == "thorough" and rnd.random() < 0.3 else orders[:1]):
                    route = "script" if rnd.random() < 0.25 else "direct"
                    cases.append("D %d %s %s | %s" % (rnd.choice([0, 0, 1]), route, ",".join(map(str, o)), a))
    for group, n, count in ((a2, 2, (1200 if tier == "quick" else 1500 * scale)), (a3, 3, (400 if tier == "quick" else 500 * scale))):
        for _ in range(count):
            ids = rnd.sample(group, rnd.choice([1, 2, 2, 3]) if len(group) >= 3 else 1)
            if rnd.random() < 0.15 and var:
                ids.append(var[0])
            args = [rnd.choice(relevant_args(cat, ids, p, pool, rnd, 3)) for p in range(n)]
            route = "script" if rnd.random() < 0.25 else "direct"
            cases.append("D %d %s %s | %s" % (rnd.choice([0, 0, 1]), route, ",".join(map(str, ids)), " ".join(args)))
    # 3. mixed arities and wrong argument counts
    for _ in range(400 * scale):
        ids = [rnd.choice(a1), rnd.choice(a2)] + ([rnd.choice(a3)] if rnd.random() < 0.5 else []) + ([rnd.choice(a0)] if rnd.random() < 0.3 else [])
        rnd.shuffle(ids)
        n = rnd.choice([0, 1, 2, 3])
        args = [rnd.choice(relevant_args(cat, ids, p, pool, rnd, 2)) for p in range(n)]
        cases.append("D 0 %s %s | %s" % (rnd.choice(["direct", "script"]), ",".join(map(str, ids)), " ".join(args)))
    for ids in ([80], [81, 80], [80, 1], [50], [70, 50]):
        for args in ([], ["var.10.5"], ["var.10.5", "var.10.6"], ["var.10.5", "var.10.6", "var.10.7"], ["var.10.5"] * 4):
            if len(args) <= 3:
                cases.append("D 0 direct %s | %s" % (",".join(map(str, ids)), " ".join(args)))
    # 4. literals written in the script text
    for f in a1:
        for l in LITS:
            if rnd.random() < 0.5 or tier == "thorough":
                cases.append("D 0 script %d | %s" % (f, l))
    # 5. C++ calling the overloads through a std::function wrapper (public API): oracle only
    for _ in range(300 * scale):
        ids = rnd.sample([f for f in a1 if cat.funcs[f][1] != "attr"], rnd.choice([1, 2]))
        a = rnd.choice(relevant_args(cat, ids, 0, pool, rnd, 3))
        cases.append("D 0 fncall %s | %s" % (",".join(map(str, ids)), a))
    # 7. overload twins: same parameter type, different constness / form (and, for some, different return types), both registration orders
    #    (the loop visits (f, g) and (g, f)); sources: the parameter type itself and every type with a registered conversion to it
    #    (Derived for Base, SDerived for SBase, Other for std::string, vector<Boxed_Value> for vector<int>, Base-typed handles of a Derived)
    natives = [f for f in a1 if cat.funcs[f][1] == "native" and len(cat.funcs[f][2]) == 1]
    KINDS = ("var", "cvar", "ref", "cref", "sp", "csp", "ptr", "cptr")

    def sources(t):
        """argument specs whose value is of type t or converts to it: (always, sometimes)"""
        own = ["%s.%d.3" % (k, t) for k in KINDS] if t not in (T_VECINT, 30) else ["var.%d.0" % t, "cref.%d.0" % t] if t == T_VECINT else []
        conv = []
        for src in CONV_FROM.get(t, []):
            if src == T_VECBV:
                conv += ["vec.22.0", "cvec.22.0"]
            else:
                conv += ["%s.%d.3" % (k, src) for k in KINDS]
        if t == T_DERIVED:
            conv += ["upref.18.6", "upcref.18.6", "upsp.18.6"]
        return own, conv

    for f in natives:
        for g in natives:
            pf, pg = cat.funcs[f][2][0], cat.funcs[g][2][0]
            if f == g or pf[0] != pg[0] or pf[0] in (0, 1):
                continue
            retdiff = cat.ret[f] != cat.ret[g]
            if not (tier == "thorough" or pf[1] != pg[1] or rnd.random() < 0.15):
                continue
            own, conv = sources(pf[0])
            for a in own:
                k = a.split(".")[0]
                if tier == "thorough" or k in ("var", "cvar", "sp") or rnd.random() < (0.5 if retdiff else 0.3):
                    cases.append("D 0 %s %d,%d | %s" % ("script" if rnd.random() < 0.2 else "direct", f, g, a))
            for a in conv:
                if tier == "thorough" or rnd.random() < (0.5 if pf[1] != pg[1] else 0.2):
                    cases.append("D %d %s %d,%d | %s" % (rnd.choice([0, 0, 1]), "script" if rnd.random() < 0.2 else "direct", f, g, a))
    # 7b. twins among the two-parameter overloads: same parameter types, constness differing in either position, both registration orders
    nat2 = [f for f in a2 if cat.funcs[f][1] == "native"]
    for f in nat2:
        for g in nat2:
            pf, pg = cat.funcs[f][2], cat.funcs[g][2]
            if f == g or [p[0] for p in pf] != [p[0] for p in pg] or [p[1] for p in pf] == [p[1] for p in pg] or any(p[0] in (0, 1) for p in pf):
                continue
            alts = []
            for p in pf:
                own, conv = sources(p[0])
                alts.append(own[:2] + [x for x in own if x.startswith("sp.")] + rnd.sample(own + conv, min(3 if tier == "quick" else 6, len(own + conv))))
            for a0 in alts[0]:
                for a1_ in alts[1]:
                    if tier == "thorough" or rnd.random() < 0.5:
                        cases.append("D 0 %s %d,%d | %s %s" % ("script" if rnd.random() < 0.2 else "direct", f, g, a0, a1_))
    # 9. values that reach the parameter through a registered conversion, for every parameter form of the target type: alone (family 1),
    #    and here next to a catch-all, to the other overloads of the same type, and to an unrelated overload, in both registration orders:
    #    a conversion whose result does not fit the form is "no match" - the next overload is tried, or a dispatch error is raised
    catchalls = [f for f in natives if cat.funcs[f][2][0][0] in (0, 1)]
    for f in natives:
        t = cat.funcs[f][2][0][0]
        own, conv = sources(t)
        if not conv:
            continue
        same = [g for g in natives if g != f and cat.funcs[g][2][0][0] == t]
        for a in conv:
            partners = [rnd.choice(catchalls)] + ([rnd.choice(same)] if same else []) + [rnd.choice(natives)]
            for g in partners:
                if g == f or not (tier == "thorough" or rnd.random() < 0.5):
                    continue
                ids = (f, g) if rnd.random() < 0.5 else (g, f)
                cases.append("D %d %s %d,%d | %s" % (rnd.choice([0, 0, 1]), "script" if rnd.random() < 0.15 else "direct", ids[0], ids[1], a))
    # 8. histories: a C++ function taking std::shared_ptr<T>& re-seats the variable (1..3 times), then the variable is passed on
    #    (direct call, script call, to one or two overloads) or cast out: every form must receive the object the variable holds now
    hfuncs = [f for f in a1 if cat.funcs[f][1] in ("native", "dyn", "dynv")]
    for t in (T_INT, T_STRING, T_BASE, T_DERIVED, T_OTHER, T_DOUBLE):
        rel = [f for f in hfuncs if not cat.funcs[f][2] or cat.funcs[f][2][0][0] in (t, 0, 1) or (cat.funcs[f][2][0][2] and t in ARITH)
               or t in CONV_FROM.get(cat.funcs[f][2][0][0], []) or cat.funcs[f][2][0][0] in CONV_FROM.get(t, [])]
        for f in hfuncs:
            if f in rel or tier == "thorough" or rnd.random() < 0.25:
                n = rnd.choice(["", "", "2", "3"])
                cases.append("D 0 %sreseat%s %d | %s.%d.3" % ("s" if rnd.random() < 0.2 else "", n, f, rnd.choice(["sp", "sp", "var"]), t))
        for fm in CAST_FORMS:
            for n in ("", "2", "3"):
                for k in ("sp", "var", "ret"):
                    if tier == "thorough" or (n == "" and k == "sp") or rnd.random() < 0.4:
                        cases.append("C 0 rconv%s %s.%d | %s.%d.3" % (n, fm, t, k, t))
            for tt in CONV_FROM.get(t, []) + [x for x in CONV_FROM if t in CONV_FROM[x]]:
                if tt in (T_INT, T_STRING, T_BASE, T_DERIVED, T_OTHER, T_DOUBLE):
                    cases.append("C 0 rconv%s %s.%d | sp.%d.3" % (rnd.choice(["", "2"]), fm, t, tt))
        for _ in range(30 * scale):
            ids = rnd.sample(rel, 2) if len(rel) >= 2 and rnd.random() < 0.8 else rnd.sample(a1, 2)
            cases.append("D 0 %sreseat%s %s | %s.%d.3" % ("s" if rnd.random() < 0.2 else "", rnd.choice(["", "2"]), ",".join(map(str, ids)), rnd.choice(["sp", "var"]), t))
    cases.append("D 0 reseat 18,17 | upsp.18.6")
    # 6. the C++-receives direction: boxed_cast<T>, eval<T>, std::function wrappers
    for t in CAST_TYPES:
        for fm in CAST_FORMS:
            rel = [a for a in pool if int(a.split(".")[1]) in (t, T_DERIVED if t == T_BASE else t, T_BASE if t == T_DERIVED else t, T_OTHER if t == T_STRING else t,
                                                                  T_VECBV if t == T_VECINT else t, T_SDERIVED if t == T_SBASE else t) or a.startswith("up")]
            rel += [rnd.choice(pool) for _ in range(4)]
            if t in ARITH:
                rel += ["var.%d.5" % u for u in ARITH]
            for a in rel:
                if a.startswith("fn"):
                    continue
                if tier == "thorough" or rnd.random() < 0.6:
                    cases.append("C %d %s %s.%d | %s" % (rnd.choice([0, 0, 1]), rnd.choice(["conv", "conv", "noconv"]), fm, t, a))
    for a in pool:
        cases.append("C 0 conv FBV.0 | %s" % a)
        cases.append("C 0 conv FBN.1 | %s" % a)
        cases.append("C 0 conv FFn.30 | %s" % a)
    for k in range(5):
        cases.append("C 0 conv FFn.31 | fn.2.%d" % k)
        cases.append("C 0 eval FFn.30 | fn.2.%d" % k)
    for l in LITS:
        for t in CAST_TYPES:
            cases.append("C 0 eval FVal.%d | %s" % (t, l))
    return cases


# ---------------------------------------------------------------------------------------------------
HIST_RE = re.compile(r" \| HIST((?: \S+)+?)(?= \||$)")


def base_route(r):
    """reseat2 -> reseat (the number of re-seats is part of the case, not of the family)"""
    return r.rstrip("0123456789")


def model_line(cat, case, impl):
    """numeric case line for the extracted models, built from the harness' own description of the arguments"""
    head, _, argpart = case.partition("|")
    h = head.split()
    argspecs = argpart.split()
    m = re.match(r"ARGS((?: \S+)*?)(?: \||$)", impl)
    if not m:
        return None
    descr = m.group(1).split()
    if len(descr) != len(argspecs):
        return None
    convset = int(h[1])
    hm = HIST_RE.search(impl)
    if h[0] == "C" and base_route(h[2]) == "rconv":
        # history case: the variable as it was, then the contents installed by each re-seat; the models replay the history
        if not hm:
            return None
        hd = hm.group(1).split()
        form, ty = h[3].split(".")
        toks = [cat.rtl, 1] + cat.conv_tokens(convset) + param_tokens(form, int(ty)) + arg_tokens(hd[0], argspecs[0]) + [len(hd) - 1]
        for pay in hd[1:]:
            toks += pay_tokens(pay, argspecs[0])
        return "H " + " ".join(map(str, toks))
    toks = [cat.rtl, 0 if (h[0] == "C" and h[2] == "noconv") else 1] + cat.conv_tokens(convset)
    if h[0] == "D":
        ids = [int(x) for x in h[3].split(",")]
        toks.append(len(ids))
        for i in ids:
            toks += cat.funcs[i][0]
        toks.append(len(argspecs))
        for d, a in zip(descr, argspecs):
            toks += arg_tokens(d, a)
        return "D " + " ".join(map(str, toks))
    form, ty = h[3].split(".")
    toks += param_tokens(form, int(ty))
    toks += arg_tokens(descr[0], argspecs[0])
    return "C " + " ".join(map(str, toks))


# what each script function value returns when called with 20 (box description), for the Ret direction
FN_RET = {0: [T_INT, 1, 1, 0, 0, 0, 0, 0, 21], 1: [T_STRING, 0, 0, 0, 0, 0, 0, 0, 20], 4: [T_DOUBLE, 1, 1, 0, 0, 0, 0, 0, 5]}


def ret_line(cat, case):
    head, _, argpart = case.partition("|")
    h = head.split()
    k = int(argpart.split()[0].split(".")[2])
    if k not in FN_RET or not argpart.split()[0].startswith("fn"):
        return None
    rty = T_INT if h[3] == "FFn.30" else T_STRING
    toks = [cat.rtl, 1] + cat.conv_tokens(int(h[1])) + param_tokens("FVal", rty) + FN_RET[k]
    return "R " + " ".join(map(str, toks))


ERRMAP = {"dispatch_error", "bad_boxed_cast", "arity_error", "guard_error"}


def strip_args(impl):
    impl = HIST_RE.sub("", impl)
    i = impl.find(" | ")
    return impl[i + 3:] if impl.startswith("ARGS") and i >= 0 else impl


def canon(obs, wild):
    if wild:
        obs = re.sub(r"@[SD?]", "@*", obs)
    return obs


def compare(case, impl, model):
    """implementation observation vs mechanism model observation"""
    h = case.split()
    h[2] = base_route(h[2])
    wild = "text" in impl.split(" | ")[0]
    i, m = canon(strip_args(impl), wild), canon(model, wild)
    if "ERR(UB)" in m or "STUCK" in m:
        return "STUCK" not in m  # undefined behaviour reached in the model: nothing to compare
    if h[0] == "D" and h[2] in ("script", "sreseat"):
        # Fun_Call_AST_Node reports the dispatch-level classes as eval_error
        m = re.sub(r"ERR\((%s)\)" % "|".join(ERRMAP), "ERR(eval_error)", m)
    if h[0] == "C":
        i = i.split(" call=")[0]
        i = re.sub(r"ERR\(bad_any_cast\)", "ERR(bad_boxed_cast)", i) if False else i
    return i == m


def parse_spec(spec):
    d = {"arity": None, "exact": [], "allow": {}, "pref": [], "errs": None}
    for part in spec.split(" | "):
        f = part.split(" ", 2)
        if f[0] == "PREF":
            d["pref"] = [int(x) for x in f[1].split(",")] if len(f) > 1 and f[1] else []
        elif f[0] == "ERRS":
            d["errs"] = f[1].split(",") if len(f) > 1 else []
        if f[0] == "ARITY":
            d["arity"] = f[1] == "1"
        elif f[0] == "EXACT":
            d["exact"] = [int(x) for x in f[1].split(",")] if len(f) > 1 and f[1] else []
        elif f[0] == "ALLOW" and len(f) == 3:
            d["allow"][int(f[1])] = [p.split("/") for p in f[2][1:-1].split(";")] if f[2] != "[]" else []
    return d


def satisfies(case, impl, spec, cat):
    """does what the implementation did satisfy the specification? -> (ok, reason)"""
    if impl.startswith("SIG(") or impl.startswith("EXIT(") or "HARNESS-EXC" in impl:
        return False, "the process died or the harness failed"
    h = case.split()
    wild = "text" in impl.split(" | ")[0]
    obs = strip_args(impl)
    if h[0] == "C":
        sparts = spec.split(" | ")
        allowed = [canon(x, wild) for x in sparts[0][len("ALLOW "):].split("/")] if sparts[0].startswith("ALLOW") else []
        errs = [p[5:].split(",") for p in sparts if p.startswith("ERRS ")]
        if obs.startswith("CAST "):
            got = canon(obs[5:].split(" call=")[0], wild)
            if got not in allowed:
                return False, "boxed_cast handed over %s; the specification allows %s" % (got, allowed)
        elif obs.startswith("ERR(") and errs and obs[4:-1] not in errs[0]:
            return False, "boxed_cast failed with %s; it may only fail with %s" % (obs, errs[0])
        return True, ""
    if "REGERR" in obs:
        return True, ""
    sp = parse_spec(spec)
    parts = obs.split(" | ")
    enters = [p for p in parts if p.startswith("ENTER ")]
    res = [p for p in parts if p.startswith("RES ")]
    if not res:
        return False, "no result"
    err = res[0] != "RES ok"
    if len(enters) > 1:
        return False, "more than one function body was entered: %s" % enters
    body_throws = False
    if enters:
        m = re.match(r"ENTER (\d+) \[(.*)\]$", enters[0])
        fid = int(m.group(1))
        recvs = m.group(2).split(";") if m.group(2) else []
        body_throws = bool(cat.funcs[fid][0][3])
        if cat.funcs[fid][1] == "attr" and recvs == ["17:null@N"]:
            return False, "the data member accessor was entered with a null object pointer (o->*m_attr with o == nullptr)"
        if fid not in sp["allow"]:
            return False, "function %d was entered; the specification allows entering only %s for these arguments" % (fid, sorted(sp["allow"]))
        alts = sp["allow"][fid]
        if len(alts) != len(recvs):
            return False, "function %d received %d values for %d parameters" % (fid, len(recvs), len(alts))
        for j, (r, al) in enumerate(zip(recvs, alts)):
            if canon(r, wild) not in [canon(x, wild) for x in al]:
                return False, "parameter %d of function %d received %s; the specification allows %s" % (j, fid, r, al)
        if sp["exact"] and fid not in sp["exact"]:
            return False, "an overload matching the argument types exactly exists (%s) but %d was entered" % (sp["exact"], fid)
        if sp["pref"] and fid in sp["exact"] and cat.funcs[fid][1] == "native" and fid not in sp["pref"]:
            return False, ("overload %d was entered although an exactly matching overload with less const parameters exists (%s): for the same type the "
                           "non-const parameter version goes first" % (fid, sp["pref"]))
    if err and enters and not body_throws:
        return False, "an error was reported although function %s had been entered" % enters[0]
    if err and not (enters and body_throws) and sp["errs"] is not None and res[0][8:-1] not in sp["errs"]:
        return False, "the call failed with %s; a call may only fail with %s (or the entered body's own exception)" % (res[0][4:], sp["errs"])
    if not err and not enters:
        return False, "the call returned normally without entering any function"
    if sp["arity"] is False and (enters or not err):
        return False, "no overload accepts this number of arguments, yet the call did not fail cleanly"
    if sp["exact"] and not enters:
        return False, "an overload matching the argument types exactly exists (%s) but the call failed: %s" % (sp["exact"], res[0])
    return True, ""


def run(c, cat, cases, hbin, mbin, sbin, env=None):
    rc, impl, err = vlib.run_lines(hbin, cases, timeout=3000, env=env)
    if len(impl) != len(cases):
        raise vlib.BuildError("h_dispatch produced %d lines for %d cases\n%s" % (len(impl), len(cases), err[-2000:]))
    mlines, idx = [], []
    for k, (case, i) in enumerate(zip(cases, impl)):
        ml = model_line(cat, case, i)
        if ml is not None:
            mlines.append(ml)
            idx.append(k)
    rc3, specs, err3 = vlib.run_lines(sbin, mlines, timeout=3000)
    if mbin:
        rc2, model, err2 = vlib.run_lines(mbin, mlines, timeout=3000)
    else:
        model, err2 = [None] * len(mlines), ""
    if len(specs) != len(mlines) or len(model) != len(mlines):
        raise vlib.BuildError("models produced %d/%d lines for %d cases\n%s\n%s" % (len(model), len(specs), len(mlines), err2[-1500:], err3[-1500:]))
    ndis = 0
    seen = set()
    rows = []
    for k, ml, m, s in zip(idx, mlines, model, specs):
        case, i = cases[k], impl[k]
        h = case.split()
        c.cov["evaluations"] += 1
        key = "%s:%s" % (h[0], base_route(h[2]))
        c.dist[key] = c.dist.get(key, 0) + 1
        obs = strip_args(i)
        cls = "enter" if "ENTER" in obs else "cast" if obs.startswith("CAST") else "error"
        c.dist["outcome:" + cls] = c.dist.get("outcome:" + cls, 0) + 1
        if h[0] == "D":
            c.dist["overloads:%d" % len(h[3].split(","))] = c.dist.get("overloads:%d" % len(h[3].split(",")), 0) + 1
        if s == "BADCASE" or (m is not None and m == "BADCASE"):
            c.disagree("dispatch: the model could not parse the case", case, i, ml)
            continue
        if case not in seen and (cls != "error" or "ALLOW" in s):
            seen.add(case)
        if m is not None and h[2] != "fncall" and not compare(case, i, m):
            ndis += 1
            if ndis <= 20:
                c.disagree("dispatch", case, i, m)
        ok, why = satisfies(case, i, s, cat)
        if not ok:
            c.fail(why, {"case": case, "impl": i, "spec": s,
                         "format": "D convset route overload-ids(registration order) | args kind.type.payload ; recv = type:value@S(ame object)/D(ifferent)/-(by value)"})
        rows.append((case, i, m, s))
    # the Ret direction of std::function wrappers
    rl, rcases = [], []
    for k, case in enumerate(cases):
        if case.startswith("C") and " FFn." in case and " call=" in impl[k]:
            r = ret_line(cat, case)
            if r:
                rl.append(r)
                rcases.append(k)
    if rl:
        _, rs, _ = vlib.run_lines(sbin, rl)
        rm = vlib.run_lines(mbin, rl)[1] if mbin else [None] * len(rl)
        for k, line, s, m in zip(rcases, rl, rs, rm):
            got = impl[k].split(" call=")[1]
            c.cov["evaluations"] += 1
            c.dist["R:call"] = c.dist.get("R:call", 0) + 1
            allowed = s[len("ALLOW "):].split("/") if s.startswith("ALLOW") else []
            if not got.startswith("ERR(") and got + "@-" not in allowed:
                c.fail("a std::function wrapper returned %s to C++; the specification allows %s" % (got, allowed), {"case": cases[k], "impl": impl[k], "spec": s})
            if m is not None:
                want = m[5:-2] if m.startswith("CAST ") else m.replace("bad_any_cast", "std:bad_cast")
                if got != want:
                    c.disagree("call_out", cases[k], impl[k], m)
    c.cov["distinct_nontrivial"] += len(seen)
    c.cov["traces_validated_against_impl"] += len(mlines)
    c.cov["disagreements_checked"] += len(mlines)
    return rows


def builds(c=None):
    hbin = vlib.cxx_build("h_dispatch")
    sbin = vlib.model_build("dispatchspec", ["theories/DispatchSpecRun.vo"])
    try:
        mbin = vlib.model_build("dispatch", ["theories/DispatchRun.vo"])
    except vlib.BuildError as ex:
        mbin = None
        if c is not None:
            c.broken_ties.append(("correspondence", "dispatch: the mechanism model no longer builds from the regenerated rules", str(ex)[-1500:]))
    return hbin, mbin, sbin


def warm():
    builds()


def check(tier, seed):
    c = vlib.Check("C06", tier, seed)
    c.cov["rule"] = ("cases = (conversion set, route, overload subset in registration order, argument tuple) for dispatch and (mode, requested C++ form and type, script value) "
                     "for boxed_cast/eval<T>/std::function wrappers; every arity-1 catalogue signature meets every pool value; pairs/triples/other arities are seeded samples "
                     "aimed at the parameter types; overload twins (same parameter types, different constness, different return types; one and two parameters) in both "
                     "registration orders with own-type and convertible-type sources of every kind; conversion sources next to catch-alls; histories of 1..3 re-seats through "
                     "std::shared_ptr<T>& followed by a call (direct / from script) or a cast-out in every form; non-trivial = a function was entered, a cast succeeded, or the specification allows some entry; distinct = distinct case lines")
    c.assumptions = ["the catalogue environment (arithmetic kinds, user conversion functions, guards) in DispatchSpecRun.v mirrors harness/h_dispatch.cpp; checked by the correspondence",
                     "translator tools/translate/t_CastRules.py (shape recogniser over boxed_cast_helper.hpp, boxed_cast.hpp, boxed_value.hpp, any.hpp, proxy_functions*.hpp, dispatchkit.hpp, "
                     "boxed_number.hpp, function_call.hpp); function_less_than (up to the loop's start index, which is a rule), filter, Object_Data::get, the ambiguity rule are "
                     "pinned by exact text; ~Sentinel is read as the set of cached pointers it assigns",
                     "callee bodies never throw bad_boxed_cast / arity_error / guard_error themselves (hypothesis of C06_single_entry, stated in the theorem)",
                     "std::stable_sort as implemented by libstdc++ (GCC 12) for at most 14 overloads; std::type_info::before ranks are an input printed by the harness",
                     "extraction: ExtrOcamlBasic + ExtrOcamlString, no Extract Constant; OCaml driver does line I/O only"]
    c.prove("Properties_C06", translators=None)
    hbin, mbin, sbin = builds(c)
    cat = Catalog(hbin)
    corpus = [l.strip() for l in open(os.path.join(vlib.ROOT, "corpus", "C06.txt")) if l.strip() and not l.startswith("#")]
    cases = corpus + gen_cases(cat, tier, seed)
    rows = run(c, cat, cases, hbin, mbin, sbin)
    if tier == "thorough":
        # C++ calling the overloads through a std::function wrapper, with arguments that need a user conversion, again under
        # AddressSanitizer: a converted temporary destroyed before the callee runs is a heap-use-after-free (observation EXIT/SIG)
        abin = vlib.cxx_build("h_dispatch", flavor="asan")
        acases = [x for x in cases if x.split()[2] == "fncall"] + [x for x in corpus if x.startswith("D")]
        n0 = c.cov["evaluations"]
        run(c, cat, acases, abin, None, sbin, env={"ASAN_OPTIONS": "detect_leaks=0:abort_on_error=0"})
        c.dist["asan:fncall"] = c.cov["evaluations"] - n0
    for k in (0, len(corpus) + 11, len(rows) // 3, len(rows) // 2, len(rows) - 5):
        if 0 <= k < len(rows):
            case, i, m, s = rows[k]
            c.sample({"case": case, "impl": i, "model_mechanism": m, "model_spec": s})
    return c.finish()


def replay(path):
    r = json.load(open(os.path.join(vlib.ROOT, path) if not os.path.isabs(path) else path))
    if r.get("kind") != "failing-input":
        print("tie-broken replay: the following no longer check:", json.dumps(r.get("no_longer_checks"), indent=1)[:3000])
        return 1
    hbin, mbin, sbin = builds()
    cat = Catalog(hbin)
    case = r["failure"]["case"]["case"]
    _, i, _ = vlib.run_lines(hbin, [case])
    ml = model_line(cat, case, i[0])
    _, s, _ = vlib.run_lines(sbin, [ml])
    print("case:", case, "\nimpl:", i[0], "\nspec:", s[0])
    ok, why = satisfies(case, i[0], s[0], cat)
    print("REPRODUCED: " + why if not ok else "not reproduced")
    return 0 if ok else 1
