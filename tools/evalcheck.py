"""Shared driver for the evaluator-level properties (C02, C03, C04, C08, C09, C10):
runs programs on the implementation (h_run: raw/opt parser, hints on/off) and on the extracted Coq
evaluator (mechanism model m_eval over the regenerated arithmetic tables; reference model m_evalspec
with the specification arithmetic), and canonicalises observations."""
import os
import vlib

FUEL = 4000
CLS = {"std:out_of_range": "out_of_range", "std:range_error": "range_error", "std:bad_cast": "bad_any_cast", "std:runtime_error": "runtime_error",
       "std:logic_error": "logic_error", "std:exception": "exception"}
_bins = {}


def bins():
    if not _bins:
        _bins["h"] = vlib.cxx_build("h_run", flavor="opt")
        _bins["spec"] = vlib.model_build("evalspec", ["theories/EvalSpecRun.vo"])
        try:
            _bins["mech"] = vlib.model_build("eval", ["theories/EvalRun.vo"])
        except vlib.BuildError as ex:
            _bins["mech"] = None
            _bins["mech_err"] = str(ex)[-1500:]
        try:
            _bins["opt"] = vlib.model_build("opt", ["theories/OptRun.vo"])
        except vlib.BuildError as ex:
            _bins["opt"] = None
            _bins["opt_err"] = str(ex)[-1500:]
    return _bins


def warm():
    bins()


def split_impl(line):
    """'TREE <dump> || OUT <hex> || RES …|ERR…[ || SHAPE …]' -> dict"""
    d = {"raw": line}
    if not line.startswith("TREE "):
        d["parse_error"] = line
        return d
    parts = line.split(" || ")
    d["tree"] = parts[0][5:]
    d["out"] = parts[1][4:] if len(parts) > 1 else ""
    d["res"] = parts[2] if len(parts) > 2 else ""
    d["shape"] = parts[3] if len(parts) > 3 else ""
    return d


def canon_obs(out, res, keep_reason=True):
    """observation = (stdout, value/type | error class [+ eval_error reason])"""
    f = res.split(" ")
    if f and f[0].startswith("ERR("):
        cls = f[0][4:-1]
        cls = CLS.get(cls, cls)
        if cls == "eval_error":
            reason = f[1] if len(f) > 1 else ""
            try:
                txt = bytes.fromhex(reason).decode("latin-1") if reason != "-" else ""
            except ValueError:
                txt = reason
            # dispatch-related reasons name internal functions; only the class is compared there
            if not keep_reason or "dispatch" in txt or "rror calling function" in txt or "Can not find appropriate" in txt or "Unable to find appropriate" in txt:
                return (out, "ERR(eval_error)")
            return (out, "ERR(eval_error) " + txt)
        if cls == "boxed":
            return (out, res)
        return (out, "ERR(%s)" % cls)
    return (out, res)


def split_model(line):
    """'OUT <hex> || RES … || SHAPE …' -> (out, res)"""
    if not line.startswith("OUT "):
        return None, line
    parts = line[4:].split(" || ")
    return parts[0], (parts[1] if len(parts) > 1 else "")


def model_shape(line):
    parts = line.split(" || ")
    return parts[2] if len(parts) > 2 else ""


def run_impl(progs, mode, extra=(), asan=False):
    b = bins()
    if asan and "hasan" not in b:
        b["hasan"] = vlib.cxx_build("h_run", flavor="asan")
    rc, res, err = vlib.run_lines(b["hasan" if asan else "h"], [" ".join([mode, vlib.hexs(p)] + list(extra)) for p in progs], timeout=3000)
    if len(res) != len(progs):
        raise vlib.BuildError("h_run produced %d lines for %d programs: %s" % (len(res), len(progs), err[-1000:]))
    return [split_impl(r) for r in res]


_parse_bin = {}


def eval_tables(progs, mode):
    """for every program: ' @@ <hex text> <tree>' for each text it hands to eval("…"), parsed by the implementation's parser"""
    import re
    if "h" not in _parse_bin:
        _parse_bin["h"] = vlib.cxx_build("h_parse")
    texts = []
    per = []
    for p in progs:
        ts = []
        for m in re.finditer(r'eval\("((?:[^"\\]|\\.)*)"\)', p):
            t = m.group(1).replace('\\"', '"').replace("\\\\", "\\")
            ts.append(t)
            texts.append(t)
        per.append(ts)
    uniq = sorted(set(texts))
    dumps = {}
    if uniq:
        rc, res, err = vlib.run_lines(_parse_bin["h"], ["%s %s" % (mode, vlib.hexs(t)) for t in uniq], timeout=600)
        for t, r in zip(uniq, res):
            if r.startswith("OK "):
                dumps[t] = r[3:]
    return ["".join(" @@ %s %s" % (vlib.hexs(t), dumps[t]) for t in sorted(set(ts)) if t in dumps) for ts in per]


def run_model(which, trees, hints=False, fuel=FUEL, flags=None, evals=None):
    """flags: optional per-tree list of extra flag strings such as 'fault=2:runtime_error';
    evals: optional per-tree suffixes from eval_tables()"""
    b = bins()
    if b.get(which) is None:
        return [None] * len(trees)
    fl = flags or [""] * len(trees)
    evs = evals or [""] * len(trees)
    rc, res, err = vlib.run_lines(b[which], ["%d%s %d %s%s" % (1 if hints else 0, ("," + x) if x else "", fuel, t, e) for t, x, e in zip(trees, fl, evs)], timeout=3000)
    if len(res) != len(trees):
        raise vlib.BuildError("model %s produced %d lines for %d trees: %s" % (which, len(res), len(trees), err[-1000:]))
    return res


def run_optimizer_model(trees):
    b = bins()
    if b.get("opt") is None:
        return [None] * len(trees)
    rc, res, err = vlib.run_lines(b["opt"], trees, timeout=3000)
    return res


def corpus(name):
    p = os.path.join(vlib.ROOT, "corpus", name)
    return [l.rstrip("\n").replace("\\n", "\n") for l in open(p) if l.strip() and not l.startswith("#")]
