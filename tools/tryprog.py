#!/usr/bin/env python3
"""tryprog.py [raw|opt] <file or -e text>: run one program on the implementation and on both evaluator models; print tree and observations."""
import sys, os
sys.path.insert(0, os.path.dirname(os.path.abspath(__file__)))
import vlib, evalcheck
mode = "raw"
a = sys.argv[1:]
if a and a[0] in ("raw", "opt"):
    mode = a.pop(0)
text = a[1] if a[0] == "-e" else open(a[0]).read()
r = evalcheck.run_impl([text], mode)[0]
if "parse_error" in r:
    print("IMPL", r["parse_error"]); sys.exit()
if "-t" in a:
    print("TREE", r["tree"])
print("IMPL out=%r res=%s" % (bytes.fromhex(r["out"]).decode("latin-1") if r["out"] != "-" else "", r["res"]))
ev = evalcheck.eval_tables([text], mode)
for which in ("spec", "mech"):
    for h in (False, True):
        m = evalcheck.run_model(which, [r["tree"]], hints=h, evals=ev)[0]
        o, res = evalcheck.split_model(m)
        try:
            o = bytes.fromhex(o).decode("latin-1")
        except Exception:
            pass
        print("%s hints=%d out=%r res=%s" % (which.upper(), h, o, res))
