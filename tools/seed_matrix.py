#!/usr/bin/env python3
"""Regenerate the catch matrix in DESIGN.md (between the SEEDED-MATRIX markers) from /verif/seeded/*/*/{meta,confirm,check}.json."""
import glob, json, os, re

ROOT = os.path.dirname(os.path.dirname(os.path.abspath(__file__)))


def load(p):
    try:
        return json.load(open(p))
    except Exception:
        return {}


def main():
    rows = []
    for d in sorted(glob.glob(os.path.join(ROOT, "seeded", "C*", "*"))):
        pid, n = d.split("/")[-2:]
        meta, conf, chk = load(d + "/meta.json"), load(d + "/confirm.json"), load(d + "/check.json")
        title = (meta.get("title") or meta.get("description") or "")[:90].replace("|", "/").replace("\n", " ")
        tests = "295/295 (mine)" if conf.get("tests_ok") else ("295/295 (agent)" if "295" in str(meta.get("tests_passed", "")) else "?")
        cells = []
        for tier in ("quick", "thorough"):
            for p, r in sorted(chk.get(tier, {}).items()):
                if r.get("caught"):
                    kind = "failing input" if r.get("replay_kind") == "failing-input" else "proof/tie broken, no failing input"
                    cells.append("%s %s: **caught** (%s)" % (p, tier, kind))
                else:
                    cells.append("%s %s: missed" % (p, tier))
        hist = chk.get("history", "")
        rows.append("| %s/%s | %s | %s | %s | %s |" % (pid, n, title, tests, "; ".join(cells) or "not run", hist))
    table = "| change | what | test suite with the change | checks | note |\n|---|---|---|---|---|\n" + "\n".join(rows) + "\n"
    p = os.path.join(ROOT, "DESIGN.md")
    s = open(p).read()
    a, b = "<!-- SEEDED-MATRIX-BEGIN -->", "<!-- SEEDED-MATRIX-END -->"
    if a in s and b in s:
        s = s[:s.index(a) + len(a)] + "\n" + table + s[s.index(b):]
        open(p, "w").write(s)
    print(table)


if __name__ == "__main__":
    main()
