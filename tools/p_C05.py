"""C05 — script arithmetic is C++ arithmetic; traps raise arithmetic_error.
proof: Properties_C05 over tables regenerated from boxed_number.hpp etc.
tie:   translator (every run) + matrix correspondence  h_num (implementation) ⇄ m_num (extracted Coq model)
oracle: implementation vs the extracted *specification* (spec_row), signals are failures."""
import json, math, os, random, struct, sys
import vlib

ITYPES = {"int8": (8, 1), "uint8": (8, 0), "int16": (16, 1), "uint16": (16, 0), "int": (32, 1), "uint": (32, 0), "long": (64, 1),
          "ulong": (64, 0), "llong": (64, 1), "ullong": (64, 0), "char": (8, 1), "uchar": (8, 0), "wchar": (32, 1), "char16": (16, 0),
          "char32": (32, 0)}
FTYPES = ["float", "double", "ldouble"]
TYPES = list(ITYPES) + FTYPES
LITERAL_TYPES = ["int", "uint", "long", "ulong", "llong", "ullong", "float", "double", "ldouble"]
BIN = ["==", "<", ">", "<=", ">=", "!=", "+", "-", "*", "/", "%", "<<", ">>", "&", "|", "^"]
ASG = ["=", "+=", "-=", "*=", "/=", "%=", "<<=", ">>=", "&=", "|=", "^="]
UN = ["-", "+", "~", "++", "--"]


def ivals(t):
    w, s = ITYPES[t]
    lo, hi = (-(1 << (w - 1)), (1 << (w - 1)) - 1) if s else (0, (1 << w) - 1)
    v = {0, 1, 2, 3, 5, 7, hi, hi - 1, lo, lo + 1, 1 << (w - 2), (1 << (w // 2)), w - 1, w, 31, 32, 63}
    if s:
        v |= {-1, -2, -7}
    return sorted(x for x in v if lo <= x <= hi)


def f80_bits(x):
    if x != x:
        return "nan"
    sign = 1 if math.copysign(1, x) < 0 else 0
    ax = abs(x)
    if ax == 0:
        return "%020x" % (sign << 79)
    if ax == math.inf:
        return "%020x" % ((sign << 79) | (0x7fff << 64) | (1 << 63))
    m, e = math.frexp(ax)  # ax = m * 2**e, 0.5 <= m < 1
    mant = int(m * (1 << 64))
    E = e - 1 + 16383
    return "%020x" % ((sign << 79) | (E << 64) | mant)


def fvals(t):
    base = [0.0, -0.0, 1.0, -1.0, 1.5, 0.25, 3.0, -2.5, 100.0, 2147483648.0, 4294967296.0, 1e10, 65536.0, 0.1, math.inf, -math.inf, math.nan, 255.0,
            -128.0, 9.223372036854775808e18, 1.8446744073709552e19]
    out = []
    for x in base:
        if t == "float":
            out.append("nan" if x != x else struct.pack(">f", x).hex())
        elif t == "double":
            out.append("nan" if x != x else struct.pack(">d", x).hex())
        else:
            out.append(f80_bits(x))
    if t == "float":
        out += ["7f7fffff", "00000001", "00800000", "4b800000", "4b7fffff"]
    elif t == "double":
        out += ["7fefffffffffffff", "0000000000000001", "0010000000000000", "4340000000000000", "433fffffffffffff"]
    else:
        out += ["7ffeffffffffffffffff", "00000000000000000001", "00018000000000000000", "403effffffffffffffff", "403e8000000000000001"]
    return out


EXACT_LIT = [0.0, 1.0, 1.5, 0.25, 3.0, 2.5, 100.0, 65536.0, 255.0]


def vals(t):
    return [str(v) for v in ivals(t)] if t in ITYPES else fvals(t)


def litvals(t):
    if t in ITYPES:
        return [str(v) for v in ivals(t)]
    pool = EXACT_LIT + [-x for x in EXACT_LIT[1:]]
    if t == "float":
        return [struct.pack(">f", x).hex() for x in pool]
    if t == "double":
        return [struct.pack(">d", x).hex() for x in pool]
    return [f80_bits(x) for x in pool]


def gen_cases(tier, seed):
    rnd = random.Random(seed * 7919 + 5)
    per = {"quick": 2, "thorough": 40}[tier]
    cases = []
    # boundary pairs that every run includes (the proof's case-split boundaries)
    must = [("0", None), (None, "0"), ("min", "-1"), ("max", "1"), ("min", "1")]

    def pick(vs, k):
        return [rnd.choice(vs) for _ in range(k)]

    def pairs(t1, t2, k, lit2=False):
        v1, v2 = vals(t1), (litvals(t2) if lit2 else vals(t2))
        out = set()
        zero2 = "0" if t2 in ITYPES else None
        if zero2:
            out.add((rnd.choice(v1), "0"))
            if t1 in ITYPES:
                out.add((v1[0], "-1" if ITYPES[t2][1] else v2[-1]))  # MIN op -1
        for a, b in zip(pick(v1, k), pick(v2, k)):
            out.add((a, b))
        return sorted(out)

    for t1 in TYPES:
        for t2 in TYPES:
            for op in BIN:
                for a, b in pairs(t1, t2, per):
                    cases.append("bin %s %s %s %s %s" % (op, t1, a, t2, b))
            for op in ASG:
                for a, b in pairs(t1, t2, per):
                    cases.append("asg %s %s %s %s %s" % (op, t1, a, t2, b))
            for op in BIN + ASG[1:]:
                for a, b in pairs(t1, t2, 1):
                    cases.append("fn %s %s %s %s %s" % (op, t1, a, t2, b))
        for t2 in LITERAL_TYPES:
            for op in BIN:
                for a, b in pairs(t1, t2, 1, lit2=True):
                    cases.append("foldr %s %s %s %s %s" % (op, t1, a, t2, b))
        # the same variable on both sides: x == x, x - x, x / x, … (incl. NaN, infinities, zero, MIN)
        for op in BIN:
            for a in (sorted(set(pick(vals(t1), per) + [vals(t1)[0], vals(t1)[-1], "0"])) if t1 in ITYPES else vals(t1)):
                cases.append("self %s %s %s %s %s" % (op, t1, a, t1, a))
        for op in UN:
            for a in pick(vals(t1), per + 1) + [vals(t1)[0], vals(t1)[-1]]:
                cases.append("pre %s %s %s - -" % (op, t1, a))
                cases.append("fnu %s %s %s - -" % (op, t1, a))
    for t1 in LITERAL_TYPES:
        for t2 in LITERAL_TYPES:
            for op in BIN:
                v1, v2 = litvals(t1), litvals(t2)
                ps = set(zip(pick(v1, per), pick(v2, per)))
                if t2 in ITYPES:
                    ps.add((rnd.choice(v1), "0"))
                    if t1 in ITYPES and ITYPES[t1][1] and ITYPES[t2][1]:
                        ps.add((v1[0], "-1"))
                for a, b in sorted(ps):
                    cases.append("fold %s %s %s %s %s" % (op, t1, a, t2, b))
                    cases.append("fold %s %s %s %s %s noopt" % (op, t1, a, t2, b))
        for op in ["-", "+", "~"]:
            for a in pick(litvals(t1), 2):
                cases.append("foldu %s %s %s - -" % (op, t1, a))
    # const left operands: every in-place operator must be refused and leave the value alone
    for op in ASG:
        for t2 in ("int", "double", "uint8"):
            cases.append("asg %s cint 5 %s %s" % (op, t2, vals(t2)[3]))
    for op in ("++", "--"):
        cases.append("pre %s cint 5 - -" % op)
    return cases


def canon_impl(route, line):
    if route in ("fold", "foldu"):
        return line
    return line


def compare(case, impl, interp):
    """impl observation vs model (mechanism) observation, after canonicalisation."""
    f = case.split()
    route = f[0]
    if interp.startswith("UB") or interp.startswith("TRAP"):
        return True  # undefined in C++ / trap: nothing to compare (the oracle handles signals)
    mi, _, ma = interp.partition(" | a=")
    ii, _, ia = impl.partition(" | a=")
    if route in ("fold", "foldu"):
        ma = ia = ""
    if mi.startswith("ERR("):
        if not ii.startswith("ERR("):
            return False
        if mi == "ERR(arith)":
            # compound assignment reports the arithmetic_error as an eval_error (Equation node); `/=` is not in
            # to_operator and reaches Boxed_Number through dispatch, where the arithmetic_error arrives unwrapped
            want = ("ERR(eval_error)", "ERR(arithmetic_error)") if route == "asg" else ("ERR(arithmetic_error)",)
            if ii not in want:
                return False
        return ma == ia
    return mi == ii and ma == ia


def satisfies(case, impl, spec):
    """does the implementation's observation satisfy the specification's?"""
    if impl.startswith("SIG(") or impl.startswith("EXIT("):
        return False
    if spec.startswith("UB") or spec.startswith("NOSPEC"):
        return True
    return compare(case, impl, spec)


def nontrivial(case, spec):
    f = case.split()
    if spec.startswith("UB"):
        return False
    return not (f[3] in ("0", "1") and f[5] in ("0", "1", "-"))


def run(c, cases, hbin, mbin, sbin):
    rc, impl, err = vlib.run_lines(hbin, cases, timeout=3000)
    as_bin = [("bin" + c[4:]) if c.startswith("self ") else c for c in cases]     # for the specification, `a op a` is `a op b` with equal operands
    rc3, specs, err3 = vlib.run_lines(sbin, as_bin, timeout=3000)
    if mbin:
        rc2, model, err2 = vlib.run_lines(mbin, as_bin, timeout=3000)
    else:
        model, err2 = [None] * len(cases), ""
    if len(impl) != len(cases) or len(model) != len(cases) or len(specs) != len(cases):
        raise vlib.BuildError("harness/model produced %d/%d/%d lines for %d cases\n%s\n%s" % (len(impl), len(model), len(specs), len(cases), err[-2000:], err2[-2000:]))
    seen = set()
    ndis = 0
    for case, i, interp, spec in zip(cases, impl, model, specs):
        c.cov["evaluations"] += 1
        route = case.split()[0]
        c.dist[route] = c.dist.get(route, 0) + 1
        kind = "UB" if spec.startswith("UB") else "ERR" if spec.startswith("ERR") else "value"
        c.dist["spec:" + kind] = c.dist.get("spec:" + kind, 0) + 1
        if nontrivial(case, spec) and case not in seen:
            seen.add(case)
        if interp is not None and not compare(case, i, interp):
            ndis += 1
            if ndis <= 20:
                c.disagree("num", case, i, interp)
        if not satisfies(case, i, spec):
            c.fail("implementation result differs from the C++ specification (or the process was killed)",
                   {"case": case, "impl": i, "spec": spec, "format": "route op ltype lvalue rtype rvalue [noopt]; floats as IEEE bit patterns"})
    c.cov["distinct_nontrivial"] += len(seen)
    c.cov["traces_validated_against_impl"] += len(cases)
    c.cov["disagreements_checked"] += len(cases)
    return impl, model, specs


def warm():
    vlib.cxx_build("h_num")
    vlib.model_build("numspec", ["theories/NumSpecRun.vo"])
    vlib.model_build("num", ["theories/NumRun.vo"])


def check(tier, seed):
    c = vlib.Check("C05", tier, seed)
    c.cov["rule"] = ("cases = (route, operator, lhs type, lhs value, rhs type, rhs value) over 8 routes x 32 operators x 18x18 C++ arithmetic types x boundary values; "
                     "every (route, op, type pair) cell is generated, value pairs are seeded samples plus the zero-divisor and MIN/-1 pairs; "
                     "non-trivial = the C++ result is defined (spec != UB) and the operands are not both in {0,1}; distinct = distinct case lines")
    c.assumptions = ["LP64 x86-64 data model (checked against `h_num platform` at run time)",
                     "the Coq transcription of C++ arithmetic (NumDefs.cbin_eval/convert, SpecFloat round-to-nearest-even) is validated against g++-compiled operators by this very matrix",
                     "translator tools/translate/t_NumTables.py (shape recogniser over boxed_number.hpp, chaiscript_algebraic.hpp, bootstrap.hpp)",
                     "extraction: ExtrOcamlBasic + ExtrOcamlString, no Extract Constant; OCaml driver does line I/O only"]
    c.prove("Properties_C05", translators=["NumTables"])
    hbin = vlib.cxx_build("h_num")
    rc, out, _ = vlib.run([hbin, "platform"])
    plat = out.decode().strip()
    if plat != "char_signed=1 long=8 llong=8 wchar=4 wchar_signed=1 char16_signed=0 char32_signed=0 int=4 ldouble_digits=64":
        raise vlib.BuildError("platform differs from the modelled LP64 x86-64: " + plat)
    sbin = vlib.model_build("numspec", ["theories/NumSpecRun.vo"])
    try:
        mbin = vlib.model_build("num", ["theories/NumRun.vo"])
    except vlib.BuildError as ex:
        mbin = None
        c.broken_ties.append(("correspondence", "num: the mechanism model no longer builds from the regenerated tables", str(ex)[-1500:]))
    corpus = [l.strip() for l in open(os.path.join(vlib.ROOT, "corpus", "C05.txt")) if l.strip() and not l.startswith("#")]
    cases = corpus + gen_cases(tier, seed)
    if tier == "thorough":
        for s in range(1, 3):
            cases += gen_cases("quick", seed + s)
    impl, model, specs = run(c, cases, hbin, mbin, sbin)
    for k in (0, len(corpus) + 17, len(cases) // 2, len(cases) - 3):
        c.sample({"case": cases[k], "impl": impl[k], "model_mechanism": model[k], "model_spec": specs[k]})
    return c.finish()


def replay(path):
    r = json.load(open(os.path.join(vlib.ROOT, path) if not os.path.isabs(path) else path))
    hbin = vlib.cxx_build("h_num")
    mbin = vlib.model_build("numspec", ["theories/NumSpecRun.vo"])
    if r.get("kind") != "failing-input":
        print("tie-broken replay: the following no longer check:", json.dumps(r.get("no_longer_checks"), indent=1)[:3000])
        return 1
    case = r["failure"]["case"]["case"]
    _, i, _ = vlib.run_lines(hbin, [case])
    _, m, _ = vlib.run_lines(mbin, [("bin" + case[4:]) if case.startswith("self ") else case])
    spec = m[0]
    print("case:", case, "\nimpl:", i[0], "\nspec:", spec)
    ok = satisfies(case, i[0], spec)
    print("REPRODUCED" if not ok else "not reproduced")
    return 0 if ok else 1
