"""C18 — JSON conversion round-trips and tolerates any input.
proof:  Properties_C18 over the model JsonDefs (port of json.hpp / json_wrap.hpp).
tie:    correspondence  h_json (implementation, ASan+UBSan) <-> m_json (extracted Coq model): parse outcome
        and value tree for arbitrary texts, dump text for generated trees, second round trip.
oracle: m_jsonspec (extracted specification): round-trip law, idempotence, totality (SIG/EXIT/sanitizer = failure).
partial: doubles -- value and "%f" text are not modelled in Coq; they are tied/tested here in Python only."""
import json, math, os, random, struct, sys
import vlib

FLAVOR = "asan"
# parse_num<std::int64_t> (t *= 10; t += d) and `-1 * INT64_MIN` rely on signed wrap-around for INT64_MIN and for
# literals >= 2^63; the model writes the wrap explicitly (wrap64) and the harness is compiled with that UBSan check
# off.  All other UBSan/ASan checks stay fatal.
EXTRA = ["-fno-sanitize=signed-integer-overflow"]
NONFINITE_KEY = "json.hpp:JSON::dump:non-finite-double"

I64MIN, I64MAX = -(1 << 63), (1 << 63) - 1


def hx(b):
    return b.hex() if b else "-"


# ---------------------------------------------------------------------------- trees
def tree_tokens(t):
    k = t[0]
    if k in "NTF":
        return [k]
    if k in "IJHLUY":
        return [k + str(t[1])]
    if k == "S":
        return ["S" + hx(t[1])]
    if k == "D":
        return ["D" + struct.pack(">d", t[1]).hex()]
    if k == "V":
        out = ["V%d" % len(t[1])]
        for x in t[1]:
            out += tree_tokens(x)
        return out
    if k == "M":
        out = ["M%d" % len(t[1])]
        for key, x in t[1]:
            out += ["K" + hx(key)] + tree_tokens(x)
        return out
    raise ValueError(k)


def parse_tokens(toks):
    """canonical token list -> python tree (for float tolerance and statistics)"""
    def rd(i):
        t = toks[i]
        k, b = t[0], t[1:]
        if k in "NTF":
            return (k,), i + 1
        if k == "I" or k == "J":
            return ("I", int(b)), i + 1
        if k == "S":
            return ("S", vlib.unhex(b)), i + 1
        if k == "D":
            return ("D", struct.unpack(">d", bytes.fromhex(b))[0]), i + 1
        if k == "V":
            n, i, l = int(b), i + 1, []
            for _ in range(n):
                x, i = rd(i)
                l.append(x)
            return ("V", l), i
        if k == "M":
            n, i, l = int(b), i + 1, []
            for _ in range(n):
                key = vlib.unhex(toks[i][1:])
                x, i = rd(i + 1)
                l.append((key, x))
            return ("M", l), i
        raise ValueError(t)
    v, i = rd(0)
    if i != len(toks):
        raise ValueError("trailing")
    return v


SPECIAL = [b'"', b"\\", b"/", b"\n", b"\r", b"\t", b"\b", b"\f", b"\x00", b"\x01", b"\x1f", b"\x7f", b"\x80", b"\xff", b"\xc3\xa9",
           b"\\u0041", b"\\u", b"\\n", b"\\\\", b'\\"', b"u", b"b", b" ", b",", b":", b"{", b"}", b"[", b"]", b"\x0b", b"\xa0"]


def gen_bytes(rnd, maxlen=12):
    mode = rnd.random()
    n = rnd.choice([0, 1, 1, 2, 3, 5, 8, maxlen])
    if mode < 0.45:
        return b"".join(rnd.choice(SPECIAL) for _ in range(n))
    if mode < 0.75:
        return bytes(rnd.randrange(256) for _ in range(n))
    if mode < 0.9:
        return bytes(rnd.choice(b"abcxyz012 _-") for _ in range(n))
    return bytes(rnd.choice(b'"\\\x00\n') for _ in range(n))


INT_POOL = [0, 1, -1, 9, 10, -10, 99, 100, 255, 256, 65535, 2 ** 31 - 1, -2 ** 31, 2 ** 31, 2 ** 32, 10 ** 18, -10 ** 18, 999999999999999999,
            1000000000000000000, I64MAX, I64MAX - 1, I64MIN, I64MIN + 1, 922337203685477580, 922337203685477581, -922337203685477580]


def gen_int(rnd):
    r = rnd.random()
    if r < 0.5:
        return rnd.choice(INT_POOL)
    if r < 0.8:
        return rnd.randrange(-1000, 1000)
    return rnd.randrange(I64MIN, I64MAX + 1)


def gen_int_leaf(rnd):
    r = rnd.random()
    if r < 0.7:
        return ("I", gen_int(rnd))
    if r < 0.8:
        return ("J", rnd.choice([0, 1, -1, 2 ** 31 - 1, -2 ** 31, rnd.randrange(-2 ** 31, 2 ** 31)]))
    if r < 0.85:
        return ("H", rnd.choice([0, -1, 32767, -32768, rnd.randrange(-32768, 32768)]))
    if r < 0.9:
        return ("L", gen_int(rnd))
    if r < 0.95:
        return ("U", rnd.choice([0, 1, 2 ** 32 - 1, 2 ** 31, rnd.randrange(0, 2 ** 32)]))
    return ("Y", rnd.choice([0, -1, 127, -128, rnd.randrange(-128, 128)]))


FLOAT_POOL = [0.0, -0.0, 1.0, -1.0, 0.5, 1.5, -2.25, 0.1, 1e-6, 1e-7, 123456.789, 1e10, 1e15, 1e22, 1e100, 1.7976931348623157e308, 5e-324,
              3.141592653589793, -1e-3, 2.5e-5, 4503599627370496.5, 0.000001, 0.0000005, 999999.9999995]


def gen_tree(rnd, depth, width, floats=False, intkinds=True):
    r = rnd.random()
    if depth <= 0 or r < 0.35:
        k = rnd.random()
        if k < 0.1:
            return ("N",)
        if k < 0.2:
            return (rnd.choice("TF"),)
        if k < 0.5:
            return gen_int_leaf(rnd) if intkinds else ("I", gen_int(rnd))
        if floats and k < 0.7:
            return ("D", rnd.choice(FLOAT_POOL) if rnd.random() < 0.7 else rnd.uniform(-1e6, 1e6))
        return ("S", gen_bytes(rnd))
    n = rnd.choice([0, 1, 2, 3, width, width])
    if r < 0.68:
        return ("V", [gen_tree(rnd, depth - 1, width, floats, intkinds) for _ in range(n)])
    keys = set()
    while len(keys) < n:
        keys.add(gen_bytes(rnd, 6))
    keys = sorted(keys)
    if rnd.random() < 0.2:
        rnd.shuffle(keys)
    return ("M", [(k, gen_tree(rnd, depth - 1, width, floats, intkinds)) for k in keys])


def has_container(t):
    return t[0] in "VM" and len(t[1]) > 0


# ---------------------------------------------------------------------------- texts
WS_POOL = [b"", b"", b" ", b"\n", b"\t", b"\r", b"\x0b", b"\x0c", b"  ", b" \n\t", b"\r\n"]
ESC = {0x22: b'\\"', 0x5c: b"\\\\", 0x08: b"\\b", 0x0c: b"\\f", 0x0a: b"\\n", 0x0d: b"\\r", 0x09: b"\\t"}


def emit_string(rnd, s, loose):
    out = bytearray(b'"')
    for c in s:
        if c in ESC and (not loose or c in (0x22, 0x5c) or rnd.random() < 0.7):
            out += ESC[c]
        elif c == 0x2f and loose and rnd.random() < 0.5:
            out += b"\\/"
        else:
            out.append(c)
        if loose and rnd.random() < 0.05:
            out += rnd.choice([b"\\u00e9", b"\\uABCD", b"\\u12", b"\\uZZZZ", b"\\q", b"\\0", b"\\x41", b"\\u123", b"\\U0041"])
    out += b'"'
    return bytes(out)


def emit_float(rnd, x):
    if x != x or x in (math.inf, -math.inf):
        return rnd.choice([b"1e999", b"-1e999", b"0e999"])
    forms = ["%f" % x, repr(x), "%e" % x, "%E" % x, "%.3f" % x, "%g" % x]
    s = rnd.choice(forms)
    if "inf" in s or "nan" in s:
        s = "1.0"
    return s.encode()


def emit(rnd, t, loose, depth=1):
    ws = (lambda: rnd.choice(WS_POOL)) if loose else (lambda: b"")
    k = t[0]
    if k == "N":
        return b"null"
    if k in "TF":
        return b"true" if k == "T" else b"false"
    if k in "IJHLUY":
        s = str(t[1]).encode()
        if loose and rnd.random() < 0.1:
            s = rnd.choice([s + b"e0", s + b"E2", s + b".0", s + b"e+1", s + b"e-1", b"0" + s.lstrip(b"-"), s + b"."])
        return s
    if k == "D":
        return emit_float(rnd, t[1])
    if k == "S":
        return emit_string(rnd, t[1], loose)
    if k == "V":
        return b"[" + ws() + (b"," + ws()).join(emit(rnd, x, loose, depth + 1) + ws() for x in t[1]) + b"]"
    if k == "M":
        parts = []
        for key, x in t[1]:
            parts.append(ws() + emit_string(rnd, key, loose) + ws() + b":" + ws() + emit(rnd, x, loose, depth + 1) + ws())
        return b"{" + ws() + b",".join(parts) + b"}"
    raise ValueError(k)


NUMBER_SPELLINGS = ["-", "-0", "0", "00", "1e", "1e+", "1e-", "1E", "1.", ".5", "1.2.3", "-.5", "1..2", "1e5", "1e+5", "1e-5", "1E5", "1e5e5", "1e5.5",
                    "1.5e3", "1.e3", "-1.5E-3", "1e", "e5", "+1", "--1", "-+1", "1-", "1+", "0x10", "1x", "1 x", "12a", "1e5x", "1e 5", "1e,", "1e]",
                    "9223372036854775807", "9223372036854775808", "-9223372036854775808", "-9223372036854775809", "18446744073709551615",
                    "18446744073709551616", "99999999999999999999", "-99999999999999999999", "100000000000000000000", "12345678901234567890",
                    "00000000000000000000001", "1e9223372036854775807", "1e9223372036854775808", "1e-9223372036854775809", "1e99999999999999999999",
                    "1e308", "1e309", "1e-324", "1e-400", "1e999", "-1e999", "0e999", "0.0e999", "1.7976931348623157e308", "2.2250738585072014e-308",
                    "4.9e-324", "0.1", "0.10", "0.30000000000000004", "123456789012345678901234567890.5", "0.000000000000000000000000000001",
                    "1e22", "1e23", "1e-22", "5e-1", "-0.0", "-0e0", "-0.0e-0", "3.", "3.e", "3.e+", "1e+-5", "1e-+5", "1e--5"]
NUMBER_CONTEXTS = ["%s", " %s", "%s ", "[%s]", "[%s", "[%s,", "[%s, 1]", "[%s ]", "[%s\n]", "{\"a\":%s}", "{\"a\":%s", "{\"a\":%s ,\"b\":2}", "{%s:1}", "[%s}",
                   "%s,", "%s]", "%s}", "%s\t", "[1,%s]", "[%s%s]"]
SMALL_DOCS = [b'{"a" : [1, -2, true, false, null, "x\\n\\"\\\\"], "b" : {}}', b"[[], {}, [[]], {\"\":[]}]", b' \n\t{ "k" : "v" , "k" : 2 , 3 : 4 }  ',
              b'{\n  "a" : 1,\n  "b" : [-5, "q\\"", {\n\n    }, []]\n}', b'["\\u0041\\u00e9\\uD83D\\uDE00", "\\q\\/\\b\\f\\r\\t", "\\u12"]',
              b"[1.5, 1e5, -2.5e-3, 10E+2]", b"true", b"false", b"null", b'"s"', b"-12", b"[tru]", b"[nul]", b"[fals]", b"nulll", b"truefalse",
              b'{"a":{"b":{"c":{"d":[[[["deep"]]]]}}}}', b'{"a" 1}', b'{"a":1 "b":2}', b"[1 2]", b"[1,]", b"[,1]", b"{,}", b'{"a":}', b"[1,,2]",
              b'{"a":1,}', b'{"a":1,', b"[1,", b'"unterminated', b'"esc\\', b'"esc\\u', b'"esc\\u00', b'"esc\\u004', b'"esc\\u0041', b"\\", b"'a'",
              b"\xef\xbb\xbf[1]", b"[1]\x00", b"\x00", b"[\x00]", b"{\"a\x00b\":\"c\x00d\"}", b"[\"\x80\xff\"]", b"\xa0[1]", b"\x85 1"]


def gen_texts(rnd, n_valid, n_mut, n_rand):
    out = []
    valid = []
    for i in range(n_valid):
        t = gen_tree(rnd, rnd.choice([0, 1, 2, 3, 4, 5]), rnd.choice([1, 2, 3, 5]), floats=(i % 3 == 0), intkinds=False)
        valid.append(emit(rnd, t, loose=(i % 2 == 0)))
    out += [("valid", v) for v in valid]
    pool = valid + SMALL_DOCS
    alphabet = b'[]{}:,"\\ \n\t\r-+.eE0123456789truefalsn/ubx\x00\x80\xff'
    for _ in range(n_mut):
        b = bytearray(rnd.choice(pool))
        for _ in range(rnd.choice([1, 1, 1, 2, 3])):
            op = rnd.random()
            pos = rnd.randrange(len(b) + 1)
            if op < 0.3 and b:
                b[pos % len(b)] = rnd.choice(alphabet) if rnd.random() < 0.8 else rnd.randrange(256)
            elif op < 0.5:
                b.insert(pos, rnd.choice(alphabet))
            elif op < 0.7 and b:
                del b[pos % len(b)]
            elif op < 0.85:
                b = b[:pos]
            elif b:
                a = rnd.randrange(len(b))
                z = min(len(b), a + rnd.randrange(1, 8))
                b[pos:pos] = b[a:z]
        out.append(("mutated", bytes(b)))
    for _ in range(n_rand):
        n = rnd.choice([0, 1, 2, 3, 5, 8, 13, 21, 40])
        if rnd.random() < 0.7:
            out.append(("random", bytes(rnd.choice(alphabet) for _ in range(n))))
        else:
            out.append(("random", bytes(rnd.randrange(256) for _ in range(n))))
    return out


def fixed_texts(tier):
    out = []
    for d in SMALL_DOCS:
        out.append(("small", d))
    for d in SMALL_DOCS[:12] + [b'{"a":[1,{"b":null}],"c":"\\u0041x"}', b"[-9223372036854775808, 1e5 , 0.5]"]:
        for i in range(len(d) + 1):
            out.append(("truncated", d[:i]))
    for sp in NUMBER_SPELLINGS:
        for ctx in NUMBER_CONTEXTS:
            out.append(("number", (ctx.replace("%s", sp)).encode()))
    wsb = [b" ", b"\t", b"\n", b"\x0b", b"\x0c", b"\r", b"\xa0", b"\x85", b"\x00", b"\x1c", b"\x1f", b"\x08"]
    for w in wsb:
        for d in (b"%s1", b"1%s", b"[%s]", b"[%s1%s,%s2%s]", b"{%s}", b'{%s"a"%s:%s1%s}', b"%s", b"%s%s", b'"%s"', b"tru%se", b"[1%s2]", b"-%s1", b"1%se5"):
            out.append(("whitespace", d.replace(b"%s", w)))
    for c in range(256):
        out.append(("escape", b'"\\' + bytes([c]) + b'x"'))
        out.append(("byte", bytes([c])))
        out.append(("byte", b"[" + bytes([c]) + b"]"))
    for h in (b"0041", b"00e9", b"abcd", b"ABCD", b"d83d", b"000", b"00g0", b"g000", b"000g", b"", b"0", b"00", b"0041\\u0042", b"00 1", b'"'):
        out.append(("escape", b'"\\u' + h + b'"'))
        out.append(("escape", b'["\\u' + h))
    return out


def deep_texts(tier):
    out = []
    ns = [10, 100, 511, 512, 513, 20000, 100000] if tier == "quick" else [10, 100, 510, 511, 512, 513, 514, 1000, 5000, 20000, 100000, 1000000]
    for n in ns:
        out.append(("deep", b"[" * n))
        if n <= 5000:
            out.append(("deep", b"[" * n + b"]" * n))
            out.append(("deep", b"[" * n + b"1" + b"]" * n))
            out.append(("deep", b"[" * (n - 1) + b'"s"' + b"]" * (n - 1)))
            out.append(("deep", b'{"a":' * n + b"null" + b"}" * n))
            out.append(("deep", b'{"a":' * (n - 1) + b"7" + b"}" * (n - 1)))
            out.append(("deep", (b'[{"k":' * (n // 2)) + b"[]" + (b"}]" * (n // 2))))
            out.append(("deep", b"[" * n + b"]" * (n - 1)))
            out.append(("deep", b" [" * n + b" ]" * n))
        else:
            out.append(("deep", b'{"a":' * n))
            out.append(("deep", b'[{"":' * (n // 2)))
    return out


# ---------------------------------------------------------------------------- floats (python-side, partial)
def pn_double(val):
    t, dp = 0.0, 0.0
    for c in val:
        if c == 0x2e:
            dp = 10.0
        elif 0x30 <= c <= 0x39:
            d = float(c - 48)
            if dp < 10:
                t = t * 10.0
                t = t + d
            else:
                t = t + d / dp
                dp = dp * 10.0
    return t


def pow10(e):
    try:
        return math.pow(10.0, float(e))
    except OverflowError:
        return math.inf


def fspec_value(tok):
    """model token dD:<neg>:<hex val>:<exp> / dI:<neg>:<m>:<exp> -> the double the C++ expression computes"""
    f = tok.split(":")
    sign = -1.0 if f[1] == "1" else 1.0
    e = int(f[3])
    base = pn_double(vlib.unhex(f[2])) if f[0] == "dD" else float(int(f[2]))
    return sign * base * pow10(e)


def same_double(a, b):
    if a != a or b != b:
        return a != a and b != b
    return struct.pack(">d", a) == struct.pack(">d", b)


def tokens_match(impl, model):
    """impl tokens vs model tokens; model float specs are evaluated here"""
    if len(impl) != len(model):
        return False
    for i, m in zip(impl, model):
        if m.startswith("d"):
            if not i.startswith("D"):
                return False
            if not same_double(struct.unpack(">d", bytes.fromhex(i[1:]))[0], fspec_value(m)):
                return False
        elif i != m:
            return False
    return True


def close(x, y):
    if x != x or y != y or x in (math.inf, -math.inf) or y in (math.inf, -math.inf):
        return False
    d = abs(x - y)
    return d <= 1e-6 or d <= 1e-6 * abs(x)


def float_close(a, b):
    """same structure; doubles within 1e-6 absolute or relative"""
    if a[0] != b[0]:
        return False
    k = a[0]
    if k == "D":
        return close(a[1], b[1])
    if k == "V":
        return len(a[1]) == len(b[1]) and all(float_close(x, y) for x, y in zip(a[1], b[1]))
    if k == "M":
        return len(a[1]) == len(b[1]) and all(ka == kb and float_close(x, y) for (ka, x), (kb, y) in zip(a[1], b[1]))
    return a == b


def nonfinite_in(t):
    k = t[0]
    if k == "D":
        return t[1] != t[1] or t[1] in (math.inf, -math.inf)
    if k == "V":
        return any(nonfinite_in(x) for x in t[1])
    if k == "M":
        return any(nonfinite_in(x) for _, x in t[1])
    return False


def canon_map_tree(t):
    """python tree as std::map would hold it (sorted, first insert wins), ints as I"""
    k = t[0]
    if k in "IJHLUY":
        return ("I", t[1])
    if k == "V":
        return ("V", [canon_map_tree(x) for x in t[1]])
    if k == "M":
        d = {}
        for key, x in t[1]:
            d.setdefault(key, canon_map_tree(x))
        return ("M", sorted(d.items()))
    return t


# ---------------------------------------------------------------------------- running
def segs(line):
    return [s.split(" ") for s in line.split(" | ")]


def compare(case, impl, model):
    """tie: implementation observation == mechanism-model observation"""
    if impl.startswith("SIG(") or impl.startswith("EXIT("):
        return False
    si, sm = segs(impl), segs(model)
    if case.startswith("from "):
        if len(sm) == 1 and sm[0][0].startswith(("ERR(", "STUCK(", "BADCASE")):
            return impl == model
        if not tokens_match(si[0], sm[0]):
            return False
        if len(sm) == 3:
            return len(si) == 3 and si[1] == sm[1] and si[2] == sm[2]
        return True
    return impl == model


def judge(c, case, kind, impl, verdict, known_nonfinite):
    """oracle: verdict of the extracted specification (+ python tolerance for doubles)"""
    def bad(what):
        c.fail(what, {"case": case if len(case) < 400000 else case[:4000] + "...", "kind": kind, "impl": impl[:2000], "spec_verdict": verdict,
                      "format": "from <hex text> | rt <tree>; tree tokens N T F I<int> S<hex> D<double bits> V<n> M<n> K<hex key>"})
    if impl.startswith("SIG(") or impl.startswith("EXIT("):
        return bad("the process died (signal / sanitizer report) instead of returning a value or throwing")
    if verdict in ("OK", "NOSPEC"):
        return
    if verdict.startswith("FLOAT"):
        s = segs(impl)
        try:
            if case.startswith("from "):
                t1 = parse_tokens(s[0])
            else:
                t1 = canon_map_tree(parse_tokens_in(case.split(" ")[1:]))
            if nonfinite_in(t1):
                c.dist["quirk:non-finite double does not round-trip"] = c.dist.get("quirk:non-finite double does not round-trip", 0) + 1
                if known_nonfinite:
                    c.fail("non-finite double", {"case": case}, finding_key=NONFINITE_KEY)
                return
            if verdict == "FLOAT-ERR":
                return bad("a value with finite doubles did not survive to_json/from_json")
            t2 = parse_tokens(s[-1])
            if not float_close(t1, t2):
                return bad("doubles differ by more than 1e-6 (absolute and relative) after to_json/from_json")
            c.dist["float_tolerance_checked"] = c.dist.get("float_tolerance_checked", 0) + 1
        except (ValueError, IndexError) as ex:
            return bad("unreadable observation: %s" % ex)
        return
    return bad(verdict)


def parse_tokens_in(toks):
    """input-tree tokens (with J/H/L/U/Y ints) -> python tree"""
    return parse_tokens([("I" + t[1:]) if t[0] in "JHLUY" else t for t in toks])


def run_model(binp, lines):
    """the extracted programs recurse once per input byte: give them a large native stack"""
    return vlib.run_lines("/bin/bash", lines, timeout=3000, args=["-c", "ulimit -s 4000000 2>/dev/null || ulimit -s unlimited; exec '%s'" % binp])


def run(c, cases, hbin, mbin, sbin, model_skip=lambda case: False):
    lines = [x[1] for x in cases]
    rc, impl, err = vlib.run_lines(hbin, lines, timeout=3000, env={"ASAN_OPTIONS": "detect_leaks=0:abort_on_error=1", "UBSAN_OPTIONS": "print_stacktrace=0"})
    if len(impl) != len(lines):
        raise vlib.BuildError("h_json produced %d lines for %d cases\n%s" % (len(impl), len(lines), err[-2000:]))
    rc3, verdicts, err3 = run_model(sbin, ["%s => %s" % (l, i) for l, i in zip(lines, impl)])
    if len(verdicts) != len(lines):
        raise vlib.BuildError("m_jsonspec produced %d lines for %d cases\n%s" % (len(verdicts), len(lines), err3[-2000:]))
    model = [None] * len(lines)
    if mbin:
        idx = [k for k, l in enumerate(lines) if not model_skip(cases[k])]
        rc2, mo, err2 = run_model(mbin, [lines[k] for k in idx])
        if len(mo) != len(idx):
            raise vlib.BuildError("m_json produced %d lines for %d cases\n%s" % (len(mo), len(idx), err2[-2000:]))
        for k, o in zip(idx, mo):
            model[k] = o
    known_nonfinite = any(e.get("key") == NONFINITE_KEY for e in vlib.known_findings("C18"))
    ndis = 0
    seen = set()
    for (kind, line), i, m, v in zip(cases, impl, model, verdicts):
        c.cov["evaluations"] += 1
        c.dist[kind] = c.dist.get(kind, 0) + 1
        o = "ERR" if i.startswith("ERR(") else "died" if i.startswith(("SIG(", "EXIT(")) else "value"
        c.dist["outcome:" + o] = c.dist.get("outcome:" + o, 0) + 1
        if i.startswith("ERR("):
            c.dist["outcome:" + i] = c.dist.get("outcome:" + i, 0) + 1
        if len(line) > 12 and line not in seen:
            seen.add(line)
        if m is not None:
            c.cov["disagreements_checked"] += 1
            if m.startswith("STUCK(") or m == "BADCASE" or not compare(line, i, m):
                ndis += 1
                if ndis <= 10:
                    c.disagree("json:" + kind, line if len(line) < 3000 else line[:3000] + "...", i[:1500], m[:1500])
        judge(c, line, kind, i, v, known_nonfinite)
    c.failures.sort(key=lambda f: len(f["case"].get("case", "")))     # the replay leads with the smallest failing input
    c.cov["distinct_nontrivial"] += len(seen)
    c.cov["traces_validated_against_impl"] += sum(1 for m in model if m is not None)
    return impl, model, verdicts


def build_cases(tier, seed):
    rnd = random.Random(seed * 1000003 + 18)
    q = tier == "quick"
    cases = []
    # (b)+(c) value trees: to_json text vs model dump, round trip vs specification
    n_trees = 2500 if q else 120000
    for i in range(n_trees):
        t = gen_tree(rnd, rnd.choice([0, 1, 2, 3, 4, 5]), rnd.choice([1, 2, 3, 4, 5]))
        cases.append(("tree", "rt " + " ".join(tree_tokens(t))))
    for s in [bytes([b]) for b in range(256)] + [b"\\u00" + ("%02x" % b).encode() for b in range(0, 256, 17)]:
        cases.append(("tree-string", "rt S" + hx(s)))
        cases.append(("tree-string", "rt M1 K%s S%s" % (hx(s), hx(s + s))))
    for z in INT_POOL + [10 ** k for k in range(19)] + [-(10 ** k) for k in range(19)] + [10 ** k - 1 for k in range(1, 19)]:
        cases.append(("tree-int", "rt I%d" % z))
        cases.append(("tree-int", "rt V2 I%d I%d" % (z, -z if z != I64MIN else z)))
    # doubles: implementation-only tolerance test (partial)
    for i in range(300 if q else 20000):
        t = gen_tree(rnd, rnd.choice([0, 1, 2, 3]), 3, floats=True)
        cases.append(("tree-float", "rt " + " ".join(tree_tokens(t))))
    for x in FLOAT_POOL:
        cases.append(("tree-float", "rt D" + struct.pack(">d", x).hex()))
    # (a) texts
    for kind, b in fixed_texts(tier):
        cases.append((kind, "from " + hx(b)))
    nv, nm, nr = (600, 2500, 800) if q else (60000, 300000, 80000)
    for kind, b in gen_texts(rnd, nv, nm, nr):
        cases.append((kind, "from " + hx(b)))
    # (d) deep nesting
    for kind, b in deep_texts(tier):
        cases.append((kind, "from " + hx(b)))
    return cases


def model_skip(case):
    kind, line = case
    if kind == "tree-float":
        return True        # dump of a double is not modelled
    if kind != "deep":
        return False
    # dump() of an n-deep object is n^2 bytes of padding and the model reads by index from the start (quadratic):
    # objects deeper than ~150 and the 10^6-byte texts are judged on the implementation + specification only
    return len(line) > 700000 or ("7b" in line[:16] and len(line) > 2200)


def binaries(c=None):
    hbin = vlib.cxx_build("h_json", flavor=FLAVOR, extra=EXTRA)
    sbin = vlib.model_build("jsonspec", ["theories/JsonSpecRun.vo"])
    try:
        mbin = vlib.model_build("json", ["theories/JsonRun.vo"])
    except vlib.BuildError as ex:
        if c is None:
            raise
        mbin = None
        c.broken_ties.append(("correspondence", "json: the mechanism model no longer builds", str(ex)[-1500:]))
    return hbin, mbin, sbin


def warm():
    binaries()


def corpus_cases():
    out = []
    for l in open(os.path.join(vlib.ROOT, "corpus", "C18.txt")):
        l = l.strip()
        if l and not l.startswith("#"):
            out.append(("corpus", l))
    return out


def history_family(c, tier, seed, hbin):
    """from_json is a function of its text: what it returns for a text must not depend on the texts it was given before (rejected
    over-deep texts, malformed texts, valid texts).  Each history runs in one process; every probe is also run alone in a fresh process."""
    rnd = random.Random(seed * 131 + 18)
    deep = [b"[" * 5000, b'{"a":' * 3000, b"[" * 513 + b"]" * 513, b"[" * 600]
    junk = [b'{"a" 1}', b"[1,,2]", b'"abc', b"[", b'{"k":[1,2', b"\\", b'[1e999]']
    valid = [b'{"a":[1,2,{"b":null}]}', b"[[[[1]]]]", b'"x"', b"[]"]
    probes = [b'{"a":[1,[2,[3]]]}', b"[" * 300 + b"]" * 300, b"[" * 511 + b"7" + b"]" * 511, b"[" * 512 + b"]" * 512, b'{"a":' * 200 + b"1" + b"}" * 200, b"[1,2,3]"]
    alone = {}
    for p in probes:
        rc, res, err = vlib.run_lines(hbin, ["seq " + hx(p)], timeout=120)
        alone[p] = res[0] if res else "?"
    lengths = [1, 2, 5, 20, 100] + ([600, 1500] if tier == "thorough" else [520])
    lines, metas = [], []
    for n in lengths:
        for kind in ("deep", "junk", "valid", "mixed"):
            pre = [rnd.choice({"deep": deep, "junk": junk, "valid": valid, "mixed": deep + junk + valid}[kind]) for _ in range(n)]
            lines.append("seq " + " ".join(hx(x) for x in pre + probes))
            metas.append((kind, n))
    rc, res, err = vlib.run_lines(hbin, lines, timeout=1200)
    for (kind, n), line, r in zip(metas, lines, res):
        c.cov["evaluations"] = c.cov.get("evaluations", 0) + 1
        c.dist["history:" + kind] = c.dist.get("history:" + kind, 0) + 1
        obs = r.split(" ; ")
        if r.startswith("SIG(") or r.startswith("EXIT(") or len(obs) != n + len(probes):
            c.fail("the host died or lost an answer in a history of from_json calls", {"case": "%d %s texts, then the probes" % (n, kind), "observed": r[:200]})
            continue
        for p, o in zip(probes, obs[n:]):
            if o != alone[p]:
                c.fail("from_json answers differently for the same text after earlier calls",
                       {"case": "history: %d %s texts, then `%s`" % (n, kind, (p[:40] + b"...").decode("latin-1") if len(p) > 40 else p.decode("latin-1")),
                        "in_history": o[:120], "alone": alone[p][:120], "history_kind": kind, "length": n})
                break


def check(tier, seed):
    c = vlib.Check("C18", tier, seed)
    c.cov["rule"] = ("cases = `from <text>` (arbitrary / valid / truncated / mutated texts, number spellings x contexts, whitespace and escape bytes, deep nesting) "
                     "and `rt <tree>` (value trees depth<=5 width<=5, strings over all 256 byte values, int64 boundaries, integer box kinds); "
                     "distinct = distinct case lines; non-trivial = the case line is longer than 12 characters (more than a 3-byte text / a one-token tree)")
    c.assumptions = ["the Coq port of JSONParser/dump/json_escape/json_wrap (JsonDefs.v) is tied to the C++ by this run's correspondence, not by a translator",
                     "std::string::at/substr throw std::out_of_range exactly when the index exceeds the size (libstdc++); std::map<std::string,..> iterates in unsigned-byte lexicographic order",
                     "signed overflow in chaiscript::parse_num<int64_t> and `-1 * INT64_MIN` wraps (two's complement, as g++ compiles it); the harness disables only UBSan's signed-integer-overflow check; "
                     "the model writes the wrap explicitly (wrap64)",
                     "::isspace is the C-locale classification (the harness never calls setlocale)",
                     "doubles: value and %f text are outside the Coq model (C18 partial for floating point); tied here by a Python re-computation and a 1e-6 tolerance test",
                     "nesting deeper than Depth_Guard::max_depth = 512 is refused by from_json, so the round-trip law is stated for trees of height <= 512",
                     "extraction: ExtrOcamlBasic + ExtrOcamlString, no Extract Constant; OCaml driver does line I/O only"]
    c.prove("Properties_C18", translators=[])
    hbin, mbin, sbin = binaries(c)
    cases = corpus_cases() + build_cases(tier, seed)
    impl, model, verdicts = run(c, cases, hbin, mbin, sbin, model_skip)
    history_family(c, tier, seed, hbin)
    want = {"tree": 2, "valid": 1, "mutated": 1, "number": 1, "deep": 1}
    for k, (kind, line) in enumerate(cases):
        if want.get(kind, 0) > 0 and len(line) < 600:
            want[kind] -= 1
            c.sample({"case": line, "impl": impl[k][:600], "model": (model[k] or "")[:600], "spec_verdict": verdicts[k]}, limit=8)
    return c.finish()


def replay(path):
    r = json.load(open(os.path.join(vlib.ROOT, path) if not os.path.isabs(path) else path))
    if r.get("kind") != "failing-input":
        print("tie-broken replay: the following no longer check:", json.dumps(r.get("no_longer_checks"), indent=1)[:6000])
        return 1
    hbin, mbin, sbin = binaries()
    case = r["failure"]["case"]["case"]
    if case.endswith("..."):
        print("case was truncated in the replay file; rerun the check")
        return 1
    c = vlib.Check("C18", "replay", 0)
    impl, model, verdicts = run(c, [("replay", case)], hbin, mbin, sbin)
    print("case:", case, "\nimpl:", impl[0][:2000], "\nmodel:", (model[0] or "")[:2000], "\nspec verdict:", verdicts[0])
    bad = bool(c.failures)
    print("REPRODUCED" if bad else "not reproduced")
    return 1 if bad else 0
