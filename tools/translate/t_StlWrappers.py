"""Translator: bootstrap_stl.hpp (+ chaiscript_stdlib.hpp roots, prelude string helpers) -> G_StlWrappers.v

For every function the container concepts register, extract the *wrapper kind* (direct member pointer,
lambda with emptiness guard + throw, .at() lambda, range-checked helper with its exact comparison,
plain forwarding lambda, detail:: helper, script definition, Bidir_Range method), the C++ parameter
types, the order in which they are forwarded and the underlying std:: operation.  Anything that is
not one of the recognised shapes raises Shape (reported as a broken tie)."""
import os, re
from cxxshape import *

BOXED_ELEMS = {"KVector": True, "KList": True, "KString": False, "KMap": False}   # value_type == Boxed_Value ?
BOXED_MAPPED = {"KMap": True}

# std:: member name -> (stdop, parameters when the source does not spell a signature)
SEQ_MEMBERS = {
    "front": ("OFront", []), "back": ("OBack", []), "push_back": ("OPushBack", ["PElem"]), "push_front": ("OPushFront", ["PElem"]),
    "pop_back": ("OPopBack", []), "pop_front": ("OPopFront", []), "at": ("OAtCast", ["PSize"]), "operator[]": ("OIndexCast", ["PSize"]),
    "reserve": ("OReserve", ["PSize"]), "capacity": ("OCapacity", []), "size": ("OSize", []), "empty": ("OEmpty", []),
    "clear": ("OClear", []), "find": ("OFind", None), "rfind": ("ORFind", None), "find_first_of": ("OFindFirstOf", None),
    "find_last_of": ("OFindLastOf", None), "find_first_not_of": ("OFindFirstNotOf", None), "find_last_not_of": ("OFindLastNotOf", None),
    "substr": ("OSubstr", None), "c_str": ("OCStr", []), "data": ("OData", []),
}
MAP_MEMBERS = {"operator[]": ("OMapIndex", ["PKey"]), "at": ("OMapAt", ["PKey"]), "count": ("OMapCount", ["PKey"]),
               "erase": ("OMapEraseKey", ["PKey"]), "size": ("OSize", []), "empty": ("OEmpty", []), "clear": ("OClear", [])}
PAIR_MEMBERS = {"first": "OFirst", "second": "OSecond"}

IGNORED_CALLS = [r"copy_constructor<\w+>\(.*, m\)", r"basic_constructors<\w+>\(.*, m\)", r"operators::assign<\w+>\(m\)",
                 r"operators::addition<\w+>\(m\)", r"operators::assign_sum<\w+>\(m\)", r"opers_comparison<\w+>\(m\)"]


class Ctx:
    def __init__(self, tname, kind, regname, parent_tparam=None):
        self.tparam, self.kind, self.regname = tname, kind, regname


def split_args(s):
    """split a comma separated list at depth 0 (parens, angle brackets, braces, brackets)"""
    out, depth, cur, i = [], 0, "", 0
    while i < len(s):
        c = s[i]
        if c in "\"'":
            j = i + 1
            while j < len(s) and s[j] != c:
                j += 2 if s[j] == "\\" else 1
            cur += s[i:j + 1]
            i = j + 1
            continue
        if c in "([{":
            depth += 1
        elif c in ")]}":
            depth -= 1
        elif c == "<" and re.search(r"[\w:>]$", cur.rstrip()) and not re.search(r"\b(pos|distance\(.*\))\s*$", cur):
            depth += 1
        elif c == ">" and depth > 0 and not cur.endswith("-") and s[i - 1] != "-":
            depth -= 1
        if c == "," and depth == 0:
            out.append(cur.strip())
            cur = ""
        else:
            cur += c
        i += 1
    if cur.strip():
        out.append(cur.strip())
    return out


def classify_param(decl, T, where):
    """C++ parameter declaration -> ('self', const) | ('p', pty, name)"""
    d = norm(decl)
    m = re.fullmatch(r"(const )?%s ?([&*]) ?(\w+)" % re.escape(T), d)
    if m:
        return ("selfish", bool(m.group(1)), m.group(3))
    m = re.fullmatch(r"int (\w+)", d)
    if m:
        return ("p", "PInt", m.group(1))
    m = re.fullmatch(r"(?:size_t|typename %s::size_type) (\w+)" % re.escape(T), d)
    if m:
        return ("p", "PSize", m.group(1))
    m = re.fullmatch(r"(?:const typename %s::value_type ?& ?|typename %s::value_type |typename %s::const_reference ?)(\w+)" % ((re.escape(T),) * 3), d)
    if m:
        return ("p", "PElem", m.group(1))
    m = re.fullmatch(r"const typename %s::key_type ?& ?(\w+)" % re.escape(T), d)
    if m:
        return ("p", "PKey", m.group(1))
    raise Shape("%s: unrecognised parameter %r" % (where, d))


def params_of(plist, T, where):
    """-> (self_const, self_name, [(pty, name)])"""
    ps = [classify_param(p, T, where) for p in split_args(plist)]
    if not ps or ps[0][0] != "selfish":
        raise Shape("%s: first parameter is not the container" % where)
    out = []
    for p in ps[1:]:
        if p[0] == "selfish":
            if not p[1]:
                raise Shape("%s: second container parameter is not const" % where)
            out.append(("PSelfTy", p[2]))
        else:
            out.append((p[1], p[2]))
    return ps[0][1], ps[0][2], out


def member_sig(alias, T, where):
    """`Ret (T::*)(params) [const]` -> (const, [pty])"""
    m = re.fullmatch(r"(.+?)\(%s::\*\)\((.*)\)( const)?" % re.escape(T), norm(alias))
    if not m:
        raise Shape("%s: unrecognised member-pointer type %r" % (where, alias))
    ptys = []
    for p in split_args(m.group(2)):
        c = classify_param(p + " x", T, where)
        ptys.append("PSelfTy" if c[0] == "selfish" else c[1])
    return bool(m.group(3)), ptys


def stdop_for(kind, member, nparams, where):
    if kind == "KMap":
        if member not in MAP_MEMBERS:
            raise Shape("%s: unknown std::map member %r" % (where, member))
        return MAP_MEMBERS[member][0]
    if kind == "KPair":
        raise Shape("%s: unexpected member function %r of a pair" % (where, member))
    if member == "resize":
        return {1: "OResize", 2: "OResizeVal"}.get(nparams) or _raise(Shape("%s: resize with %d arguments" % (where, nparams)))
    if member not in SEQ_MEMBERS:
        raise Shape("%s: unknown sequence member %r" % (where, member))
    return SEQ_MEMBERS[member][0]


def _raise(e):
    raise e


def argmap(call_args, params, where):
    names = [n for _, n in params]
    out = []
    for a in call_args:
        a = norm(a)
        if a not in names:
            raise Shape("%s: argument %r is not a parameter" % (where, a))
        out.append("AP %d" % names.index(a))
    return out


EMPTY_THROW = r"if \((\w+)(?:\.|->)empty\(\)\) \{ throw std::range_error\(\"[^\"]*\"\); \}"


def parse_lambda(text, ctx, where):
    """`[](params) [-> ret] { body }` -> dict(const, params, wkind, guard, op, args)"""
    m = re.match(r"\[\]\s*\(", text)
    if not m:
        raise Shape("%s: not a capture-less lambda: %r" % (where, text[:50]))
    pe = paren_end(text, m.end() - 1)
    plist = text[m.end():pe - 1]
    bi = text.find("{", pe)
    body, end = brace_block(text, bi)
    if text[end:].strip():
        raise Shape("%s: text after lambda body" % where)
    const, selfn, params = params_of(plist, ctx.tparam, where)
    b = norm(body)
    acc = r"%s(?:\.|->)" % re.escape(selfn)
    # c.at(static_cast<size_type>(index))
    m = re.fullmatch(r"return %sat\(static_cast<typename %s::size_type>\((\w+)\)\);" % (acc, re.escape(ctx.tparam)), b)
    if m:
        return dict(const=const, params=params, wkind="WAtLambda", guard="GNone", op="OAtCast", args=argmap([m.group(1)], params, where))
    m = re.fullmatch(r"return %s\[(?:static_cast<typename %s::size_type>\((\w+)\)|(\w+))\];" % (re.escape(selfn), re.escape(ctx.tparam)), b)
    if m:
        return dict(const=const, params=params, wkind="WForwardLambda", guard="GNone", op="OIndexCast",
                    args=argmap([m.group(1) or m.group(2)], params, where))
    # emptiness guard + throw, else forward
    m = re.fullmatch(EMPTY_THROW + r" else \{ (?:return \(%s(\w+)\(\)\)|%s(\w+)\(\)); \}" % (acc, acc), b)
    if m:
        if m.group(1) != selfn:
            raise Shape("%s: guard inspects %r, not the container" % (where, m.group(1)))
        member = m.group(2) or m.group(3)
        return dict(const=const, params=params, wkind="WGuardedLambda", guard="GNotEmpty", op=stdop_for(ctx.kind, member, 0, where), args=[])
    # plain forwarding
    m = re.fullmatch(r"(?:return )?\(?%s(\w+)\((.*?)\)\)?;" % acc, b)
    if m and "(" not in m.group(2):
        call_args = split_args(m.group(2))
        return dict(const=const, params=params, wkind="WForwardLambda", guard="GNone",
                    op=stdop_for(ctx.kind, m.group(1), len(call_args), where), args=argmap(call_args, params, where))
    m = re.fullmatch(r"return \(\*%s \+= (\w+)\);" % re.escape(selfn), b)
    if m:
        return dict(const=const, params=params, wkind="WForwardLambda", guard="GNone", op="OAppendChar", args=argmap([m.group(1)], params, where))
    raise Shape("%s: unrecognised lambda body %r" % (where, b))


def parse_pos_guard(cond, where):
    """`pos < 0 || std::distance(itr, end) < pos` -> GPos chk_neg cmp"""
    neg, cmp_ = False, None
    for cl in [norm(c) for c in cond.split("||")]:
        if cl == "pos < 0":
            neg = True
        elif (m := re.fullmatch(r"std::distance\(itr, end\) (<=?) pos", cl)):
            if cmp_: raise Shape("%s: two distance clauses" % where)
            cmp_ = {"<": "CLt", "<=": "CLe"}[m.group(1)]
        elif (m := re.fullmatch(r"pos (>=?) std::distance\(itr, end\)", cl)):
            if cmp_: raise Shape("%s: two distance clauses" % where)
            cmp_ = {">": "CLt", ">=": "CLe"}[m.group(1)]
        else:
            raise Shape("%s: unrecognised guard clause %r" % (where, cl))
    if cmp_ is None:
        raise Shape("%s: guard has no distance clause" % where)
    return "GPos %s %s" % ("true" if neg else "false", cmp_)


def parse_helpers(src):
    """detail:: helper templates -> name -> dict"""
    out = {}
    for m in re.finditer(r"template<typename (\w+)>\s*(size_t|void) (\w+)\(([^)]*)\)\s*\{", src):
        T, ret, name, plist = m.groups()
        if "Module &m" in plist:
            continue
        body, _ = brace_block(src, m.end() - 1)
        where = "detail::" + name
        const, selfn, params = params_of(plist, T, where)
        blocks = top_level_blocks(body)
        stm = [(k, norm(h), norm(i)) for k, h, i in blocks]
        if name in ("insert_at", "erase_at"):
            want_head = [("stmt", "auto itr = %s.begin();" % selfn), ("stmt", "auto end = %s.end();" % selfn)]
            if [(k, h) for k, h, _ in stm[:2]] != want_head:
                raise Shape("%s: does not start with begin()/end()" % where)
            rest = stm[2:]
            guard = "GNone"
            if rest and rest[0][0] == "if":
                k, h, inner = rest[0]
                if not re.fullmatch(r"throw std::range_error\(\"[^\"]*\"\);", inner):
                    raise Shape("%s: guard does not throw range_error: %r" % (where, inner))
                guard = parse_pos_guard(re.fullmatch(r"if \((.*)\)", h).group(1), where)
                rest = rest[1:]
            if params[0] != ("PInt", "pos"):
                raise Shape("%s: position parameter is not `int pos`" % where)
            if len(rest) != 2 or rest[0][:2] != ("stmt", "std::advance(itr, pos);"):
                raise Shape("%s: unrecognised tail %r" % (where, rest))
            if rest[1][1] == "%s.insert(itr, %s);" % (selfn, params[-1][1]) and len(params) == 2:
                op = "OAdvInsert"
            elif rest[1][1] == "%s.erase(itr);" % selfn and len(params) == 1:
                op = "OAdvErase"
            else:
                raise Shape("%s: unrecognised container call %r" % (where, rest[1][1]))
            out[name] = dict(const=const, params=params, wkind="WCheckedHelper" if guard != "GNone" else "WHelper", guard=guard, op=op,
                             args=["AP %d" % i for i in range(len(params))])
            continue
        if len(stm) != 1 or stm[0][0] != "stmt":
            raise Shape("%s: unrecognised body" % where)
        s = stm[0][1]
        if name == "count" and s == "return %s.count(%s);" % (selfn, params[0][1]):
            op = "OMapCount"
        elif name == "insert" and s == "%s.insert(%s.begin(), %s.end());" % (selfn, params[0][1], params[0][1]):
            op = "OMapInsertRange"
        elif name == "insert_ref" and s == "%s.insert(%s);" % (selfn, params[0][1]):
            op = "OMapInsertVal"
        else:
            raise Shape("%s: unrecognised body %r" % (where, s))
        out[name] = dict(const=const, params=params, wkind="WHelper", guard="GNone", op=op, args=["AP 0"])
    for need in ("insert_at", "erase_at", "count", "insert", "insert_ref"):
        if need not in out:
            raise Shape("detail::%s not found" % need)
    return out


def parse_bidir_range(src):
    m = re.search(r"struct Bidir_Range\s*\{", src)
    if not m:
        raise Shape("Bidir_Range not found")
    body, _ = brace_block(src, m.end() - 1)
    if not re.search(r"constexpr Bidir_Range\(Container &c\)\s*:\s*m_begin\(c\.begin\(\)\)\s*,\s*m_end\(c\.end\(\)\)\s*\{\s*\}", body):
        raise Shape("Bidir_Range: constructor is not m_begin(c.begin()), m_end(c.end())")
    meths = {}
    for mm in re.finditer(r"constexpr (bool|void|decltype\(auto\)) (\w+)\(\)( const)?( noexcept)?\s*\{", body):
        name = mm.group(2)
        inner, _ = brace_block(body, mm.end() - 1)
        stm = [(k, norm(h), norm(i)) for k, h, i in top_level_blocks(inner)]
        guard = "GNone"
        if stm and stm[0][0] == "if":
            if stm[0][1] != "if (empty())" or not re.fullmatch(r"throw std::range_error\(\"[^\"]*\"\);", stm[0][2]):
                raise Shape("Bidir_Range::%s: unrecognised guard %r" % (name, stm[0]))
            guard = "GNotEmpty"
            stm = stm[1:]
        rest = [h for k, h, _ in stm]
        if any(k != "stmt" for k, _, _ in stm):
            raise Shape("Bidir_Range::%s: unexpected block" % name)
        if rest == ["return m_begin == m_end;"]:
            op = "RIsEmpty"
        elif rest == ["++m_begin;"]:
            op = "RIncBegin"
        elif rest == ["--m_end;"]:
            op = "RDecEnd"
        elif rest == ["return (*m_begin);"]:
            op = "RDerefBegin"
        elif rest == ["auto pos = m_end;", "--pos;", "return (*(pos));"]:
            op = "RDerefPrevEnd"
        else:
            raise Shape("Bidir_Range::%s: unrecognised body %r" % (name, rest))
        meths[name] = dict(const=True, params=[], wkind="WRangeMethod", guard=guard, op=op, args=[])
    if meths.get("empty", {}).get("op") != "RIsEmpty" or meths["empty"]["guard"] != "GNone":
        raise Shape("Bidir_Range::empty is not `m_begin == m_end`")
    return meths


def parse_name(expr, ctx, where):
    """registered name: a literal or the `typeid(value_type) == typeid(Boxed_Value)` selector lambda -> (name, script def or None)"""
    e = expr.strip()
    m = re.fullmatch(r'"([^"]+)"', e)
    if m:
        return m.group(1), None
    m = re.match(r"\[&?\]\(\) -> std::string \{", norm(e))
    if not m or not norm(e).endswith("}()"):
        raise Shape("%s: unrecognised name expression %r" % (where, e[:60]))
    i = e.find("{")
    body, _ = brace_block(e, i)
    blocks = top_level_blocks(body)
    if len(blocks) != 2 or blocks[0][0] != "if" or blocks[1][0] != "else":
        raise Shape("%s: name selector is not if/else" % where)
    hm = re.fullmatch(r"if \(typeid\(typename (\w+)::(value_type|mapped_type)\) == typeid\(Boxed_Value\)\)", norm(blocks[0][1]))
    if not hm or hm.group(1) != ctx.tparam:
        raise Shape("%s: unrecognised name selector condition %r" % (where, norm(blocks[0][1])))
    boxed = (BOXED_ELEMS if hm.group(2) == "value_type" else BOXED_MAPPED).get(ctx.kind, False)
    then, els = blocks[0][2], blocks[1][2]
    script = None
    ts = top_level_blocks(then)
    if len(ts) == 2 and norm(ts[0][1]).startswith("m.eval("):
        script = ts[0][1]
        ts = ts[1:]
    rt = re.fullmatch(r'return "([^"]+)";', norm(ts[0][1])) if len(ts) == 1 else None
    re_ = re.fullmatch(r'return "([^"]+)";', norm(els))
    if not rt or not re_:
        raise Shape("%s: name selector branches are not `return \"...\"`" % where)
    return (rt.group(1), script) if boxed else (re_.group(1), None)


def parse_script_def(script, regname, where):
    """the m.eval'd `def push_back(<Type> container, x)` -> (name, target)"""
    parts = re.findall(r'"((?:[^"\\]|\\.)*)"', script)
    txt = "".join(parts).replace("\\n", "\n")
    txt = re.sub(r"#[^\n]*\n", "", txt)
    m = re.fullmatch(r"def (\w+)\( container, x\) \{ if \(x\.is_var_return_value\(\)\) \{ x\.reset_var_return_value\(\) container\.(\w+)\(x\) \} "
                     r"else \{ container\.(\w+)\(clone\(x\)\); \} \}", norm(txt))
    if not m or m.group(2) != m.group(3):
        raise Shape("%s: unrecognised script definition %r" % (where, norm(txt)))
    if not re.search(r'"def \w+\("\s*\+\s*type\s*\+\s*" container, x\)', norm(script)):
        raise Shape("%s: script definition is not typed with the container's name" % where)
    return m.group(1), m.group(2)


class Translator:
    def __init__(self, src):
        self.src = src
        self.helpers = parse_helpers(src)
        self.range_methods = parse_bidir_range(src)
        self.concepts = {}
        for m in re.finditer(r"template<typename (\w+)>\s*void (\w+)\(const std::string &\s*(type)?\s*, Module &m\)\s*\{", src):
            body, _ = brace_block(src, m.end() - 1)
            self.concepts[m.group(2)] = (m.group(1), body)
        self.entries = []

    def add(self, ctx, name, d, const=None):
        self.entries.append(dict(type=ctx.regname, kind=ctx.kind, const=d["const"] if const is None else const, name=name, wkind=d["wkind"],
                                 params=[p for p, _ in d["params"]] if d["params"] and isinstance(d["params"][0], tuple) else list(d["params"]),
                                 args=d["args"], guard=d["guard"], op=d["op"]))

    def expand(self, concept, kind, regname):
        if concept not in self.concepts:
            raise Shape("concept %s not found" % concept)
        T, body = self.concepts[concept]
        ctx = Ctx(T, kind, regname)
        aliases = {}
        for bk, head, inner in top_level_blocks(body):
            h = norm(head)
            where = "%s<%s>" % (concept, regname)
            if bk == "if":
                if re.fullmatch(r"if \(typeid\(%s\) == typeid\(std::(vector<Boxed_Value>|map<std::string, Boxed_Value>)\)\)" % T, h) \
                        and re.fullmatch(r'm\.eval\(R"\(.*\)"\);', norm(inner), re.S):
                    continue   # script-level `==` built from range(): not a wrapper of a std:: operation
                raise Shape("%s: unexpected conditional %r" % (where, h))
            if bk != "stmt":
                raise Shape("%s: unexpected block kind %s" % (where, bk))
            if (m := re.fullmatch(r"using (\w+) = (.*);", h)):
                aliases[m.group(1)] = m.group(2)
                continue
            if re.fullmatch(r"m\.add\(user_type<[\w ]+>\(\), .*\);", h) or re.fullmatch(r"m\.add\(constructor<.*>\(\), .*\);", h):
                continue
            if any(re.fullmatch(p + ";", h) for p in IGNORED_CALLS):
                continue
            # nested concept
            if (m := re.fullmatch(r"(?:detail::)?(\w+)<(.*)>\((.*), m\);", h)):
                sub, targ, narg = m.group(1), norm(m.group(2)), norm(m.group(3))
                if sub == "input_range_type_impl":
                    rm = re.fullmatch(r"Bidir_Range<(const )?%s, typename %s::(const_)?iterator>" % (T, T), targ)
                    if not rm or bool(rm.group(1)) != bool(rm.group(2)):
                        raise Shape("%s: unrecognised range instantiation %r" % (where, targ))
                    want = '"Const_" + type' if rm.group(1) else "type"
                    if narg != want:
                        raise Shape("%s: range type name is %r" % (where, narg))
                    self.expand_range(("Const_" if rm.group(1) else "") + regname + "_Range")
                    continue
                if sub == "pair_type" and targ == "typename %s::value_type" % T and narg == 'type + "_Pair"':
                    self.expand("pair_type", "KPair", regname + "_Pair")
                    continue
                if targ == T and narg == "type":
                    self.expand(sub, kind, regname)
                    continue
                raise Shape("%s: unrecognised call %r" % (where, h))
            m = re.fullmatch(r"m\.add\(fun\((.*)\);", h)
            if not m:
                raise Shape("%s: unrecognised statement %r" % (where, h[:120]))
            # split `fun(X), NAME` using the original (un-normalised) text so that the script text survives
            raw = head.strip()
            i = raw.index("fun(") + 3
            fe = paren_end(raw, i)
            fexpr = raw[i + 1:fe - 1].strip()
            nexpr = raw[fe:].strip()
            if not nexpr.startswith(",") or not nexpr.endswith(");"):
                raise Shape("%s: unrecognised registration tail" % where)
            name, script = parse_name(nexpr[1:-2], ctx, where)
            where += "/" + name
            fx = norm(fexpr)
            if fx.startswith("["):
                d = parse_lambda(fexpr, ctx, where)
            elif (mm := re.fullmatch(r"&?detail::(\w+)<%s>" % T, fx)):
                if mm.group(1) not in self.helpers:
                    raise Shape("%s: unknown helper %s" % (where, mm.group(1)))
                d = self.helpers[mm.group(1)]
            elif (mm := re.fullmatch(r"static_cast<(\w+)>\(&%s::([\w\[\]]+)\)" % T, fx)):
                if mm.group(1) not in aliases:
                    raise Shape("%s: unknown alias %s" % (where, mm.group(1)))
                c, ptys = member_sig(aliases[mm.group(1)], T, where)
                d = dict(const=c, params=ptys, wkind="WDirect", guard="GNone", op=stdop_for(kind, mm.group(2), len(ptys), where),
                         args=["AP %d" % i for i in range(len(ptys))])
            elif (mm := re.fullmatch(r"&%s::(\w+)" % T, fx)):
                mem = mm.group(1)
                if kind == "KPair":
                    if mem not in PAIR_MEMBERS:
                        raise Shape("%s: unknown pair member %s" % (where, mem))
                    d = dict(const=True, params=[], wkind="WDirect", guard="GNone", op=PAIR_MEMBERS[mem], args=[])
                else:
                    tbl = MAP_MEMBERS if kind == "KMap" else SEQ_MEMBERS
                    if mem not in tbl or tbl[mem][1] is None:
                        raise Shape("%s: direct member pointer to %s without a known signature" % (where, mem))
                    op, ptys = tbl[mem]
                    d = dict(const=op in ("OFront", "OBack", "OSize", "OEmpty", "OCapacity"), params=ptys, wkind="WDirect", guard="GNone", op=op,
                             args=["AP %d" % i for i in range(len(ptys))])
                    if op in ("OFront", "OBack"):
                        d["const"] = False   # overload set: the non-const overload is what a plain member pointer would have to pick
            else:
                raise Shape("%s: unrecognised function expression %r" % (where, fx[:100]))
            self.add(ctx, name, d)
            if script is not None:
                sname, starget = parse_script_def(script, regname, where)
                if starget != name:
                    raise Shape("%s: script definition forwards to %s" % (where, starget))
                d2 = dict(d)
                d2["wkind"] = "WScriptDef"
                self.add(ctx, sname, d2, const=False)

    def expand_range(self, regname):
        T, body = self.concepts["input_range_type_impl"] if "input_range_type_impl" in self.concepts else (None, None)
        m = re.search(r"template<typename (\w+)>\s*void input_range_type_impl\(const std::string &type, Module &m\)\s*\{", self.src)
        if not m:
            raise Shape("input_range_type_impl not found")
        T = m.group(1)
        body, _ = brace_block(self.src, m.end() - 1)
        ctx = Ctx(T, "KRange", regname)
        n = 0
        for bk, head, inner in top_level_blocks(body):
            h = norm(head)
            if h in ('m.add(user_type<%s>(), type + "_Range");' % T, 'copy_constructor<%s>(type + "_Range", m);' % T,
                     'm.add(constructor<%s(typename %s::container_type &)>(), "range_internal");' % (T, T)):
                continue
            mm = re.fullmatch(r'm\.add\(fun\(&%s::(\w+)\), "(\w+)"\);' % T, h)
            if not mm:
                raise Shape("input_range_type_impl: unrecognised statement %r" % h)
            if mm.group(1) not in self.range_methods:
                raise Shape("input_range_type_impl: unknown Bidir_Range method %s" % mm.group(1))
            self.add(ctx, mm.group(2), self.range_methods[mm.group(1)])
            n += 1
        if n != 5:
            raise Shape("input_range_type_impl: %d methods registered" % n)


ROOTS = {"vector_type<std::vector<Boxed_Value>>": ("vector_type", "KVector"), "string_type<std::string>": ("string_type", "KString"),
         "map_type<std::map<std::string, Boxed_Value>>": ("map_type", "KMap"),
         "pair_type<std::pair<Boxed_Value, Boxed_Value>>": ("pair_type", "KPair"),
         "future_type<std::future<chaiscript::Boxed_Value>>": None}


def prelude_defs(prelude):
    """one-argument find family and insert_at from chaiscript_prelude.hpp"""
    out = []
    for m in re.finditer(r"def string::(\w+)\(string (\w+)\) \{\s*(\w+)\(this, (\w+), size_t\((-?\d+)\)\);\s*\}", prelude):
        name, p, target, a, pos = m.groups()
        if a != p:
            raise Shape("prelude string::%s does not forward its argument" % name)
        out.append((name, target, int(pos)))
    if sorted(n for n, _, _ in out) != ["find", "find_first_not_of", "find_first_of", "find_last_not_of", "find_last_of", "rfind"]:
        raise Shape("prelude: string search helpers not recognised: %r" % [n for n, _, _ in out])
    m = re.search(r"def insert_at\(container, pos, x\)\s*\{\s*container\.(\w+)\(pos, clone\(x\)\);\s*\}", prelude)
    if not m:
        raise Shape("prelude: insert_at not recognised")
    return out, m.group(1)


def translate(repo):
    src = strip_comments(open(os.path.join(repo, "include/chaiscript/dispatchkit/bootstrap_stl.hpp")).read())
    std = strip_comments(open(os.path.join(repo, "include/chaiscript/chaiscript_stdlib.hpp")).read())
    prelude = open(os.path.join(repo, "include/chaiscript/language/chaiscript_prelude.hpp")).read()
    t = Translator(src)
    roots = re.findall(r'bootstrap::standard_library::(\w+<.*>)\("(\w+)", \*lib\);', std)
    if len(roots) != std.count("bootstrap::standard_library::"):
        raise Shape("chaiscript_stdlib.hpp: unrecognised standard_library instantiation")
    seen = []
    for inst, reg in roots:
        inst = norm(inst)
        if inst not in ROOTS:
            raise Shape("chaiscript_stdlib.hpp: unknown instantiation %r" % inst)
        if ROOTS[inst] is None:
            continue
        concept, kind = ROOTS[inst]
        t.expand(concept, kind, reg)
        seen.append(reg)
    if seen != ["Vector", "string", "Map", "Pair"]:
        raise Shape("chaiscript_stdlib.hpp: containers registered: %r" % seen)
    # not part of the default library: instantiated by the harness (harness/h_stl.cpp) exactly like this
    t.expand("list_type", "KList", "List")
    # script-level helpers of the prelude, composed with the entries they forward to
    pdefs, ins_target = prelude_defs(prelude)
    ents = t.entries

    def find_entry(ty, name, nparams):
        r = [e for e in ents if e["type"] == ty and e["name"] == name and len(e["params"]) == nparams]
        if not r:
            raise Shape("prelude forwards to %s.%s/%d which is not registered" % (ty, name, nparams))
        return r[0]
    for name, target, pos in pdefs:
        base = find_entry("string", target, 2)
        if base["params"] != ["PSelfTy", "PSize"] or base["args"] != ["AP 0", "AP 1"]:
            raise Shape("prelude string::%s: target has unexpected signature" % name)
        ents.append(dict(base, name=name, wkind="WScriptDef", params=["PSelfTy"], args=["AP 0", "AC (VInt (%d))" % (pos % (1 << 64))], const=True))
    for ty in ("Vector", "List"):
        base = find_entry(ty, ins_target, 2)
        ents.append(dict(base, name="insert_at", wkind="WScriptDef", const=False))
    L = ["(* GENERATED by tools/translate/t_StlWrappers.py from /repo's working tree -- do not edit *)",
         "From Coq Require Import ZArith String List Bool.", "From ChaiV Require Import ContDefs.", "Import ListNotations.",
         "Local Open Scope string_scope.", "",
         "(* registered type, kind, callable on const, registered name, wrapper kind, parameters, forwarded arguments, guard, std:: operation *)",
         "Definition stl_table : list wrapper := ["]
    L.append(";\n".join('  mkw "%s" %s %s "%s" %s [%s] [%s] (%s) %s' % (
        e["type"], e["kind"], "true" if e["const"] else "false", e["name"], e["wkind"], "; ".join(e["params"]), "; ".join(e["args"]), e["guard"], e["op"])
        for e in ents))
    L += ["].", ""]
    return "\n".join(L)


if __name__ == "__main__":
    import sys
    print(translate(sys.argv[1] if len(sys.argv) > 1 else "/repo"))
