"""Tiny shape-recogniser toolkit for the source -> Gallina translators.
Works on text (no C++ front end is scriptable offline for these headers); every
helper raises Shape on anything it does not recognise."""
import re


class Shape(Exception):
    pass


def strip_comments(s):
    out, i, n = [], 0, len(s)
    while i < n:
        c = s[i]
        if c == '"' or c == "'":
            # raw strings R"x( ... )x"
            if c == '"' and i > 0 and s[i - 1] == "R":
                m = re.match(r'"([^(]*)\(', s[i:])
                if m:
                    end = s.find(")" + m.group(1) + '"', i)
                    out.append(s[i:end + len(m.group(1)) + 2])
                    i = end + len(m.group(1)) + 2
                    continue
            j = i + 1
            while j < n and s[j] != c:
                j += 2 if s[j] == "\\" else 1
            out.append(s[i:j + 1])
            i = j + 1
        elif s.startswith("//", i):
            j = s.find("\n", i)
            i = n if j < 0 else j
        elif s.startswith("/*", i):
            j = s.find("*/", i)
            i = n if j < 0 else j + 2
        else:
            out.append(c)
            i += 1
    return "".join(out)


def norm(s):
    return re.sub(r"\s+", " ", s).strip()


def brace_block(s, i):
    """s[i] == '{' -> (inner text, index just after the matching '}'); string/char literals are skipped."""
    if s[i] != "{":
        raise Shape("brace_block: not at a brace")
    depth, j, n = 0, i, len(s)
    while j < n:
        c = s[j]
        if c == '"' or c == "'":
            k = j + 1
            while k < n and s[k] != c:
                k += 2 if s[k] == "\\" else 1
            j = k + 1
            continue
        if c == "{":
            depth += 1
        elif c == "}":
            depth -= 1
            if depth == 0:
                return s[i + 1:j], j + 1
        j += 1
    raise Shape("unbalanced braces")


def paren_end(s, i):
    if s[i] != "(":
        raise Shape("paren_end: not at a paren")
    depth, j, n = 0, i, len(s)
    while j < n:
        c = s[j]
        if c == '"' or c == "'":
            k = j + 1
            while k < n and s[k] != c:
                k += 2 if s[k] == "\\" else 1
            j = k + 1
            continue
        if c == "(":
            depth += 1
        elif c == ")":
            depth -= 1
            if depth == 0:
                return j + 1
        j += 1
    raise Shape("unbalanced parens")


def function_body(src, head_regex, nth=0):
    """Body (text between the braces) of the function whose header matches head_regex."""
    ms = list(re.finditer(head_regex, src))
    if len(ms) <= nth:
        raise Shape("function not found: %s" % head_regex)
    m = ms[nth]
    i = src.find("{", m.end())
    between = src[m.end():i]
    if i < 0 or ";" in between:
        raise Shape("no body after: %s" % head_regex)
    return brace_block(src, i)[0]


def top_level_blocks(text):
    """Split a statement list into ('switch'|'if'|'else'|'while'|'for'|'stmt'|'pp', head, inner) items."""
    out, i, n = [], 0, len(text)
    while i < n:
        while i < n and text[i].isspace():
            i += 1
        if i >= n:
            break
        if text[i] == "#":
            j = text.find("\n", i)
            j = n if j < 0 else j
            out.append(("pp", text[i:j], ""))
            i = j
            continue
        m = re.match(r"(switch|if constexpr|if|while|for|else if|else|try|catch)\b", text[i:])
        if m:
            kw = m.group(1)
            j = i + m.end()
            while j < n and text[j].isspace():
                j += 1
            if kw not in ("else", "try"):
                if text[j] != "(":
                    raise Shape("expected ( after %s" % kw)
                j = paren_end(text, j)
            while j < n and text[j].isspace():
                j += 1
            if j < n and text[j] == "{":
                inner, e = brace_block(text, j)
                out.append(({"if constexpr": "if", "else if": "elif"}.get(kw, kw), text[i:j], inner))
                i = e
                continue
            # unbraced single statement
            e = text.find(";", j) + 1
            out.append(({"if constexpr": "if", "else if": "elif"}.get(kw, kw), text[i:j], text[j:e]))
            i = e
            continue
        if text[i] == "{":
            inner, e = brace_block(text, i)
            out.append(("block", "", inner))
            i = e
            continue
        # plain statement up to ';' at depth 0 (lambdas with bodies are kept whole)
        j, depth = i, 0
        while j < n:
            c = text[j]
            if c == '"' or c == "'":
                k = j + 1
                while k < n and text[k] != c:
                    k += 2 if text[k] == "\\" else 1
                j = k + 1
                continue
            if c in "({[":
                depth += 1
            elif c in ")}]":
                depth -= 1
            elif c == ";" and depth == 0:
                break
            j += 1
        out.append(("stmt", text[i:j + 1], ""))
        i = j + 1
    return out
