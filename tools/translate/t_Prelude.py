"""Translator: the ChaiScript text embedded in chaiscript_prelude.hpp  ->  coq/gen/G_Prelude.v

The raw string is tokenised and parsed with a recursive-descent parser for exactly the
statement/expression forms the prelude uses; every translated `def` becomes one Gallina
definition in the range monad of coq/theories/PreludeDefs.v (a loop-level transcription:
`while` -> while_/while_ret with fuel computed from the ranges in scope, `r.pop_front()` ->
r_pop_front, `inserter(e)` -> push_back on the accumulator, callbacks -> monadic calls,
`return` inside a loop -> Return).  Anything else raises Shape.

What is *typing information supplied by hand* (SIGS below): the Coq type of each parameter of
each def (the prelude is dynamically typed), and the Coq name.  Parameter names, order, guards,
and the whole body come from the source text.

Definitions the model treats as builtins (new, clone, range, back_inserter, ...) are not
translated; their text is pinned (PINNED) and any edit to them raises Shape."""
import os, re
from cxxshape import Shape, norm

# --------------------------------------------------------------------------- tokens
TOK = re.compile(r"""
    (?P<ws>\s+)
  | (?P<comment>\#[^\n]*)
  | (?P<num>\d+\.\d+|\d+)
  | (?P<str>"(?:[^"\\]|\\.)*")
  | (?P<chr>'(?:[^'\\]|\\.)')
  | (?P<bq>`[^`]+`)
  | (?P<id>[A-Za-z_][A-Za-z_0-9]*)
  | (?P<op>::|:=|\+=|-=|\+\+|--|&&|\|\||==|!=|<=|>=|[-+*/%<>=!(){}\[\],;:.])
""", re.X)


def tokenize(text):
    out, i = [], 0
    while i < len(text):
        m = TOK.match(text, i)
        if not m:
            raise Shape("prelude: cannot tokenise at %r" % text[i:i + 30])
        i = m.end()
        k = m.lastgroup
        if k in ("ws", "comment"):
            continue
        out.append((k, m.group(k)))
    out.append(("eof", ""))
    return out


# --------------------------------------------------------------------------- parser
class P:
    def __init__(self, toks):
        self.t, self.i = toks, 0

    def peek(self, k=0):
        return self.t[self.i + k]

    def at(self, v):
        return self.t[self.i][1] == v and self.t[self.i][0] in ("op", "id")

    def eat(self, v=None, kind=None):
        k, s = self.t[self.i]
        if (v is not None and (s != v or k not in ("op", "id"))) or (kind is not None and k != kind):
            raise Shape("prelude: expected %r, found %r (token %d)" % (v or kind, s, self.i))
        self.i += 1
        return s

    # ---- top level
    def program(self):
        defs = []
        while self.peek()[0] != "eof":
            if self.at("def"):
                defs.append(self.definition())
            elif self.at("attr"):
                self.eat("attr")
                c = self.eat(kind="id"); self.eat("::"); a = self.eat(kind="id"); self.eat(";")
                defs.append({"kind": "attr", "cls": c, "name": a})
            else:
                raise Shape("prelude: unexpected top-level token %r" % (self.peek()[1],))
        return defs

    def definition(self):
        start = self.i
        self.eat("def")
        name = self.eat(kind="id")
        cls = None
        if self.at("::"):
            self.eat("::"); cls = name; name = self.eat(kind="id")
        self.eat("(")
        params = []
        while not self.at(")"):
            a = self.eat(kind="id")
            ty = None
            if self.peek()[0] == "id":
                ty, a = a, self.eat(kind="id")
            params.append((ty, a))
            if self.at(","):
                self.eat(",")
        self.eat(")")
        guard = None
        if self.at(":"):
            self.eat(":")
            guard = self.expr()
        body = self.block()
        text = " ".join(s for _, s in self.t[start:self.i])
        return {"kind": "def", "cls": cls, "name": name, "params": params, "guard": guard, "body": body, "text": text}

    def block(self):
        self.eat("{")
        st = []
        while not self.at("}"):
            st.append(self.statement())
        self.eat("}")
        return st

    def statement(self):
        if self.at("auto") or self.at("var"):
            self.eat()
            n = self.eat(kind="id")
            if self.at(":="):
                self.eat(":="); mode = "ref"
            else:
                self.eat("="); mode = "copy"
            e = self.expr()
            self.eat(";")
            return ("decl", n, mode, e)
        if self.at("while"):
            self.eat("while"); self.eat("(")
            c = self.expr()
            self.eat(")")
            return ("while", c, self.block())
        if self.at("if"):
            self.eat("if"); self.eat("(")
            c = self.expr()
            self.eat(")")
            a = self.block()
            b = None
            if self.at("else"):
                self.eat("else")
                b = self.block()
            return ("if", c, a, b)
        if self.at("return"):
            self.eat("return")
            e = self.expr()
            self.eat(";")
            return ("return", e)
        e = self.expr()
        if self.at("=") or self.at("+=") or self.at(":="):
            op = self.eat()
            r = self.expr()
            e = ("assign", op, e, r)
        if self.at(";"):
            self.eat(";")
        elif not self.at("}"):
            raise Shape("prelude: expected ; or } after expression, found %r" % (self.peek()[1],))
        return ("expr", e)

    # ---- expressions
    def expr(self):
        return self.p_or()

    def p_or(self):
        l = self.p_and()
        while self.at("||"):
            self.eat(); l = ("bin", "||", l, self.p_and())
        return l

    def p_and(self):
        l = self.p_cmp()
        while self.at("&&"):
            self.eat(); l = ("bin", "&&", l, self.p_cmp())
        return l

    def p_cmp(self):
        l = self.p_add()
        while self.peek()[0] == "op" and self.peek()[1] in ("==", "!=", "<", ">", "<=", ">="):
            o = self.eat(); l = ("bin", o, l, self.p_add())
        return l

    def p_add(self):
        l = self.p_mul()
        while self.peek()[0] == "op" and self.peek()[1] in ("+", "-"):
            o = self.eat(); l = ("bin", o, l, self.p_mul())
        return l

    def p_mul(self):
        l = self.p_un()
        while self.peek()[0] == "op" and self.peek()[1] in ("*", "/", "%"):
            o = self.eat(); l = ("bin", o, l, self.p_un())
        return l

    def p_un(self):
        if self.peek()[0] == "op" and self.peek()[1] in ("!", "-", "++", "--"):
            o = self.eat()
            return ("un", o, self.p_un())
        return self.p_post()

    def args(self):
        self.eat("(")
        a = []
        while not self.at(")"):
            a.append(self.expr())
            if self.at(","):
                self.eat(",")
        self.eat(")")
        return a

    def p_post(self):
        e = self.p_prim()
        while True:
            if self.at("("):
                e = ("call", e, self.args())
            elif self.at("."):
                self.eat(".")
                n = self.eat(kind="id")
                if self.at("("):
                    e = ("mcall", e, n, self.args())
                else:
                    e = ("attr", e, n)
            else:
                return e

    def p_prim(self):
        k, s = self.peek()
        if k == "num":
            self.eat(); return ("num", s)
        if k == "str":
            self.eat(); return ("str", s)
        if k == "chr":
            self.eat(); return ("chr", s)
        if k == "bq":
            self.eat(); return ("bq", s[1:-1])
        if k == "id":
            if s == "fun":
                self.eat()
                self.eat("(")
                ps = []
                while not self.at(")"):
                    ps.append(self.eat(kind="id"))
                    if self.at(","):
                        self.eat(",")
                self.eat(")")
                return ("lambda", ps, self.block())
            self.eat()
            return ("id", s)
        if self.at("("):
            self.eat("(")
            e = self.expr()
            self.eat(")")
            return e
        if self.at("["):
            self.eat("[")
            a = []
            while not self.at("]"):
                a.append(self.expr())
                if self.at(","):
                    self.eat(",")
            self.eat("]")
            return ("vec", a)
        raise Shape("prelude: unexpected token %r in expression" % (s,))


def prelude_text(repo):
    src = open(os.path.join(repo, "include/chaiscript/language/chaiscript_prelude.hpp")).read()
    m = re.search(r'R"chaiscript\((.*?)\)chaiscript"', src, re.S)
    if not m:
        raise Shape("prelude: raw string R\"chaiscript( ... )chaiscript\" not found")
    return m.group(1)


def parse_prelude(repo):
    return P(tokenize(prelude_text(repo))).program()


# --------------------------------------------------------------------------- typing supplied by hand
# (cls, name, nparams) -> coq name, implicit binders, [(coq type, kind)] per source parameter, kind of the result.
# kinds: list (container, by reference), ins (inserter, by reference), range, Z, fun, val, str, pair, bool
def S(coq, impl, params, ret="val", this=None):
    return {"coq": coq, "impl": impl, "params": params, "ret": ret, "this": this}


LV, INS = ("list V", "list"), None
SIGS = {
    (None, "eq", 2): S("p_eq", "{E V} {O : Ops V}", [("V", "val"), ("V", "val")], "bool"),
    (None, "max", 2): S("p_max", "{E}", [("Z", "Z"), ("Z", "Z")], "Z"),
    (None, "min", 2): S("p_min", "{E}", [("Z", "Z"), ("Z", "Z")], "Z"),
    (None, "odd", 1): S("p_odd", "{E}", [("Z", "Z")], "bool"),
    (None, "even", 1): S("p_even", "{E}", [("Z", "Z")], "bool"),
    (None, "reverse", 1): S("p_reverse", "{E V}", [LV], "list"),
    (None, "for_each", 2): S("p_for_each", "{E V W}", [LV, ("V -> M E W", "fun")]),
    (None, "any_of", 2): S("p_any_of", "{E V}", [LV, ("V -> M E bool", "fun")], "bool"),
    (None, "all_of", 2): S("p_all_of", "{E V}", [LV, ("V -> M E bool", "fun")], "bool"),
    (None, "contains", 3): S("p_contains_3", "{E V}", [LV, ("V", "val"), ("V -> V -> M E bool", "fun")], "bool"),
    (None, "contains", 2): S("p_contains", "{E V} {O : Ops V}", [LV, ("V", "val")], "bool"),
    (None, "map", 3): S("p_map_3", "{E V W}", [LV, ("V -> M E W", "fun"), ("list W", "ins")]),
    (None, "map", 2): S("p_map", "{E V}", [LV, ("V -> M E V", "fun")], "list"),
    (None, "foldl", 3): S("p_foldl", "{E V A}", [LV, ("V -> A -> M E A", "fun"), ("A", "val")]),
    (None, "sum", 1): S("p_sum", "{E V} {O : Ops V}", [LV]),
    (None, "product", 1): S("p_product", "{E V} {O : Ops V}", [LV]),
    (None, "concat", 2): S("p_concat", "{E V}", [LV, LV], "list"),
    (None, "take", 3): S("p_take_3", "{E V}", [LV, ("Z", "Z"), ("list V", "ins")]),
    (None, "take", 2): S("p_take", "{E V}", [LV, ("Z", "Z")], "list"),
    (None, "take_while", 3): S("p_take_while_3", "{E V}", [LV, ("V -> M E bool", "fun"), ("list V", "ins")]),
    (None, "take_while", 2): S("p_take_while", "{E V}", [LV, ("V -> M E bool", "fun")], "list"),
    (None, "drop", 3): S("p_drop_3", "{E V}", [LV, ("Z", "Z"), ("list V", "ins")]),
    (None, "drop", 2): S("p_drop", "{E V}", [LV, ("Z", "Z")], "list"),
    (None, "drop_while", 3): S("p_drop_while_3", "{E V}", [LV, ("V -> M E bool", "fun"), ("list V", "ins")]),
    (None, "drop_while", 2): S("p_drop_while", "{E V}", [LV, ("V -> M E bool", "fun")], "list"),
    (None, "reduce", 2): S("p_reduce", "{E V}", [LV, ("V -> V -> M E V", "fun")]),
    (None, "join", 2): S("p_join", "{E V} {O : Ops V}", [LV, ("string", "str")], "str"),
    (None, "filter", 3): S("p_filter_3", "{E V}", [LV, ("V -> M E bool", "fun"), ("list V", "ins")]),
    (None, "filter", 2): S("p_filter", "{E V}", [LV, ("V -> M E bool", "fun")], "list"),
    (None, "generate_range", 3): S("p_generate_range_3", "{E}", [("Z", "Z"), ("Z", "Z"), ("list Z", "ins")]),
    (None, "generate_range", 2): S("p_generate_range", "{E}", [("Z", "Z"), ("Z", "Z")], "list"),
    (None, "collate", 2): S("p_collate", "{E A B}", [("A", "val"), ("B", "val")], "pair"),
    (None, "zip_with", 4): S("p_zip_with_4", "{E A B C}", [("A -> B -> M E C", "fun"), ("list A", "list"), ("list B", "list"), ("list C", "ins")]),
    (None, "zip_with", 3): S("p_zip_with", "{E A B C}", [("A -> B -> M E C", "fun"), ("list A", "list"), ("list B", "list")], "list"),
    (None, "zip", 2): S("p_zip", "{E A B}", [("list A", "list"), ("list B", "list")], "list"),
    (None, "find", 3): S("p_find_3", "{E V}", [LV, ("V", "val"), ("V -> V -> M E bool", "fun")], "range"),
    (None, "find", 2): S("p_find", "{E V} {O : Ops V}", [LV, ("V", "val")], "range"),
    ("string", "ltrim", 0): S("p_string_ltrim", "{E}", [], "list", this=("var", "list ascii", "list")),
    ("string", "rtrim", 0): S("p_string_rtrim", "{E}", [], "list", this=("var", "list ascii", "list")),
    ("string", "trim", 0): S("p_string_trim", "{E}", [], "list", this=("var", "list ascii", "list")),
    ("retro", "retro", 1): S("p_retro_ctor", "{E V}", [("range V", "range")], this=("attrs", {"m_range": ("range V", "range")})),
    ("retro", "front", 0): S("p_retro_front", "{E V}", [], this=("attrs", {"m_range": ("range V", "range")})),
    ("retro", "back", 0): S("p_retro_back", "{E V}", [], this=("attrs", {"m_range": ("range V", "range")})),
    ("retro", "pop_back", 0): S("p_retro_pop_back", "{E V}", [], this=("attrs", {"m_range": ("range V", "range")})),
    ("retro", "pop_front", 0): S("p_retro_pop_front", "{E V}", [], this=("attrs", {"m_range": ("range V", "range")})),
    ("retro", "empty", 0): S("p_retro_empty", "{E V}", [], "bool", this=("attrs", {"m_range": ("range V", "range")})),
}
# the two guarded to_string overloads are told apart by their guard text
TO_STRING = {
    "call_exists ( first , x ) && call_exists ( second , x )":
        S("p_to_string_pair", "{E A B} {OA : Ops A} {OB : Ops B}", [("A * B", "pair")], "str"),
    "call_exists ( range , x ) && ! x . is_type ( \"string\" )":
        S("p_to_string_container", "{E V} {O : Ops V}", [LV], "str"),
}

# definitions the model treats as builtins (or that are outside C17): the text must stay as it is
PINNED = {
    "lt/2": "def lt ( l , r ) { if ( call_exists ( `<` , l , r ) ) { l < r } else { type_name ( l ) < type_name ( r ) } }",
    "gt/2": "def gt ( l , r ) { if ( call_exists ( `>` , l , r ) ) { l > r } else { type_name ( l ) > type_name ( r ) } }",
    "new/1": "def new ( x ) { eval ( type_name ( x ) ) ( ) ; }",
    "clone/1#0": "def clone ( double x ) { double ( x ) . clone_var_attrs ( x ) }",
    "clone/1#1": "def clone ( string x ) { string ( x ) . clone_var_attrs ( x ) }",
    "clone/1#2": "def clone ( vector x ) { vector ( x ) . clone_var_attrs ( x ) }",
    "clone/1#3": "def clone ( int x ) { int ( x ) . clone_var_attrs ( x ) }",
    "clone/1#4": "def clone ( x ) : function_exists ( type_name ( x ) ) && call_exists ( eval ( type_name ( x ) ) , x ) { eval ( type_name ( x ) ) ( x ) . clone_var_attrs ( x ) ; }",
    "puts/1": "def puts ( x ) { print_string ( x . to_string ( ) ) ; }",
    "print/1": "def print ( x ) { println_string ( x . to_string ( ) ) ; }",
    "insert_at/3": "def insert_at ( container , pos , x ) { container . insert_ref_at ( pos , clone ( x ) ) ; }",
    "range/1#0": "def range ( r ) : call_exists ( range_internal , r ) { var ri := range_internal ( r ) ; ri . get_var_attr ( \"internal_obj\" ) := r ; ri ; }",
    "range/1#1": "def range ( r ) : call_exists ( empty , r ) && call_exists ( pop_front , r ) && call_exists ( pop_back , r ) && call_exists ( back , r ) && call_exists ( front , r ) { clone ( r ) ; }",
    "retro/1": "def retro ( r ) : call_exists ( get_type_name , r ) && get_type_name ( r ) == \"retro\" { clone ( r . m_range ) }",
    "back_inserter/1": "def back_inserter ( container ) { bind ( push_back , container , _ ) ; }",
    "string::find/1": "def string :: find ( string substr ) { find ( this , substr , size_t ( 0 ) ) ; }",
    "string::rfind/1": "def string :: rfind ( string substr ) { rfind ( this , substr , size_t ( - 1 ) ) ; }",
    "string::find_first_of/1": "def string :: find_first_of ( string list ) { find_first_of ( this , list , size_t ( 0 ) ) ; }",
    "string::find_last_of/1": "def string :: find_last_of ( string list ) { find_last_of ( this , list , size_t ( - 1 ) ) ; }",
    "string::find_first_not_of/1": "def string :: find_first_not_of ( string list ) { find_first_not_of ( this , list , size_t ( 0 ) ) ; }",
    "string::find_last_not_of/1": "def string :: find_last_not_of ( string list ) { find_last_not_of ( this , list , size_t ( - 1 ) ) ; }",
}
TYPING_GUARD_FUNS = {"range", "clone", "first", "second", "empty", "pop_front", "pop_back", "back", "front"}
RETRO_CTOR_GUARD = "call_exists ( empty , r ) && call_exists ( pop_front , r ) && call_exists ( pop_back , r ) && call_exists ( back , r ) && call_exists ( front , r )"


# --------------------------------------------------------------------------- translation
def contains_return(sts):
    for s in sts:
        if s[0] == "return":
            return True
        if s[0] == "while" and contains_return(s[2]):
            return True
        if s[0] == "if" and (contains_return(s[2]) or contains_return(s[3] or [])):
            return True
    return False


def flatten_and(e):
    if e[0] == "bin" and e[1] == "&&":
        return flatten_and(e[2]) + flatten_and(e[3])
    return [e]


def B(binds):
    return "".join(b + "\n    " for b in binds)


CHAR_ESC = {"\\t": 9, "\\n": 10, "\\r": 13, "\\0": 0, "\\\\": 92, "\\'": 39}
ZCMP = {">": "c_gt", "<": "c_lt", "<=": "c_le", ">=": "c_ge", "==": "c_eq", "!=": "c_ne"}


class Tr:
    def __init__(self, d, sig, table, where):
        self.d, self.sig, self.table, self.where = d, sig, table, where
        self.vars = {}      # source name -> coq name
        self.alias = {}     # source name -> ("var"|"ins", source name)
        self.kinds = {}     # coq name -> kind
        self.order = []     # coq names of the mutable state: reference parameters, then locals in declaration order
        self.refs = []      # coq names of the reference parameters (returned next to the result)
        self.ntmp = 0
        self.notes = []
        self.in_loop = False
        self.retw = lambda v: "ret %s" % self.fnwrap(v)

    def shape(self, msg):
        return Shape("prelude/%s: %s" % (self.where, msg))

    # ---- environment
    def snap(self):
        return (dict(self.vars), dict(self.alias), dict(self.kinds), list(self.order))

    def restore(self, s):
        self.vars, self.alias, self.kinds, self.order = dict(s[0]), dict(s[1]), dict(s[2]), list(s[3])

    def tmp(self):
        self.ntmp += 1
        return "tmp%d" % self.ntmp

    def add_var(self, name, kind, coq=None, mutable=True, ref=False):
        coq = coq or "v_" + name
        if name in self.vars or name in self.alias:
            raise self.shape("redeclaration of %s" % name)
        self.vars[name] = coq
        self.kinds[coq] = kind
        if mutable:
            self.order.append(coq)
        if ref:
            self.refs.append(coq)
        return coq

    def resolve(self, name):
        """source identifier -> (coq name, kind) or None"""
        seen = 0
        while name in self.alias:
            how, tgt = self.alias[name]
            if how == "ins":
                r = self.resolve(tgt)
                if r is None or r[1] not in ("list", "ins"):
                    raise self.shape("back_inserter over %s which is not a container" % tgt)
                return (r[0], "ins")
            name = tgt
            seen += 1
            if seen > 20:
                raise self.shape("alias cycle")
        if name in self.vars:
            c = self.vars[name]
            return (c, self.kinds[c])
        return None

    def tup(self, names):
        return names[0] if len(names) == 1 else "(" + ", ".join(names) + ")"

    def pat(self, names):
        return names[0] if len(names) == 1 else "'(" + ", ".join(names) + ")"

    def fnwrap(self, v):
        return "(%s, %s)" % (v, self.tup(self.refs)) if self.refs else v

    # ---- statements
    def stmts(self, sts, last, k):
        if not sts:
            return k(last)
        s, rest = sts[0], sts[1:]
        cont = lambda v: self.stmts(rest, v, k)
        if s[0] == "decl":
            return self.decl(s, cont)
        if s[0] == "while":
            return self.loop(s, cont)
        if s[0] == "if":
            return self.cond(s, cont)
        if s[0] == "return":
            if rest:
                raise self.shape("statements after return")
            b, a, _ = self.ex(s[1])
            return B(b) + self.retw(a)
        if s[0] == "expr":
            return self.exprstmt(s[1], cont)
        raise self.shape("unknown statement %r" % (s[0],))

    def decl(self, s, cont):
        _, n, mode, e = s
        if e[0] == "call" and e[1][0] == "id" and self.resolve(e[1][1]) is None:
            f, args = e[1][1], e[2]
            if f == "back_inserter":
                if len(args) != 1 or args[0][0] != "id" or self.resolve(args[0][1]) is None:
                    raise self.shape("back_inserter(%r)" % (args,))
                if n in self.vars or n in self.alias:
                    raise self.shape("redeclaration of %s" % n)
                self.alias[n] = ("ins", args[0][1])
                self.resolve(n)
                return cont("tt")
        if mode == "ref" and e[0] == "id" and self.resolve(e[1]) is not None:
            if n in self.vars or n in self.alias:
                raise self.shape("redeclaration of %s" % n)
            self.alias[n] = ("var", e[1])       # a second name for the same object
            return cont("tt")
        b, a, k = self.ex(e)
        if k == "fun":
            raise self.shape("local function value %s" % n)
        c = self.add_var(n, k)
        rhs = a if mode == "ref" else "(clone_val %s)" % a
        return B(b) + "let %s := %s in\n    " % (c, rhs) + cont("tt")

    def lvalue(self, e):
        if e[0] == "id":
            r = self.resolve(e[1])
            if r is None:
                raise self.shape("write to unknown name %s" % e[1])
            if r[0] not in self.order:
                raise self.shape("write to the by-reference parameter %s, which the model passes by value" % e[1])
            return r
        if e[0] == "attr" and e[1] == ("id", "this") and ("this." + e[2]) in self.vars:
            c = self.vars["this." + e[2]]
            return (c, self.kinds[c])
        raise self.shape("unsupported assignment target %r" % (e,))

    def is_ins(self, name):
        r = self.resolve(name)
        return r is not None and r[1] == "ins"

    def exprstmt(self, e, cont):
        pops = ("pop_front", "pop_back")
        if e[0] == "mcall" and e[2] in pops and not e[3]:
            tgt, op = e[1], e[2]
        elif e[0] == "call" and e[1][0] == "id" and e[1][1] in pops and self.resolve(e[1][1]) is None and len(e[2]) == 1:
            tgt, op = e[2][0], e[1][1]
        else:
            tgt = None
        if tgt is not None:
            c, k = self.lvalue(tgt)
            if k != "range":
                raise self.shape("%s on %s which is not a range (the input container would be modified)" % (op, c))
            return "%s <- r_%s %s ;;\n    " % (c, op, c) + cont("tt")
        if e[0] == "mcall" and e[2] == "push_back" and len(e[3]) == 1:
            c, k = self.lvalue(e[1])
            if k not in ("list", "ins"):
                raise self.shape("push_back on %s" % c)
            b, a, _ = self.ex(e[3][0])
            return B(b) + "let %s := push_back %s %s in\n    " % (c, c, a) + cont("tt")
        if e[0] == "call" and e[1][0] == "id" and self.is_ins(e[1][1]):
            if len(e[2]) != 1:
                raise self.shape("inserter called with %d arguments" % len(e[2]))
            c, _ = self.resolve(e[1][1])
            if c not in self.order:
                raise self.shape("inserter %s is not part of the state" % c)
            b, a, _ = self.ex(e[2][0])
            return B(b) + "let %s := push_back %s %s in\n    " % (c, c, a) + cont("tt")
        if e[0] == "un" and e[1] in ("--", "++"):
            c, k = self.lvalue(e[2])
            if k != "Z":
                raise self.shape("%s on non-integer %s" % (e[1], c))
            return "let %s := %s %s 1 in\n    " % (c, "c_sub" if e[1] == "--" else "c_add", c) + cont("tt")
        if e[0] == "assign":
            _, op, lhs, rhs = e
            c, k = self.lvalue(lhs)
            b, a, ka = self.ex(rhs)
            if op == "=":
                return B(b) + "let %s := %s in\n    " % (c, a) + cont("tt")
            if op == "+=" and k == "str":
                return B(b) + "let %s := str_app %s %s in\n    " % (c, c, a) + cont("tt")
            raise self.shape("unsupported assignment %s on %s" % (op, c))
        b, a, _ = self.ex(e)
        return B(b) + cont(a)

    def cond(self, s, cont):
        _, c, A, Bk = s
        b, a, _ = self.ex(c)
        snap = self.snap()

        def branch(block):
            self.restore(snap)
            return self.stmts(block or [], "tt", lambda v: (self.restore(snap) or cont(v)))
        ta = branch(A)
        tb = branch(Bk)
        self.restore(snap)
        return B(b) + "if %s then (\n    %s)\n    else (\n    %s)" % (a, ta, tb)

    def fuel(self, c, state):
        rs = [v for v in state if self.kinds[v] == "range"]
        if rs:
            return "(S (%s))" % " + ".join("r_len %s" % v for v in rs)
        for q in flatten_and(c):
            if q[0] == "bin" and q[1] == "<=" and q[2][0] == "id" and q[3][0] == "id":
                i, y = self.resolve(q[2][1]), self.resolve(q[3][1])
                if i and y and i[1] == "Z" and y[1] == "Z":
                    return "(S (Z.to_nat (c_sub (c_add %s 1) %s)))" % (y[0], i[0])
        raise self.shape("while loop without a range or an integer bound to derive the fuel from")

    def loop(self, s, cont):
        _, c, body = s
        state = list(self.order)
        if not state:
            raise self.shape("while loop without state")
        hasret = contains_return(body)
        if self.in_loop:
            raise self.shape("nested while")
        fuel = self.fuel(c, state)
        snap = self.snap()
        cb, ca, _ = self.ex(c)
        condt = "(fun %s => %sret %s)" % (self.pat(state), B(cb), ca)
        self.restore(snap)
        old = self.retw
        self.in_loop = True
        if hasret:
            self.retw = lambda v: "ret (Return %s)" % self.fnwrap(v)
            endk = lambda v: "ret (Continue %s)" % self.tup(state)
        else:
            endk = lambda v: "ret %s" % self.tup(state)
        bodyt = "(fun %s =>\n    %s)" % (self.pat(state), self.stmts(body, "tt", lambda v: (self.restore(snap) or endk(v))))
        self.in_loop, self.retw = False, old
        self.restore(snap)
        if hasret:
            t = self.tmp()
            return "%s <- while_ret %s %s\n    %s\n    %s ;;\n    match %s with Return r => ret r | Continue %s =>\n    %s end" % (
                t, fuel, self.tup(state), condt, bodyt, t, self.tup(state), cont("tt"))
        return "%s <- while_ %s %s\n    %s\n    %s ;;\n    %s" % (self.pat(state), fuel, self.tup(state), condt, bodyt, cont("tt"))

    # ---- expressions: (bindings, atom, kind)
    def closed(self, e):
        b, a, k = self.ex(e)
        return "(%sret %s)" % (B(b), a)

    def ex(self, e):
        t = e[0]
        if t == "num":
            if "." in e[1]:
                m = re.fullmatch(r"(\d+)\.0", e[1])
                if not m:
                    raise self.shape("floating literal %s" % e[1])
                return [], "(lit_d %s)" % m.group(1), "val"
            return [], e[1], "Z"
        if t == "str":
            body = e[1][1:-1]
            if "\\" in body or '"' in body or any(ord(ch) < 32 or ord(ch) > 126 for ch in body):
                raise self.shape("string literal %s" % e[1])
            return [], '"%s"%%string' % body, "str"
        if t == "chr":
            body = e[1][1:-1]
            n = CHAR_ESC.get(body)
            if n is None:
                if len(body) != 1:
                    raise self.shape("char literal %s" % e[1])
                n = ord(body)
            return [], "(ch %d)" % n, "char"
        if t == "bq":
            if e[1] == "+":
                return [], "(pure2 op_add)", "fun"
            if e[1] == "*":
                return [], "(pure2 op_mul)", "fun"
            raise self.shape("operator function `%s`" % e[1])
        if t == "id":
            n = e[1]
            if n in ("true", "false"):
                return [], n, "bool"
            r = self.resolve(n)
            if r is not None:
                if r[1] == "ins" and n in self.alias:
                    raise self.shape("inserter %s used as a value" % n)
                return [], r[0], r[1]
            if n == "this" and "this" in self.vars:
                return [], self.vars["this"], self.kinds[self.vars["this"]]
            cands = [k for k in self.table if k[0] is None and k[1] == n]
            if len(cands) == 1 and not any(kd in ("list", "ins") for _, kd in self.table[cands[0]]["params"]):
                return [], self.table[cands[0]]["coq"], "fun"
            raise self.shape("unknown identifier %s" % n)
        if t == "un":
            b, a, k = self.ex(e[2])
            if e[1] == "!":
                return b, "(negb %s)" % a, "bool"
            if e[1] == "-" and k == "Z":
                return b, "(- %s)" % a, "Z"
            raise self.shape("unary %s" % e[1])
        if t == "bin":
            return self.binop(e)
        if t == "vec":
            if len(e[1]) != 2:
                raise self.shape("inline vector of %d elements" % len(e[1]))
            b1, a1, _ = self.ex(e[1][0])
            b2, a2, _ = self.ex(e[1][1])
            return b1 + b2, "(inline_vec2 %s %s)" % (a1, a2), "pair"
        if t == "attr":
            if e[1] == ("id", "this") and ("this." + e[2]) in self.vars:
                c = self.vars["this." + e[2]]
                return [], c, self.kinds[c]
            b, a, k = self.ex(e[1])
            if k == "pair" and e[2] in ("first", "second"):
                return b, "(%s %s)" % ("fst" if e[2] == "first" else "snd", a), "val"
            raise self.shape("attribute .%s" % e[2])
        if t == "lambda":
            ps, block = e[1], e[2]
            if len(block) != 1 or block[0][0] != "expr":
                raise self.shape("lambda body")
            sub = Tr(self.d, self.sig, self.table, self.where + "/lambda")
            sub.ntmp = self.ntmp + 100
            for p in ps:
                sub.add_var(p, "val", mutable=False)
            return [], "(fun %s => %s)" % (" ".join("v_" + p for p in ps), sub.closed(block[0][1])), "fun"
        if t == "mcall":
            return self.mcall(e)
        if t == "call":
            return self.call(e)
        raise self.shape("expression %r" % (t,))

    def binop(self, e):
        _, op, l, r = e
        if op in ("&&", "||"):
            b1, a1, _ = self.ex(l)
            snap = self.snap()
            b2, a2, _ = self.ex(r)
            if not b2:
                return b1, "(%s %s %s)" % ("andb" if op == "&&" else "orb", a1, a2), "bool"
            self.restore(snap)
            t = self.tmp()
            return b1 + ["%s <- %s (ret %s) (%sret %s) ;;" % (t, "andM" if op == "&&" else "orM", a1, B(b2), a2)], t, "bool"
        b1, a1, k1 = self.ex(l)
        b2, a2, k2 = self.ex(r)
        b = b1 + b2
        if op in ZCMP:
            if "char" in (k1, k2):
                if op == "==":
                    return b, "(ch_eq %s %s)" % (a1, a2), "bool"
                if op == "!=":
                    return b, "(negb (ch_eq %s %s))" % (a1, a2), "bool"
                raise self.shape("comparison %s on characters" % op)
            if "Z" in (k1, k2):
                return b, "(%s %s %s)" % (ZCMP[op], a1, a2), "bool"
            if k1 == "val" and k2 == "val" and op == "==":
                return b, "(op_eq %s %s)" % (a1, a2), "bool"
            raise self.shape("comparison %s between %s and %s" % (op, k1, k2))
        if op == "+" and "str" in (k1, k2):
            return b, "(str_app %s %s)" % (a1, a2), "str"
        if "Z" in (k1, k2) and op in ("+", "-", "%"):
            return b, "(%s %s %s)" % ({"+": "c_add", "-": "c_sub", "%": "c_rem"}[op], a1, a2), "Z"
        raise self.shape("operator %s between %s and %s" % (op, k1, k2))

    def range_op(self, name, obj):
        b, a, k = self.ex(obj)
        if k != "range":
            raise self.shape("%s() on %s which is not a range" % (name, a))
        if name == "empty":
            return b, "(r_empty %s)" % a, "bool"
        t = self.tmp()
        return b + ["%s <- r_%s %s ;;" % (t, name, a)], t, "val"

    def to_string(self, obj):
        b, a, k = self.ex(obj)
        if k in ("val", "Z"):
            return b, "(op_to_string %s)" % a, "str"
        raise self.shape("to_string of a %s" % k)

    def mcall(self, e):
        _, obj, name, args = e
        if name in ("empty", "front", "back") and not args:
            return self.range_op(name, obj)
        if name == "size" and not args:
            b, a, k = self.ex(obj)
            if k != "list":
                raise self.shape("size() of a %s" % k)
            return b, "(c_size %s)" % a, "Z"
        if name == "to_string" and not args:
            return self.to_string(obj)
        return self.call_fn(name, [obj] + args)

    def call(self, e):
        _, f, args = e
        if f[0] != "id":
            raise self.shape("call of a computed function")
        n = f[1]
        r = self.resolve(n)
        if r is not None:
            if r[1] != "fun":
                raise self.shape("call of %s which is a %s" % (n, r[1]))
            bs, ats = [], []
            for x in args:
                b, a, _ = self.ex(x)
                bs += b
                ats.append(a)
            t = self.tmp()
            return bs + ["%s <- %s %s ;;" % (t, r[0], " ".join(ats))], t, "val"
        if n in ("empty", "front", "back") and len(args) == 1:
            return self.range_op(n, args[0])
        if n == "call_exists" and len(args) == 3 and args[0] == ("bq", "=="):
            b1, a1, _ = self.ex(args[1])
            b2, a2, _ = self.ex(args[2])
            return b1 + b2, "(op_eq_exists %s %s)" % (a1, a2), "bool"
        if n == "to_string" and len(args) == 1:
            return self.to_string(args[0])
        if n == "clone" and len(args) == 1:
            b, a, k = self.ex(args[0])
            return b, "(clone_val %s)" % a, k
        if n == "range" and len(args) == 1:
            b, a, k = self.ex(args[0])
            if k != "list":
                raise self.shape("range(%s) of a %s" % (a, k))
            return b, "(mk_range %s)" % a, "range"
        if n == "new" and len(args) == 1:
            b, a, k = self.ex(args[0])
            if k != "list":
                raise self.shape("new(%s) of a %s" % (a, k))
            return b, "(new_like %s)" % a, "list"
        if n == "Vector" and not args:
            return [], "vector_new", "list"
        return self.call_fn(n, args)

    def call_fn(self, name, args):
        sig = self.table.get((None, name, len(args)))
        if sig is None:
            cands = [k for k in self.table if k[0] is not None and k[1] == name and k[2] == len(args) - 1]
            if len(cands) != 1:
                raise self.shape("call of unknown function %s/%d" % (name, len(args)))
            sig = self.table[cands[0]]
        plist = this_params(sig) + [kd for _, kd in sig["params"]]
        bs, ats, outs = [], [], []
        for x, kd in zip(args, plist):
            if kd == "ins":
                if x[0] == "call" and x[1] == ("id", "back_inserter") and len(x[2]) == 1 and x[2][0][0] == "id":
                    r = self.resolve(x[2][0][1])
                    if r is None or r[1] not in ("list", "ins") or r[0] not in self.order:
                        raise self.shape("back_inserter(%s)" % x[2][0][1])
                elif x[0] == "id" and self.is_ins(x[1]):
                    r = self.resolve(x[1])
                    if r[0] not in self.order:
                        raise self.shape("inserter %s" % x[1])
                else:
                    raise self.shape("argument in inserter position of %s is not an inserter" % name)
                ats.append(r[0])
                outs.append(r[0])
                continue
            b, a, k = self.ex(x)
            bs += b
            ats.append(a)
            if kd in ("list", "range") and (kd != "range" or sig["this"]):
                rebind = "_"
                if x[0] == "id" or x == ("id", "this") or (x[0] == "attr" and x[1] == ("id", "this")):
                    if a in self.order:
                        rebind = a
                outs.append(rebind)
        named = [o for o in outs if o != "_"]
        if len(set(named)) != len(named):
            raise self.shape("the same object passed twice by reference to %s" % name)
        t = self.tmp()
        pat = "'(%s, %s)" % (t, self.tup(outs)) if outs else t
        return bs + ["%s <- %s %s ;;" % (pat, sig["coq"], " ".join(ats))], t, sig["ret"]

    # ---- guards
    def guard(self, g, pnames):
        out = ""
        for c in flatten_and(g):
            if (c[0] == "call" and c[1] == ("id", "call_exists") and c[2] and c[2][0][0] == "id" and c[2][0][1] in TYPING_GUARD_FUNS
                    and all(a[0] == "id" and a[1] in pnames for a in c[2][1:])):
                self.notes.append("guard call_exists(%s, %s): holds by typing" % (c[2][0][1], ", ".join(a[1] for a in c[2][1:])))
                continue
            if c[0] == "un" and c[1] == "!" and c[2][0] == "mcall" and c[2][2] == "is_type" and c[2][3] == [("str", '"string"')]:
                self.notes.append("guard !is_type(\"string\"): holds by typing")
                continue
            b, a, _ = self.ex(c)
            out += B(b) + "_ <- guard %s ;;\n    " % a
        return out


def this_params(sig):
    th = sig["this"]
    if not th:
        return []
    if th[0] == "var":
        return [th[2]]
    return [th[1][a][1] for a in sorted(th[1])]


def translate_def(d, sig, table, where):
    if len(sig["params"]) != len(d["params"]):
        raise Shape("prelude/%s: %d parameters, expected %d" % (where, len(d["params"]), len(sig["params"])))
    tr = Tr(d, sig, table, where)
    binders = []
    th = sig["this"]
    if th:
        if th[0] == "var":
            c = tr.add_var("this", th[2], ref=True)
            binders.append("(%s : %s)" % (c, th[1]))
        else:
            for a in sorted(th[1]):
                c = tr.add_var("this." + a, th[1][a][1], coq="this_" + a, ref=True)
                binders.append("(%s : %s)" % (c, th[1][a][0]))
    for (ty, name), (cty, kind) in zip(d["params"], sig["params"]):
        isref = kind in ("list", "ins")
        c = tr.add_var(name, kind, mutable=isref, ref=isref)
        binders.append("(%s : %s)" % (c, cty))
    pre = tr.guard(d["guard"], [n for _, n in d["params"]]) if d["guard"] else ""
    body = pre + tr.stmts(d["body"], "tt", lambda v: "ret %s" % tr.fnwrap(v))
    notes = "".join("   %s\n" % n for n in dict.fromkeys(tr.notes))
    return "(* %s\n%s*)\nDefinition %s %s %s : M E _ :=\n    %s.\n" % (
        d["text"].replace("(*", "( *").replace("*)", "* )"), notes, sig["coq"], sig["impl"], " ".join(binders), body)


HEADER = """(* GENERATED by tools/translate/t_Prelude.py from include/chaiscript/language/chaiscript_prelude.hpp — do not edit.
   One definition per prelude function, in the range monad of PreludeDefs.v. *)
From Coq Require Import ZArith List Bool String Ascii.
From ChaiV Require Import PreludeDefs.
Import ListNotations.
Local Open Scope Z_scope.
Local Open Scope pm_scope.

"""


def translate(repo):
    defs = parse_prelude(repo)
    out = [HEADER]
    seen_pinned = {}
    attrs = [d for d in defs if d["kind"] == "attr"]
    if [(a["cls"], a["name"]) for a in attrs] != [("retro", "m_range")]:
        raise Shape("prelude: attribute declarations changed: %r" % attrs)
    done = set()
    items = []
    for d in defs:
        if d["kind"] != "def":
            continue
        cls, name, n = d["cls"], d["name"], len(d["params"])
        where = "%s%s/%d" % (cls + "::" if cls else "", name, n)
        if cls is None and name == "to_string" and n == 1:
            gtext = d["text"].split(" : ", 1)[1].split(" {", 1)[0] if d["guard"] else ""
            sig = TO_STRING.get(gtext)
            if sig is None:
                raise Shape("prelude/to_string: unrecognised guard %r" % gtext)
            key = ("to_string", gtext)
        elif (cls, name, n) in SIGS:
            sig = SIGS[(cls, name, n)]
            key = (cls, name, n)
            if (cls, name, n) == ("retro", "retro", 1):
                gtext = d["text"].split(" : ", 1)[1].split(" {", 1)[0] if d["guard"] else ""
                if gtext != RETRO_CTOR_GUARD:
                    raise Shape("prelude/retro::retro: guard changed")
        else:
            base = where
            i = seen_pinned.get(base, 0)
            seen_pinned[base] = i + 1
            k = base if base in PINNED else "%s#%d" % (base, i)
            if PINNED.get(k) != d["text"]:
                raise Shape("prelude/%s: definition outside the translated subset changed or is new: %s" % (where, d["text"][:120]))
            done.add(k)
            continue
        if key in done:
            raise Shape("prelude/%s: defined twice" % where)
        done.add(key)
        items.append((sig["coq"], translate_def(d, sig, SIGS, where)))
    missing = [k for k in list(SIGS) + [("to_string", g) for g in TO_STRING] + list(PINNED) if k not in done]
    if missing:
        raise Shape("prelude: definitions missing from the source: %r" % missing[:5])
    # Coq wants callees first: stable topological order on references to other translated functions
    names = {n for n, _ in items}
    emitted = set()
    while items:
        progress = False
        for it in list(items):
            body = it[1].split(":=", 1)[1]
            deps = {m for m in re.findall(r"\bp_\w+", body) if m in names and m != it[0]}
            if deps <= emitted:
                out.append(it[1])
                emitted.add(it[0])
                items.remove(it)
                progress = True
        if not progress:
            raise Shape("prelude: recursive definitions: %r" % [n for n, _ in items])
    return "\n".join(out)


if __name__ == "__main__":
    import sys
    print(translate(sys.argv[1] if len(sys.argv) > 1 else "/repo"))
