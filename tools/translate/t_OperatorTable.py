"""Translator: chaiscript_parser.hpp (grammar layer), chaiscript_common.hpp (enum Operator_Precedence)  ->  G_OperatorTable.v

Emits, as a `ParserDefs.gtables` record, what the grammar layer of the Gallina model takes as parameters:
  * create_operators(): the precedence ladder m_operators;
  * Operator_Matches: the symbol groups m_0 .. m_N and the fact that is_match / any_of dispatch `case i: match(m_i)`;
  * Operator(): which node each precedence builds (the switch over m_operators[t_precedence]);
  * Equation(): the assignment symbols in the order they are tried;  Prefix(): prefix_opers;
  * for every grammar function, its Keyword("...") literals in textual order;
  * Parse_Depth's default, the shape of Depth_Counter, and the list of functions that open a Depth_Counter first thing.
Fails loudly (Shape) on anything it does not recognise."""
import os, re
from cxxshape import *

PREC = ["Ternary_Cond", "Logical_Or", "Logical_And", "Bitwise_Or", "Bitwise_Xor", "Bitwise_And", "Equality", "Comparison", "Shift",
        "Addition", "Multiplication", "Prefix"]
# functions of the grammar layer, in source order (the lexical layer is LexDefs.v's business)
GRAMMAR_FUNCS = ["Arg", "Id_Arg_List", "Decl_Arg_List", "Arg_List", "Container_Arg_List", "Lambda", "Def", "Try", "If", "Class", "While",
                 "Range_Expression", "For_Guards", "For", "Case", "Switch", "Class_Block", "Block", "Return", "Break", "Continue",
                 "Dot_Fun_Array", "Var_Decl", "Paren_Expression", "Inline_Container", "Reference", "Prefix", "Value", "Operator_Helper",
                 "Operator", "Map_Pair", "Value_Range", "Equation", "Class_Statements", "Statements"]
LEX_COUNTED = ["Quoted_String", "Single_Quoted_String", "Char", "Keyword", "Symbol", "Eos", "Eol"]
NODE_KIND = {"Binary_Operator": "KBinary", "Logical_And": "KLogical_And", "Logical_Or": "KLogical_Or"}


def coq_bytes(b):
    return "[" + "; ".join(str(c) for c in b) + "]%N"


def coq_list_bytes(l):
    return "[" + "; ".join(coq_bytes(b) for b in l) + "]"


def ss_list(text, where, brace=False):
    """`SS("a"), SS("b")` (or SS{"a"}) -> [bytes]"""
    out, rest = [], text.strip()
    pat = r'SS\{"((?:[^"\\]|\\.)*)"\}\s*(?:,\s*|$)' if brace else r'SS\("((?:[^"\\]|\\.)*)"\)\s*(?:,\s*|$)'
    while rest:
        m = re.match(pat, rest)
        if not m:
            raise Shape("%s: not a list of Static_String literals near %r" % (where, rest[:40]))
        if "\\" in m.group(1) or not m.group(1):
            raise Shape("%s: escape or empty symbol %r" % (where, m.group(1)))
        out.append(m.group(1).encode("latin-1"))
        rest = rest[m.end():]
    return out


def enum_prec(csrc):
    m = re.search(r"enum class Operator_Precedence \{(.*?)\};", csrc, re.S)
    if not m:
        raise Shape("enum class Operator_Precedence not found")
    names = [x.strip() for x in m.group(1).split(",") if x.strip()]
    if names != PREC:
        raise Shape("enum Operator_Precedence changed: %r" % names)


def operators(src):
    body = function_body(src, r"constexpr static std::array<Operator_Precedence, (\d+)> create_operators\(\) noexcept")
    m = re.fullmatch(r"std::array<Operator_Precedence, (\d+)> operators = \{\{(.*)\}\}; return operators;", norm(body))
    if not m:
        raise Shape("create_operators(): changed shape: %r" % norm(body)[:200])
    ops = []
    for part in m.group(2).split(","):
        mm = re.fullmatch(r"Operator_Precedence::(\w+)", part.strip())
        if not mm or mm.group(1) not in PREC:
            raise Shape("create_operators(): unrecognised element %r" % part)
        ops.append(mm.group(1))
    if int(m.group(1)) != len(ops):
        raise Shape("create_operators(): array size %s but %d initialisers" % (m.group(1), len(ops)))
    if not re.search(r"constexpr static auto m_operators = create_operators\(\);", src):
        raise Shape("m_operators is no longer create_operators()")
    return ops


def matches(src):
    i = src.find("struct Operator_Matches")
    if i < 0:
        raise Shape("struct Operator_Matches not found")
    inner, _ = brace_block(src, src.find("{", i))
    groups = {}
    for m in re.finditer(r"std::array<utility::Static_String, (\d+)> m_(\d+)\{\{(.*?)\}\};", inner, re.S):
        syms = ss_list(m.group(3), "Operator_Matches::m_" + m.group(2))
        if int(m.group(1)) != len(syms):
            raise Shape("Operator_Matches::m_%s: size %s but %d symbols" % (m.group(2), m.group(1), len(syms)))
        groups[int(m.group(2))] = syms
    n = len(groups)
    if sorted(groups) != list(range(n)) or n == 0:
        raise Shape("Operator_Matches: groups are not m_0..m_%d: %r" % (n - 1, sorted(groups)))
    # is_match(t_str): every group is consulted
    b = function_body(inner, r"bool is_match\(std::string_view t_str\) const noexcept")
    want = ("constexpr std::array<std::size_t, %d> groups{{%s}}; return std::any_of(groups.begin(), groups.end(), "
            "[&t_str, this](const std::size_t group) { return is_match(group, t_str); });") % (n, ", ".join(str(k) for k in range(n)))
    if norm(b) != want:
        raise Shape("Operator_Matches::is_match(t_str) changed: %r" % norm(b))
    # the two switches: case i -> m_i, default -> false
    cases = " ".join("case %d: return match(m_%d);" % (k, k) for k in range(n)) + " default: return false;"
    b1 = function_body(inner, r"bool any_of\(const std::size_t t_group, Predicate &&predicate\) const")
    w1 = "auto match = [&predicate](const auto &array) { return std::any_of(array.begin(), array.end(), predicate); }; switch (t_group) { %s }" % cases
    if norm(b1) != w1:
        raise Shape("Operator_Matches::any_of changed: %r" % norm(b1))
    b2 = function_body(inner, r"constexpr bool is_match\(const std::size_t t_group, std::string_view t_str\) const noexcept")
    w2 = ("auto match = [&t_str](const auto &array) { return std::any_of(array.begin(), array.end(), [&t_str](const auto &v) { return v == t_str; }); }; "
          "switch (t_group) { %s }") % cases
    if norm(b2) != w2:
        raise Shape("Operator_Matches::is_match(group, str) changed: %r" % norm(b2))
    if not re.search(r"constexpr static Operator_Matches m_operator_matches\{\};", src):
        raise Shape("m_operator_matches is no longer a default-constructed Operator_Matches")
    h = function_body(src, r"bool is_operator\(std::string_view t_s\) const noexcept")
    if norm(h) != "return m_operator_matches.is_match(t_s);":
        raise Shape("is_operator changed: %r" % norm(h))
    oh = function_body(src, r"bool Operator_Helper\(const size_t t_precedence, std::string &oper\)")
    woh = ("return m_operator_matches.any_of(t_precedence, [&oper, this](const auto &elem) { if (Symbol(elem)) { oper = elem.c_str(); return true; } "
           "else { return false; } });")
    if norm(oh) != woh:
        raise Shape("Operator_Helper changed: %r" % norm(oh))
    return [groups[k] for k in range(n)]


def actions(src):
    body = function_body(src, r"bool Operator\(const size_t t_precedence = 0\)")
    sw = re.search(r"switch \(m_operators\[t_precedence\]\) ", body)
    if not sw:
        raise Shape("Operator(): `switch (m_operators[t_precedence])` not found")
    inner, end = brace_block(body, sw.end())
    frame = norm(body[:sw.start()] + "@SWITCH@" + body[end:])
    want = ("Depth_Counter dc{this}; bool retval = false; const auto prev_stack_top = m_match_stack.size(); "
            "if (m_operators[t_precedence] != Operator_Precedence::Prefix) { if (Operator(t_precedence + 1)) { retval = true; std::string oper; "
            "while (Operator_Helper(t_precedence, oper)) { while (Eol()) { } if (!Operator(t_precedence + 1)) { "
            "throw exception::eval_error(\"Incomplete '\" + oper + \"' expression\", File_Position(m_position.line, m_position.col), *m_filename); } "
            "@SWITCH@ } } } else { return Value(); } return retval;")
    if frame != want:
        raise Shape("Operator(): the code around the switch changed:\n got  %r\n want %r" % (frame, want))
    text = norm(inner)
    acts, pos = [], 0
    while pos < len(text):
        m = re.match(r"((?:case \(Operator_Precedence::\w+\): )+)", text[pos:])
        if not m:
            raise Shape("Operator(): unrecognised switch text near %r" % text[pos:pos + 60])
        labels = re.findall(r"Operator_Precedence::(\w+)", m.group(1))
        pos += m.end()
        e = text.find(" break;", pos)
        # the ternary case contains nested braces; find the `break;` at depth 0
        depth, j = 0, pos
        while j < len(text):
            if text[j] in "{(":
                depth += 1
            elif text[j] in "})":
                depth -= 1
            elif depth == 0 and text.startswith("break;", j):
                break
            j += 1
        stm = text[pos:j].strip()
        pos = j + len("break;")
        while pos < len(text) and text[pos] == " ":
            pos += 1
        tern = ("if (Symbol(\":\")) { if (!Operator(t_precedence + 1)) { throw exception::eval_error(\"Incomplete '\" + oper + \"' expression\", "
                "File_Position(m_position.line, m_position.col), *m_filename); } build_match<eval::If_AST_Node<Tracer>>(prev_stack_top); } else { "
                "throw exception::eval_error(\"Incomplete '\" + oper + \"' expression\", File_Position(m_position.line, m_position.col), *m_filename); }")
        mb = re.fullmatch(r"build_match<eval::(\w+)_AST_Node<Tracer>>\(prev_stack_top, oper\);", stm)
        if stm == tern:
            act = "OA_Ternary"
        elif mb and mb.group(1) in NODE_KIND:
            act = "OA_Build %s" % NODE_KIND[mb.group(1)]
        elif stm == "assert(false);":
            act = "OA_Unreachable"
        else:
            raise Shape("Operator(): case %r does something unrecognised: %r" % (labels, stm[:200]))
        for l in labels:
            if l not in PREC:
                raise Shape("Operator(): unknown precedence %r" % l)
            acts.append((l, act))
    return acts


def equation_syms(src):
    body = function_body(src, r"bool Equation\(\)")
    m = re.search(r"for \(const auto &sym :\s*\{(.*?)\}\) \{", body, re.S)
    if not m:
        raise Shape("Equation(): symbol loop not found")
    syms = ss_list(m.group(1), "Equation()", brace=True)
    frame = norm(body[:m.start(1)] + "@SYMS@" + body[m.end(1):])
    want = ("Depth_Counter dc{this}; const auto prev_stack_top = m_match_stack.size(); using SS = utility::Static_String; if (Operator()) { "
            "for (const auto &sym : {@SYMS@}) { if (Symbol(sym, true)) { SkipWS(true); if (!Equation()) { "
            "throw exception::eval_error(\"Incomplete equation\", File_Position(m_position.line, m_position.col), *m_filename); } "
            "build_match<eval::Equation_AST_Node<Tracer>>(prev_stack_top, sym.c_str()); return true; } } return true; } return false;")
    if frame != want:
        raise Shape("Equation() changed:\n got  %r\n want %r" % (frame, want))
    return syms


def prefix_opers(src):
    body = function_body(src, r"bool Prefix\(\)")
    m = re.search(r"const std::array<utility::Static_String, (\d+)> prefix_opers\{\{(.*?)\}\};", body, re.S)
    if not m:
        raise Shape("Prefix(): prefix_opers not found")
    ops = ss_list(m.group(2), "Prefix()", brace=True)
    if int(m.group(1)) != len(ops):
        raise Shape("Prefix(): array size")
    frame = norm(body[:m.start(2)] + "@OPS@" + body[m.end(2):])
    want = ("Depth_Counter dc{this}; const auto prev_stack_top = m_match_stack.size(); using SS = utility::Static_String; "
            "const std::array<utility::Static_String, %d> prefix_opers{{@OPS@}}; for (const auto &oper : prefix_opers) { "
            "const bool is_char = oper.size() == 1; if ((is_char && Char(oper.c_str()[0])) || (!is_char && Symbol(oper))) { "
            "if (!Operator(m_operators.size() - 1)) { throw exception::eval_error(\"Incomplete prefix '\" + std::string(oper.c_str()) + \"' expression\", "
            "File_Position(m_position.line, m_position.col), *m_filename); } "
            "build_match<eval::Prefix_AST_Node<Tracer>>(prev_stack_top, oper.c_str()); return true; } } return false;") % len(ops)
    if frame != want:
        raise Shape("Prefix() changed:\n got  %r\n want %r" % (frame, want))
    return ops


def func_bodies(src, names):
    out = {}
    for f in names:
        ms = list(re.finditer(r"\b(?:bool|void) %s\((?:[^()]|\([^()]*\))*\)\s*(?:noexcept\s*)?\{" % re.escape(f), src))
        if len(ms) != 1:
            raise Shape("grammar function %s: %d definitions found" % (f, len(ms)))
        out[f] = brace_block(src, ms[0].end() - 1)[0]
    return out


def keywords(bodies):
    out = []
    for f in GRAMMAR_FUNCS:
        kws = re.findall(r'\bKeyword\("((?:[^"\\]|\\.)*)"\)', bodies[f])
        if re.search(r"\bKeyword\((?!\")", bodies[f]):
            raise Shape("%s: Keyword() called with something that is not a string literal" % f)
        for k in kws:
            if not re.fullmatch(r"[a-z]+", k):
                raise Shape("%s: unexpected keyword spelling %r" % (f, k))
        out.append((f, [k.encode() for k in kws]))
    return out


def depth(src, bodies, lexbodies):
    m = re.search(r"template<typename Tracer, typename Optimizer, std::size_t Parse_Depth = (\d+)>\s*class ChaiScript_Parser final", src)
    if not m:
        raise Shape("ChaiScript_Parser's template header (Parse_Depth default) not found")
    limit = int(m.group(1))
    i = src.find("struct Depth_Counter")
    dc, _ = brace_block(src, src.find("{", i))
    want = ("static const auto max_depth = Parse_Depth; Depth_Counter(ChaiScript_Parser *t_parser) : parser(t_parser) { ++parser->m_current_parse_depth; "
            "if (parser->m_current_parse_depth > max_depth) { throw exception::eval_error(\"Maximum parse depth exceeded\", "
            "File_Position(parser->m_position.line, parser->m_position.col), *(parser->m_filename)); } } "
            "~Depth_Counter() noexcept { --parser->m_current_parse_depth; } ChaiScript_Parser *parser;")
    if norm(dc) != want:
        raise Shape("Depth_Counter changed: %r" % norm(dc))
    if not re.search(r"std::size_t m_current_parse_depth = 0;", src):
        raise Shape("m_current_parse_depth is no longer initialised to 0")
    p = function_body(src, r"AST_NodePtr parse\(const std::string &t_input, const std::string &t_fname\) override")
    if norm(p) != "ChaiScript_Parser<Tracer, Optimizer> parser(m_tracer, m_optimizer); return parser.parse_internal(t_input, t_fname);":
        raise Shape("parse() changed: %r" % norm(p))
    counted = [f for f in GRAMMAR_FUNCS if norm(bodies[f]).startswith("Depth_Counter dc{this};")]
    lexcounted = [f for f in LEX_COUNTED if norm(lexbodies[f]).startswith("Depth_Counter dc{this};")]
    for f in GRAMMAR_FUNCS + LEX_COUNTED:
        b = bodies.get(f) or lexbodies.get(f)
        if b.count("Depth_Counter") != (1 if (f in counted or f in lexcounted) else 0):
            raise Shape("%s: a Depth_Counter that is not the first statement" % f)
    return limit, counted, lexcounted


def translate(repo):
    inc = os.path.join(repo, "include/chaiscript")
    src = strip_comments(open(os.path.join(inc, "language/chaiscript_parser.hpp")).read())
    csrc = strip_comments(open(os.path.join(inc, "language/chaiscript_common.hpp")).read())
    enum_prec(csrc)
    ops = operators(src)
    grp = matches(src)
    if len(grp) != len(ops):
        raise Shape("%d precedence levels but %d symbol groups" % (len(ops), len(grp)))
    acts = actions(src)
    eq = equation_syms(src)
    pre = prefix_opers(src)
    bodies = func_bodies(src, GRAMMAR_FUNCS)
    lexbodies = func_bodies(src, LEX_COUNTED)
    kws = keywords(bodies)
    limit, counted, lexcounted = depth(src, bodies, lexbodies)
    q = lambda s: '"%s"' % s
    L = ["(* GENERATED by tools/translate/t_OperatorTable.py from /repo's working tree -- do not edit *)",
         "From Coq Require Import ZArith NArith List String.", "From ChaiV Require Import Ast LexDefs ParserDefs.", "Import ListNotations.",
         "Local Open Scope string_scope.", "",
         "Definition gtables_gen : gtables := mkG",
         "  (* create_operators() *) [%s]" % "; ".join(ops),
         "  (* Operator_Matches m_0 .. m_%d *)\n  [%s]" % (len(grp) - 1, ";\n   ".join("%s (* %s *)" % (coq_list_bytes(g), " ".join(s.decode() for s in g)) for g in grp)),
         "  (* Operator(): switch (m_operators[t_precedence]) *)\n  [%s]" % "; ".join("(%s, %s)" % a for a in acts),
         "  (* Equation() *) %s (* %s *)" % (coq_list_bytes(eq), " ".join(s.decode() for s in eq)),
         "  (* Prefix(): prefix_opers *) %s (* %s *)" % (coq_list_bytes(pre), " ".join(s.decode() for s in pre)),
         "  (* Keyword(\"...\") literals per grammar function *)\n  [%s]" % ";\n   ".join(
             "(%s, %s) (* %s *)" % (q(f), coq_list_bytes(k), " ".join(x.decode() for x in k)) for f, k in kws if k),
         "  (* Parse_Depth *) %d." % limit, "",
         "(* grammar functions whose first statement is `Depth_Counter dc{this};` *)",
         "Definition counted_gen : list string := [%s]." % "; ".join(q(f) for f in counted),
         "Definition lex_counted_gen : list string := [%s]." % "; ".join(q(f) for f in lexcounted),
         "Definition grammar_funcs_gen : list string := [%s]." % "; ".join(q(f) for f in GRAMMAR_FUNCS), ""]
    return "\n".join(L)


if __name__ == "__main__":
    import sys
    print(translate(sys.argv[1] if len(sys.argv) > 1 else "/repo"))
