"""Translator: chaiscript_parser.hpp Id() / build_alphabet(), chaiscript_common.hpp Name_Validator,
utility/hash.hpp  ->  G_Keywords.v

Emits the FNV-1a constants, the `keyword_spellings` guard list and the case labels of Id()'s hash
switch with what each case builds, the hashed words and the spellings of is_reserved_word, and the
twelve character alphabets.  Fails loudly (Shape) on anything it does not recognise."""
import os, re
from cxxshape import *

ALPHABETS = ["symbol", "keyword", "int", "float", "x", "hex", "b", "bin", "id", "white", "int_suffix", "float_suffix"]
ESC = {"\\t": 9, "\\n": 10, "\\r": 13, "\\\\": 92, "\\'": 39}


def cstr_list(text, where):
    """`"a", "b", ...` -> [bytes]"""
    out = []
    rest = text.strip()
    while rest:
        m = re.match(r'"((?:[^"\\]|\\.)*)"\s*(?:,\s*|$)', rest)
        if not m:
            raise Shape("%s: not a list of string literals near %r" % (where, rest[:30]))
        if "\\" in m.group(1):
            raise Shape("%s: escape in spelling %r" % (where, m.group(1)))
        out.append(m.group(1).encode("latin-1"))
        rest = rest[m.end():]
    return out


def coq_bytes(b):
    return "[" + "; ".join(str(c) for c in b) + "]%N"


def coq_list_bytes(l):
    return "[" + "; ".join(coq_bytes(b) for b in l) + "]"


# ---------------------------------------------------------------- hash.hpp
def fnv(src):
    m = re.search(r"namespace fnv1a \{(.*?)\} // namespace fnv1a|namespace fnv1a \{", src, re.S)
    i = src.find("namespace fnv1a")
    if i < 0:
        raise Shape("hash.hpp: namespace fnv1a not found")
    body = function_body(src[i:], r"static constexpr std::uint32_t hash\(Itr begin, Itr end\) noexcept")
    stm = [norm(h) for k, h, inner in top_level_blocks(body) if k == "stmt"]
    loops = [(norm(h), norm(inner)) for k, h, inner in top_level_blocks(body) if k == "while"]
    m0 = re.fullmatch(r"std::uint32_t h = (0x[0-9a-fA-F]+);", stm[0]) if stm else None
    if not m0 or stm[1:] != ["return h;"] or len(loops) != 1 or loops[0][0] != "while (begin != end)":
        raise Shape("hash.hpp: fnv1a::hash changed shape: %r %r" % (stm, loops))
    m1 = re.fullmatch(r"h = \(h \^ \(\*begin\)\) \* (0x[0-9a-fA-F]+); \+\+begin;", loops[0][1])
    if not m1:
        raise Shape("hash.hpp: fnv1a step changed: %r" % loops[0][1])
    if not re.search(r"using fnv1a::hash;", src):
        raise Shape("hash.hpp: utility::hash is no longer fnv1a::hash")
    return int(m0.group(1), 16), int(m1.group(1), 16)


# ---------------------------------------------------------------- Id()
NODE = r"m_match_stack\.push_back\( ?make_node<eval::Constant_AST_Node<Tracer>>\((?:text|std::move\(text\)), start\.line, start\.col, (.*)\)\);"
FUNC_BODY = ('std::string fun_name = "NOT_IN_FUNCTION"; for (size_t idx = m_match_stack.empty() ? 0 : m_match_stack.size() - 1; idx > 0; --idx) { '
             'if (m_match_stack[idx - 1]->identifier == AST_Node_Type::Id && m_match_stack[idx - 0]->identifier == AST_Node_Type::Arg_List) { '
             'fun_name = m_match_stack[idx - 1]->text; } } ')
CLASS_BODY = ('std::string fun_name = "NOT_IN_CLASS"; for (size_t idx = m_match_stack.empty() ? 0 : m_match_stack.size() - 1; idx > 1; --idx) { '
              'if (m_match_stack[idx - 2]->identifier == AST_Node_Type::Id && m_match_stack[idx - 1]->identifier == AST_Node_Type::Id '
              '&& m_match_stack[idx - 0]->identifier == AST_Node_Type::Arg_List) { fun_name = m_match_stack[idx - 2]->text; } } ')
VALUES = {"const_var(true)": "KW_true", "const_var(false)": "KW_false",
          "const_var(std::numeric_limits<double>::infinity())": "KW_Infinity",
          "const_var(std::numeric_limits<double>::quiet_NaN())": "KW_NaN",
          "const_var(start.line)": "KW_LINE", "const_var(m_filename)": "KW_FILE",
          "Boxed_Value(std::make_shared<dispatch::Placeholder_Object>())": "KW_placeholder"}
DEFAULT_BODY = ("auto val = text; if (*start == '`') { val = Position::str(start + 1, m_position - 1); } "
                "m_match_stack.push_back(make_node<eval::Id_AST_Node<Tracer>>(val, start.line, start.col));")
ID_FRAME = ("SkipWS(); const auto start = m_position; if (Id_()) { auto text = Position::str(start, m_position); "
            "constexpr std::string_view keyword_spellings[] = {@SPELLINGS@}; "
            "const bool is_keyword = std::find(std::begin(keyword_spellings), std::end(keyword_spellings), std::string_view(text)) != std::end(keyword_spellings); "
            "const auto text_hash = is_keyword ? utility::hash(text) : utility::hash(\"\"); @ASSERT@ "
            "if (validate) { validate_object_name(text); } @SWITCH@ return true; } else { return false; }")


def id_tables(src):
    body = function_body(src, r"bool Id\(const bool validate\)")
    body = "\n".join(l for l in body.split("\n") if not l.strip().startswith("#"))
    m = re.search(r"keyword_spellings\[\] = \{(.*?)\};", body, re.S)
    if not m:
        raise Shape("Id(): keyword_spellings not found (is the spelling comparison still there?)")
    spellings = cstr_list(m.group(1), "Id()/keyword_spellings")
    frame = body[:m.start(1)] + "@SPELLINGS@" + body[m.end(1):]
    ms = re.search(r"static_assert\(", frame)
    if ms:
        e = paren_end(frame, ms.end() - 1)
        if frame[e:e + 1] != ";":
            raise Shape("Id(): static_assert shape")
        frame = frame[:ms.start()] + "@ASSERT@" + frame[e + 1:]
    else:
        frame = frame.replace("if (validate)", "@ASSERT@ if (validate)", 1)
    sw = re.search(r"switch \(text_hash\) ", frame)
    if not sw:
        raise Shape("Id(): `switch (text_hash)` not found")
    inner, end = brace_block(frame, sw.end())
    frame = frame[:sw.start()] + "@SWITCH@" + frame[end:]
    if norm(frame) != norm(ID_FRAME):
        raise Shape("Id(): the code around the hash switch changed:\n got  %r\n want %r" % (norm(frame), norm(ID_FRAME)))
    parts = re.split(r'\bcase utility::hash\("((?:[^"\\]|\\.)*)"\): ', norm(inner))
    if parts[0].strip():
        raise Shape("Id(): text before the first case: %r" % parts[0][:60])
    cases = []
    for i in range(1, len(parts), 2):
        label, blk = parts[i], parts[i + 1].strip()
        if i + 2 >= len(parts):
            md = re.fullmatch(r"(\{.*\} break;) default: \{ (.*) \} break;", blk)
            if not md or norm(md.group(2)) != norm(DEFAULT_BODY):
                raise Shape("Id(): default case changed: %r" % blk[-300:])
            blk = md.group(1)
        mb = re.fullmatch(r"\{ (.*) \} break;", blk)
        if not mb:
            raise Shape("Id(): case %r is not `{ ... } break;`: %r" % (label, blk[:80]))
        stm = mb.group(1)
        kind = None
        if stm.startswith(norm(FUNC_BODY)):
            stm, kind = stm[len(norm(FUNC_BODY)):].strip(), "KW_FUNC"
        elif stm.startswith(norm(CLASS_BODY)):
            stm, kind = stm[len(norm(CLASS_BODY)):].strip(), "KW_CLASS"
        mn = re.fullmatch(NODE, stm)
        if not mn:
            raise Shape("Id(): case %r builds something unrecognised: %r" % (label, stm[:160]))
        val = mn.group(1).strip()
        if kind:
            if val != "const_var(fun_name)":
                raise Shape("Id(): case %r: unexpected value %r" % (label, val))
        elif val in VALUES:
            kind = VALUES[val]
        else:
            raise Shape("Id(): case %r: unrecognised value %r" % (label, val))
        cases.append((label.encode("latin-1"), kind))
    return spellings, cases


# ---------------------------------------------------------------- Name_Validator
RW_FRAME = ("const static std::unordered_set<std::uint32_t> words{@WORDS@}; if (words.count(utility::hash(s)) != 1) { return false; } "
            "constexpr std::string_view spellings[] = {@SPELLINGS@}; const std::string_view text(s); "
            "return std::find(std::begin(spellings), std::end(spellings), text) != std::end(spellings);")


def reserved(src):
    body = function_body(src, r"static bool is_reserved_word\(const T &s\) noexcept")
    m = re.search(r"words\{(.*?)\};", body, re.S)
    if not m:
        raise Shape("is_reserved_word: hash set not found")
    hashed = []
    for part in re.split(r",\s*(?=utility::hash)", m.group(1).strip()):
        mm = re.fullmatch(r'utility::hash\("((?:[^"\\]|\\.)*)"\)', part.strip())
        if not mm:
            raise Shape("is_reserved_word: unrecognised set element %r" % part)
        hashed.append(mm.group(1).encode("latin-1"))
    frame = body[:m.start(1)] + "@WORDS@" + body[m.end(1):]
    m2 = re.search(r"spellings\[\] = \{(.*?)\};", frame, re.S)
    if not m2:
        raise Shape("is_reserved_word: the spelling comparison after the hash test is gone")
    spell = cstr_list(m2.group(1), "is_reserved_word/spellings")
    frame = frame[:m2.start(1)] + "@SPELLINGS@" + frame[m2.end(1):]
    if norm(frame) != norm(RW_FRAME):
        raise Shape("is_reserved_word: changed shape: %r" % norm(frame))
    v = function_body(src, r"static bool valid_object_name\(const T &name\) noexcept")
    if norm(v) != 'return name.find("::") == std::string::npos && !is_reserved_word(name);':
        raise Shape("valid_object_name changed: %r" % norm(v))
    return hashed, spell


# ---------------------------------------------------------------- build_alphabet()
def char_lit(s, where):
    m = re.fullmatch(r"'(\\.|[^\\'])'", s.strip())
    if not m:
        raise Shape("%s: not a character literal: %r" % (where, s))
    c = m.group(1)
    if c in ESC:
        return ESC[c]
    if len(c) != 1:
        raise Shape("%s: escape %r" % (where, c))
    return ord(c)


def alphabets(src):
    body = function_body(src, r"constexpr static std::array<std::array<bool, detail::lengthof_alphabet>, detail::max_alphabet> build_alphabet\(\) noexcept")
    m = re.search(r"enum Alphabet \{(.*?)\};", src, re.S)
    names = [x.strip() for x in m.group(1).split(",")] if m else []
    want = ["symbol_alphabet = 0"] + [a + "_alphabet" for a in ALPHABETS[1:]] + ["max_alphabet", "lengthof_alphabet = 256"]
    if names != want:
        raise Shape("enum Alphabet changed: %r" % names)
    sets = {a: set() for a in ALPHABETS}

    def call(stmt, var=None, rng=None):
        mm = re.fullmatch(r"set_alphabet\(alphabet, detail::(\w+)_alphabet, (.+)\);", norm(stmt))
        if not mm or mm.group(1) not in sets:
            raise Shape("build_alphabet: unrecognised statement %r" % norm(stmt))
        if var is not None and mm.group(2) == var:
            sets[mm.group(1)].update(rng)
        else:
            sets[mm.group(1)].add(char_lit(mm.group(2), "build_alphabet"))

    items = top_level_blocks(body)
    if norm(items[0][1]) != "std::array<std::array<bool, detail::lengthof_alphabet>, detail::max_alphabet> alphabet{};" or norm(items[-1][1]) != "return alphabet;":
        raise Shape("build_alphabet: frame changed")
    for kind, head, inner in items[1:-1]:
        if kind == "stmt":
            call(head)
        elif kind == "for":
            mm = re.fullmatch(r"for \(size_t (\w+) = ('(?:\\.|[^'])'); \1 <= ('(?:\\.|[^'])'); \+\+\1\)", norm(head))
            if not mm:
                raise Shape("build_alphabet: unrecognised loop %r" % norm(head))
            lo, hi = char_lit(mm.group(2), "build_alphabet"), char_lit(mm.group(3), "build_alphabet")
            for k2, h2, i2 in top_level_blocks(inner):
                if k2 != "stmt":
                    raise Shape("build_alphabet: nested block in loop")
                call(h2, mm.group(1), range(lo, hi + 1))
        else:
            raise Shape("build_alphabet: unexpected %s block" % kind)
    # char_in_alphabet must still index with the byte value
    cia = function_body(src, r"constexpr bool char_in_alphabet\(char c, detail::Alphabet a\) const noexcept")
    if norm(cia) != "return m_alphabet[a][static_cast<uint8_t>(c)];":
        raise Shape("char_in_alphabet changed: %r" % norm(cia))
    return [sorted(sets[a]) for a in ALPHABETS]


STATIC = ["m_multiline_comment_end", "m_multiline_comment_begin", "m_singleline_comment", "m_annotation", "m_cr_lf"]
CESC = {"\\r": 13, "\\n": 10, "\\t": 9}


def static_strings(src):
    out = []
    for name in STATIC:
        m = re.search(r"constexpr static utility::Static_String %s\{\"((?:[^\"\\]|\\.)*)\"\};" % name, src)
        if not m:
            raise Shape("static string %s not found" % name)
        b, t, i = [], m.group(1), 0
        while i < len(t):
            if t[i] == "\\":
                if t[i:i + 2] not in CESC:
                    raise Shape("static string %s: escape %r" % (name, t[i:i + 2]))
                b.append(CESC[t[i:i + 2]])
                i += 2
            else:
                b.append(ord(t[i]))
                i += 1
        out.append(bytes(b))
    return out


def translate(repo):
    inc = os.path.join(repo, "include/chaiscript")
    psrc = strip_comments(open(os.path.join(inc, "language/chaiscript_parser.hpp")).read())
    csrc = strip_comments(open(os.path.join(inc, "language/chaiscript_common.hpp")).read())
    hsrc = strip_comments(open(os.path.join(inc, "utility/hash.hpp")).read())
    basis, prime = fnv(hsrc)
    spellings, cases = id_tables(psrc)
    hashed, rspell = reserved(csrc)
    alphas = alphabets(psrc)
    L = ["(* GENERATED by tools/translate/t_Keywords.py from /repo's working tree -- do not edit *)",
         "From Coq Require Import ZArith NArith List.", "From ChaiV Require Import LexDefs.", "Import ListNotations.", "",
         "Definition kw_tables_gen : kw_tables := mkKwTables",
         "  (* fnv1a offset basis, prime *) %d%%N %d%%N" % (basis, prime),
         "  (* Id(): keyword_spellings *) %s" % coq_list_bytes(spellings),
         "  (* Id(): case utility::hash(label) *) [" + ";\n    ".join("(%s, %s) (* %s *)" % (coq_bytes(l), k, l.decode("latin-1")) for l, k in cases) + "]",
         "  (* is_reserved_word: hashed words *) %s" % coq_list_bytes(hashed),
         "  (* is_reserved_word: spellings *) %s." % coq_list_bytes(rspell), "",
         "Definition alphabets_gen : alphabets := mkAlpha"]
    for a, s in zip(ALPHABETS, alphas):
        L.append("  (* %s_alphabet *) %s" % (a, coq_bytes(s)))
    L[-1] += "."
    L += ["", "(* %s *)" % ", ".join(STATIC), "Definition static_strings_gen : list (list N) := %s." % coq_list_bytes(static_strings(psrc)), ""]
    return "\n".join(L)


if __name__ == "__main__":
    import sys
    print(translate(sys.argv[1] if len(sys.argv) > 1 else "/repo"))
