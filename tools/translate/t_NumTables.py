"""Translator: boxed_number.hpp / chaiscript_algebraic.hpp / bootstrap.hpp  ->  G_NumTables.v

Recognises exactly the shapes the pinned source uses and fails loudly on
anything else (a failure is reported as a broken tie, not papered over)."""
import os, re
from cxxshape import *

CBIN = {"==": "CEq", "<": "CLt", ">": "CGt", "<=": "CLe", ">=": "CGe", "!=": "CNe", "+": "CAdd", "-": "CSub", "*": "CMul",
        "/": "CDiv", "%": "CRem", "<<": "CShl", ">>": "CShr", "&": "CAnd", "|": "COr", "^": "CXor"}
CUN = {"-": "UNeg", "+": "UPlus", "~": "UCompl"}
INT_ONLY_BIN = "if constexpr (!std::is_floating_point<LHS>::value && !std::is_floating_point<RHS>::value)"
CXXTYPES = {"int": "int", "double": "double", "long double": "ldouble", "float": "float", "char": "char", "unsigned char": "uchar",
            "unsigned int": "uint", "long": "long", "long long": "llong", "unsigned long": "ulong", "unsigned long long": "ullong",
            "std::int8_t": "int8", "std::int16_t": "int16", "std::int32_t": "int32", "std::int64_t": "int64", "std::uint8_t": "uint8",
            "std::uint16_t": "uint16", "std::uint32_t": "uint32", "std::uint64_t": "uint64", "wchar_t": "wchar", "char16_t": "char16",
            "char32_t": "char32"}


def parse_cases(body, where):
    """body of a `switch (t_oper) { ... }` -> list of (opcode, [statements])"""
    out = []
    parts = re.split(r"\bcase\s+Operators::Opers::(\w+)\s*:", body)
    head = parts[0].strip()
    if head:
        raise Shape("%s: unexpected text before first case: %r" % (where, head[:60]))
    for i in range(1, len(parts), 2):
        op, stm = parts[i], parts[i + 1]
        stm = re.sub(r"\bdefault\s*:\s*break\s*;\s*$", "", stm.strip()).strip()
        out.append((op, [s.strip() for s in stm.split(";") if s.strip()]))
    return out


def go_rows(src):
    body = function_body(src, r"static auto go\(Operators::Opers t_oper, const Boxed_Value &t_bv, LHS \*t_lhs, const LHS &c_lhs, const RHS &c_rhs\)")
    rows = []

    def walk(text, intonly, inplace, where):
        for kind, head, inner in top_level_blocks(text):
            if kind == "switch":
                if norm(head) != "switch (t_oper)":
                    raise Shape("go: unexpected switch head %r" % head)
                for op, stms in parse_cases(inner, where):
                    gz = govf = False
                    act = None
                    for s in stms:
                        s = norm(s)
                        if s == "check_divide_by_zero(c_rhs)":
                            if act: raise Shape("go/%s: guard after the operation" % op)
                            gz = True
                        elif s in ("check_divide_overflow(c_lhs, c_rhs)", "check_divide_overflow(*t_lhs, c_rhs)"):
                            if act: raise Shape("go/%s: guard after the operation" % op)
                            if (s.startswith("check_divide_overflow(*t_lhs")) != inplace:
                                raise Shape("go/%s: overflow guard inspects the wrong left operand" % op)
                            govf = True
                        elif (m := re.fullmatch(r"return const_var\(c_lhs (\S+) c_rhs\)", s)):
                            if act or inplace: raise Shape("go/%s: unexpected value-returning case" % op)
                            act = "ABin %s" % CBIN[m.group(1)]
                        elif (m := re.fullmatch(r"\*t_lhs (\S*)= c_rhs", s)):
                            if act or not inplace: raise Shape("go/%s: in-place operation outside `if (t_lhs)`" % op)
                            act = "AAsg None" if m.group(1) == "" else "AAsg (Some %s)" % CBIN[m.group(1)]
                        elif s == "return t_bv":
                            if not act or not act.startswith("AAsg"): raise Shape("go/%s: `return t_bv` without assignment" % op)
                        else:
                            raise Shape("go/%s: unrecognised statement %r" % (op, s))
                    if not act:
                        raise Shape("go/%s: no operation" % op)
                    rows.append((op, act, gz, govf, intonly, inplace))
            elif kind == "if":
                h = norm(head)
                if h == INT_ONLY_BIN:
                    walk(inner, True, inplace, where + "/intonly")
                elif h == "if (t_lhs)":
                    walk(inner, intonly, True, where + "/inplace")
                else:
                    raise Shape("go: unexpected condition %r" % h)
            elif kind == "stmt":
                if norm(head) not in ("throw chaiscript::detail::exception::bad_any_cast();",):
                    raise Shape("go: unexpected statement %r" % head)
            else:
                raise Shape("go: unexpected block kind %s" % kind)

    walk(body, False, False, "go")
    return rows


def unary_rows(src):
    body = function_body(src, r"inline static Boxed_Value oper\(Operators::Opers t_oper, const Boxed_Value &t_lhs\)")
    m = re.search(r"auto unary_operator = \[t_oper, &t_lhs\]\(const auto &c_lhs\)\s*\{", body)
    if not m:
        raise Shape("oper(unary): lambda not found")
    inner, end = brace_block(body, m.end() - 1)
    if norm(body[end:]) != "; return visit(t_lhs, unary_operator);":
        raise Shape("oper(unary): unexpected tail %r" % norm(body[end:]))
    rows = []
    first = True

    def walk(text, intonly, inplace):
        nonlocal first
        for kind, head, inn in top_level_blocks(text):
            h = norm(head)
            if kind == "stmt":
                if first and h == "auto *lhs = static_cast<std::decay_t<decltype(c_lhs)> *>(t_lhs.get_ptr());":
                    first = False
                    continue
                if h == "throw chaiscript::detail::exception::bad_any_cast();":
                    continue
                raise Shape("oper(unary): unexpected statement %r" % h)
            if kind == "if":
                if h == "if (lhs)":
                    walk(inn, intonly, True)
                elif h == "if constexpr (!std::is_floating_point_v<std::decay_t<decltype(c_lhs)>>)":
                    walk(inn, True, inplace)
                else:
                    raise Shape("oper(unary): unexpected condition %r" % h)
            elif kind == "switch":
                for op, stms in parse_cases(inn, "oper(unary)"):
                    s = [norm(x) for x in stms]
                    if s == ["++(*lhs)", "return t_lhs"] and inplace:
                        rows.append((op, "UInc", intonly, inplace))
                    elif s == ["--(*lhs)", "return t_lhs"] and inplace:
                        rows.append((op, "UDec", intonly, inplace))
                    elif len(s) == 1 and (mm := re.fullmatch(r"return const_var\(([-+~])c_lhs\)", s[0])) and not inplace:
                        rows.append((op, CUN[mm.group(1)], intonly, inplace))
                    else:
                        raise Shape("oper(unary)/%s: unrecognised %r" % (op, s))
    walk(inner, False, False)
    return rows


def type_ladder(src):
    body = function_body(src, r"static Common_Types get_common_type\(const Boxed_Value &t_bv\)")
    ents = []
    for m in re.finditer(r"inp_ == user_type<([^>]+)>\(\)\)\s*\{\s*return ([^;]+);", body):
        ty, ret = m.group(1).strip(), norm(m.group(2))
        if ty not in CXXTYPES:
            raise Shape("get_common_type: unknown C++ type %r" % ty)
        if (mm := re.fullmatch(r"Common_Types::t_(\w+)", ret)):
            ents.append((CXXTYPES[ty], "Direct", mm.group(1)))
        elif (mm := re.fullmatch(r"get_common_type\(sizeof\(([^)]+)\), (true|false|std::is_signed<([^>]+)>::value)\)", ret)):
            if mm.group(1).strip() != ty or (mm.group(3) and mm.group(3).strip() != ty):
                raise Shape("get_common_type: %s sized/signed as another type" % ty)
            ents.append((CXXTYPES[ty], "BySize", mm.group(2) if mm.group(2) in ("true", "false") else "native"))
        else:
            raise Shape("get_common_type: unrecognised return %r" % ret)
    if len(ents) != body.count("user_type<"):
        raise Shape("get_common_type: %d of %d rungs recognised" % (len(ents), body.count("user_type<")))
    # constexpr (size, signed) -> Common_Types chain
    cbody = function_body(src, r"constexpr static Common_Types get_common_type\(size_t t_size, bool t_signed\) noexcept")
    chain = []
    for m in re.finditer(r"\(t_size == (\d+)( && t_signed)?\)\s*\?\s*\(Common_Types::t_(\w+)\)", cbody):
        chain.append((int(m.group(1)), bool(m.group(2)), m.group(3)))
    m = re.search(r":\s*\(Common_Types::t_(\w+)\);", cbody)
    if not m or len(chain) != cbody.count("?"):
        raise Shape("get_common_type(size,signed): chain not recognised")
    default = m.group(1)
    # visit(): Common_Types -> the fixed-width C++ type the operand is read as
    vbody = function_body(src, r"inline static auto visit\(const Boxed_Value &bv, Callable &&callable\)")
    visit = re.findall(r"case Common_Types::t_(\w+):\s*return callable\(\*static_cast<const ([\w: ]+?) \*>\(bv.get_const_ptr\(\)\)\);", vbody)
    if len(visit) != vbody.count("case "):
        raise Shape("visit: not all cases recognised")
    return ents, chain, default, visit


def to_operator_table(alg):
    body = function_body(alg, r"constexpr static Opers to_operator\(std::string_view t_str, bool t_is_unary = false\) noexcept")
    ents = []
    for m in re.finditer(r'case utility::hash\("([^"]+)"\):\s*\{\s*return ([^;]+);\s*\}', body):
        text, ret = m.group(1), norm(m.group(2))
        if (mm := re.fullmatch(r"Opers::(\w+)", ret)):
            ents.append((text, mm.group(1), mm.group(1)))
        elif (mm := re.fullmatch(r"t_is_unary \? Opers::(\w+) : Opers::(\w+)", ret)):
            ents.append((text, mm.group(2), mm.group(1)))
        else:
            raise Shape("to_operator: unrecognised return %r" % ret)
    if len(ents) != body.count("case "):
        raise Shape("to_operator: %d of %d cases recognised" % (len(ents), body.count("case ")))
    if not re.search(r"default:\s*\{\s*return Opers::invalid;\s*\}", body):
        raise Shape("to_operator: default is not invalid")
    if "const auto op_hash = utility::hash(t_str);" not in body or "switch (op_hash)" not in body:
        raise Shape("to_operator: does not switch on hash(t_str)")
    return ents


def pod_methods(src, boot):
    body = function_body(boot, r"static void opers_arithmetic_pod\(Module &m\)")
    regs = re.findall(r'm\.add\(fun\(&Boxed_Number::(\w+)\), "([^"]+)"\);', body)
    if len(regs) != body.count("m.add("):
        raise Shape("opers_arithmetic_pod: unrecognised registration")
    meths = {}
    for m in re.finditer(r"static (?:const )?(?:Boxed_Number|bool) (\w+)\((?:const )?Boxed_Number &?t_lhs(?:, const Boxed_Number &t_rhs)?\)\s*\{\s*return (?:Boxed_Number|boxed_cast<bool>)\(oper\(Operators::Opers::(\w+), t_lhs\.bv(, t_rhs\.bv)?\)\);\s*\}", src):
        meths[m.group(1)] = (m.group(2), 2 if m.group(3) else 1)
    out = []
    for meth, name in regs:
        if meth not in meths:
            raise Shape("Boxed_Number::%s: body not of the form `return …(oper(Opers::X, t_lhs.bv[, t_rhs.bv]))`" % meth)
        out.append((name, meth, meths[meth][0], meths[meth][1]))
    return out


def coqbool(b):
    return "true" if b else "false"


def translate(repo):
    src = strip_comments(open(os.path.join(repo, "include/chaiscript/dispatchkit/boxed_number.hpp")).read())
    alg = strip_comments(open(os.path.join(repo, "include/chaiscript/language/chaiscript_algebraic.hpp")).read())
    boot = strip_comments(open(os.path.join(repo, "include/chaiscript/dispatchkit/bootstrap.hpp")).read())
    # the zero guard itself
    g = function_body(src, r"constexpr static inline void check_divide_by_zero\(\[\[maybe_unused\]\] T t\)")
    if norm(g) != norm("#ifndef CHAISCRIPT_NO_PROTECT_DIVIDEBYZERO if constexpr (!std::is_floating_point<T>::value) { if (t == 0) { throw chaiscript::exception::arithmetic_error(\"divide by zero\"); } } #endif"):
        raise Shape("check_divide_by_zero: body changed: %r" % norm(g))
    go = function_body(src, r"constexpr static inline void check_divide_overflow\(\[\[maybe_unused\]\] LHS t_lhs, \[\[maybe_unused\]\] RHS t_rhs\)")
    want = ("#ifndef CHAISCRIPT_NO_PROTECT_DIVIDEBYZERO if constexpr (!std::is_floating_point<LHS>::value && !std::is_floating_point<RHS>::value) { "
            "using Common = decltype(t_lhs / t_rhs); if constexpr (std::is_signed<Common>::value) { "
            "if (static_cast<Common>(t_rhs) == static_cast<Common>(-1) && static_cast<Common>(t_lhs) == std::numeric_limits<Common>::min()) { "
            "throw chaiscript::exception::arithmetic_error(\"integer overflow in division\"); } } } #endif")
    if norm(go) != norm(want):
        raise Shape("check_divide_overflow: body changed: %r" % norm(go))
    rows = go_rows(src)
    urows = unary_rows(src)
    ladder, chain, default, visit = type_ladder(src)
    toop = to_operator_table(alg)
    pods = pod_methods(src, boot)
    L = ["(* GENERATED by tools/translate/t_NumTables.py from /repo's working tree -- do not edit *)",
         "From Coq Require Import ZArith List String Bool.", "From ChaiV Require Import NumDefs.", "Import ListNotations.",
         "Local Open Scope string_scope.", "",
         "Definition go_table : list row := ["]
    L.append(";\n".join("  mkrow %s (%s) %s %s %s %s" % (op, act, coqbool(gz), coqbool(go_), coqbool(io), coqbool(ip)) for op, act, gz, go_, io, ip in rows))
    L += ["].", "", "Definition unary_table : list urow := ["]
    L.append(";\n".join("  mkurow %s %s %s %s" % (op, act, coqbool(io), coqbool(ip)) for op, act, io, ip in urows))
    L += ["].", "", "(* get_common_type(const Boxed_Value&): C++ type -> how its Common_Types is chosen *)",
          "Inductive ladder_kind := Direct (t : string) | BySize (signedness : string).",
          "Definition type_ladder : list (string * ladder_kind) := ["]
    L.append(";\n".join('  ("%s", %s "%s")' % (n, k, a) for n, k, a in ladder))
    L += ["].", "", "(* get_common_type(size, signed): first matching (size, requires signed) wins *)",
          "Definition size_chain : list (Z * bool * string) := ["]
    L.append(";\n".join('  (%d%%Z, %s, "%s")' % (sz, coqbool(sg), t) for sz, sg, t in chain))
    L += ["].", 'Definition size_chain_default : string := "%s".' % default, "",
          "(* visit(): Common_Types -> fixed-width type the bytes are read as *)",
          "Definition visit_table : list (string * string) := ["]
    L.append(";\n".join('  ("%s", "%s")' % (a, b.replace("std::", "")) for a, b in visit))
    L += ["].", "", "Definition to_operator_table : list (string * opcode * opcode) := ["]
    L.append(";\n".join('  ("%s", %s, %s)' % (t, b, u) for t, b, u in toop))
    L += ["].", "", "(* opers_arithmetic_pod: registered name, Boxed_Number method, opcode it passes to oper(), arity of the oper() overload it calls *)",
          "Definition pod_table : list (string * string * opcode * nat) := ["]
    L.append(";\n".join('  ("%s", "%s", %s, %d%%nat)' % (n, m, o, a) for n, m, o, a in pods))
    L += ["].", ""]
    return "\n".join(L)
