"""Translator: chaiscript_threading.hpp (+ the members that use it)  ->  G_ThreadStorage.v   (property C14)

From the text of class Thread_Storage (threads enabled): which expression keys the per-thread map in every accessor and
in the destructor, how that key is initialised (`this` => ByAddress; a const member initialised from an atomic counter's
pre-increment => ByFreshId), that the map is `static thread_local`; the Thread_Storage members of the engine; the
static data of the anchor files.  Anything unrecognised raises Shape."""
import os, re
from cxxshape import *


def coq_str(s):
    return '"' + s.replace('"', '""') + '"'


def coq_list(xs):
    return "[" + "; ".join(xs) + "]"


def drop_verif_hooks(src):
    """remove #ifdef CHAISCRIPT_VERIF ... #endif regions (verification hooks are not part of the library)"""
    out, skip, depth = [], False, 0
    for line in src.split("\n"):
        s = line.strip()
        if not skip and re.match(r"#\s*ifdef\s+CHAISCRIPT_VERIF\b", s):
            skip, depth = True, 1
            continue
        if skip:
            if re.match(r"#\s*if", s):
                depth += 1
            elif re.match(r"#\s*endif", s):
                depth -= 1
                if depth == 0:
                    skip = False
            continue
        out.append(line)
    return "\n".join(out)


def thread_storage(src):
    occ = [m for m in re.finditer(r"\bclass\s+Thread_Storage\s*\{", src)]
    if len(occ) != 2 or "#else" not in src[occ[0].end():occ[1].start()] or "#ifndef CHAISCRIPT_NO_THREADS" not in src[:occ[0].start()]:
        raise Shape("chaiscript_threading.hpp: expected the threaded Thread_Storage followed by the single-threaded one")
    sec, m = src, occ[0]
    body = brace_block(sec, m.end() - 1)[0]
    nb = norm(body)
    # accessors
    keys = []
    for sig, pat in (("operator->() const", r"inline const T \*operator->\(\) const noexcept \{ return &\(t\(\)\[(\w+)\]\); \}"),
                     ("operator*() const", r"inline const T &operator\*\(\) const noexcept \{ return t\(\)\[(\w+)\]; \}"),
                     ("operator->()", r"inline T \*operator->\(\) noexcept \{ return &\(t\(\)\[(\w+)\]\); \}"),
                     ("operator*()", r"inline T &operator\*\(\) noexcept \{ return t\(\)\[(\w+)\]; \}")):
        ms = re.findall(pat, nb)
        if len(ms) != 1:
            raise Shape("Thread_Storage::%s: accessor not recognised" % sig)
        keys.append((sig, ms[0]))
    ms = re.findall(r"~Thread_Storage\(\) \{ t\(\)\.erase\((\w+)\); \}", nb)
    if len(ms) != 1:
        raise Shape("Thread_Storage destructor: expected `t().erase(<key>);`")
    dkey = ms[0]
    # non-copyable, non-movable (an id or address must not be shared by two objects)
    for decl in ("Thread_Storage(const Thread_Storage &) = delete;", "Thread_Storage(Thread_Storage &&) = delete;",
                 "Thread_Storage &operator=(const Thread_Storage &) = delete;", "Thread_Storage &operator=(Thread_Storage &&) = delete;"):
        if decl not in nb:
            raise Shape("Thread_Storage: %s missing" % decl)
    # the map
    m = re.search(r"static std::unordered_map<([\w:\s\*]+), T> &t\(\) noexcept \{ static thread_local std::unordered_map<([\w:\s\*]+), T> my_t; return my_t; \}", nb)
    if not m or norm(m.group(1)) != norm(m.group(2)):
        raise Shape("Thread_Storage::t(): the per-thread map is not a function-local `static thread_local` unordered_map")
    keytype = norm(m.group(1))
    # how the key comes about
    used = set(k for _, k in keys) | {dkey}
    if len(used) != 1:
        policy, origin = None, "accessors and destructor use different keys: %s" % sorted(used)
    else:
        k = used.pop()
        if k == "this":
            if keytype not in ("const void *", "void *", "const Thread_Storage *"):
                raise Shape("Thread_Storage: keyed by `this` but the key type is %s" % keytype)
            policy, origin = "ByAddress", "this"
        else:
            mi = re.search(r"const ([\w:]+) %s = (\w+)\(\);" % re.escape(k), nb)
            if not mi or norm(mi.group(1)) != keytype:
                raise Shape("Thread_Storage: key member %s is not a const member of the map's key type initialised by a call" % k)
            fn = mi.group(2)
            mf = re.search(r"static ([\w:]+) %s\(\) noexcept \{ static std::atomic<([\w:]+)> (\w+)\{0\}; return \+\+(\w+); \}" % re.escape(fn), nb)
            if not mf or mf.group(3) != mf.group(4) or norm(mf.group(1)) != keytype or norm(mf.group(2)) != keytype:
                raise Shape("Thread_Storage: %s() is not `static std::atomic<K> c{0}; return ++c;`" % fn)
            policy, origin = "ByFreshId", "%s = %s(): pre-increment of a function-local static std::atomic<%s>" % (k, fn, keytype)
    return keys, dkey, policy, origin, keytype


def storage_members(inc):
    out = []
    for rel in ("dispatchkit/dispatchkit.hpp", "dispatchkit/type_conversions.hpp", "language/chaiscript_engine.hpp", "dispatchkit/boxed_value.hpp",
                "dispatchkit/proxy_functions.hpp", "language/chaiscript_eval.hpp", "language/chaiscript_common.hpp"):
        src = drop_verif_hooks(strip_comments(open(os.path.join(inc, rel)).read()))
        for m in re.finditer(r"(?:mutable\s+)?chaiscript::detail::threading::Thread_Storage<(.+?)>\s+(\w+);", src):
            out.append((rel, m.group(2)))
        if re.search(r"\bThread_Storage<", re.sub(r"chaiscript::detail::threading::Thread_Storage<.+?>\s+\w+;", "", src)):
            raise Shape("%s: a use of Thread_Storage that is not a plain data member" % rel)
    return out


def static_data(inc):
    """static / thread_local data (not functions, not constexpr constants) in the anchor files"""
    out = []
    for rel in ("chaiscript_threading.hpp", "dispatchkit/dispatchkit.hpp", "dispatchkit/type_conversions.hpp", "language/chaiscript_engine.hpp",
                "dispatchkit/boxed_value.hpp"):
        src = drop_verif_hooks(strip_comments(open(os.path.join(inc, rel)).read()))
        for line in src.split("\n"):
            s = norm(line)
            if not re.match(r"(static|thread_local)\b", s) or "static_cast" in s.split(" ")[0]:
                continue
            if re.match(r"static_assert\b", s) or re.match(r"static (constexpr|const bool|const char|const size_t|const int)\b", s):
                continue
            head = s.split("=")[0].split("{")[0]
            if "(" in head:
                continue        # a function
            m = re.search(r"(\w+)\s*(\{.*\})?\s*(=.*)?;$", s)
            if not m:
                raise Shape("%s: unrecognised static declaration %r" % (rel, s[:80]))
            out.append((rel, m.group(1)))
    return out


def translate(repo):
    inc = os.path.join(repo, "include", "chaiscript")
    th = strip_comments(open(os.path.join(inc, "chaiscript_threading.hpp")).read())
    keys, dkey, policy, origin, keytype = thread_storage(th)
    members = storage_members(inc)
    statics = static_data(inc)
    P = lambda xs: coq_list(["(%s, %s)" % (coq_str(a), coq_str(b)) for a, b in xs])
    lines = [
        "(* GENERATED by tools/translate/t_ThreadStorage.py from chaiscript_threading.hpp etc. — do not edit *)",
        "From Coq Require Import List String.",
        "From ChaiV Require Import ThreadStoreDefs.",
        "Import ListNotations.",
        "Local Open Scope string_scope.",
        "",
        "(* Thread_Storage<T>: the expression that keys the thread_local map, per accessor and in the destructor *)",
        "Definition accessor_keys : list (string * string) := %s." % P(keys),
        "Definition destructor_key : string := %s." % coq_str(dkey),
        "Definition map_key_type : string := %s." % coq_str(keytype),
        "(* %s *)" % origin.replace("*)", "* )"),
    ]
    if policy is None:
        lines.append("Definition thread_storage_policy_opt : option policy := None.")
    else:
        lines.append("Definition thread_storage_policy_opt : option policy := Some %s." % policy)
    lines += [
        "Definition thread_storage_policy : policy := match thread_storage_policy_opt with Some p => p | None => ByAddress end.",
        "",
        "(* the Thread_Storage data members of the engine, and the static / thread_local data of the anchor files *)",
        "Definition storage_members : list (string * string) := %s." % P(members),
        "Definition static_data : list (string * string) := %s." % P(statics),
        ""]
    return "\n".join(lines)


if __name__ == "__main__":
    import sys
    print(translate(sys.argv[1] if len(sys.argv) > 1 else "/repo"))
