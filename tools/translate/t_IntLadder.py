"""Translator: chaiscript_parser.hpp  buildInt / buildFloat  ->  G_IntLadder.v

Emits, as data, the suffix scans (`if (val == 'u' || val == 'U') ... else break`) and the
`if / else if / else` type ladders of buildInt (over the stoll result, over the stoull result, the
final fallback) and of buildFloat.  Fails loudly (Shape) on anything it does not recognise."""
import os, re
from cxxshape import *

ITY = {"int": "IInt", "unsigned int": "IUInt", "long": "ILong", "unsigned long": "IULong", "long long": "ILLong",
       "unsigned long long": "IULLong"}
FTY = {"float": "F32", "double": "F64", "long double": "F80"}
FLAGS = {"unsigned_": "F_unsigned", "long_": "F_long", "longlong_": "F_longlong", "float_": "F_float"}


# ---------------------------------------------------------------- condition expressions
def tokenize(s):
    toks, i = [], 0
    pat = re.compile(r"\s*(std::numeric_limits<[^>]+>::(?:min|max)\(\)|&&|\|\||!=|>=|<=|[()!+\-]|\d+|[A-Za-z_]\w*)")
    while i < len(s):
        m = pat.match(s, i)
        if not m:
            if s[i:].strip() == "":
                break
            raise Shape("condition: cannot tokenize %r" % s[i:i + 40])
        toks.append(m.group(1))
        i = m.end()
    return toks


class P:
    def __init__(self, toks, var, where):
        self.t, self.i, self.var, self.where = toks, 0, var, where

    def peek(self):
        return self.t[self.i] if self.i < len(self.t) else None

    def eat(self, x=None):
        t = self.peek()
        if t is None or (x is not None and t != x):
            raise Shape("%s: expected %r, found %r" % (self.where, x, t))
        self.i += 1
        return t

    def p_or(self):
        a = self.p_and()
        while self.peek() == "||":
            self.eat()
            a = "COr (%s) (%s)" % (a, self.p_and())
        return a

    def p_and(self):
        a = self.p_not()
        while self.peek() == "&&":
            self.eat()
            a = "CAnd (%s) (%s)" % (a, self.p_not())
        return a

    def p_not(self):
        if self.peek() == "!":
            self.eat()
            return "CNot (%s)" % self.p_not()
        return self.p_atom()

    def p_atom(self):
        t = self.peek()
        if t == "(":
            self.eat()
            a = self.p_or()
            self.eat(")")
            return a
        if t in FLAGS:
            self.eat()
            return "CFlag %s" % FLAGS[t]
        if t == "base":
            self.eat()
            self.eat("!=")
            n = self.eat()
            if not n.isdigit():
                raise Shape("%s: base compared with %r" % (self.where, n))
            return "CBaseNe %s" % n
        if t == self.var:
            self.eat()
            op = self.eat()
            lim = self.eat()
            m = re.fullmatch(r"std::numeric_limits<([^>]+)>::(min|max)\(\)", lim)
            if not m or norm(m.group(1)) not in ITY:
                raise Shape("%s: %s compared with %r" % (self.where, self.var, lim))
            ty, which = ITY[norm(m.group(1))], m.group(2)
            off = 0
            if self.peek() in ("+", "-"):
                sg = self.eat()
                n = self.eat()
                if not n.isdigit():
                    raise Shape("%s: offset %r" % (self.where, n))
                off = int(n) if sg == "+" else -int(n)
            if op == ">=" and which == "min" and off == 0:
                return "CGeMin %s" % ty
            if op == "<=" and which == "max":
                return "CLeMax %s (%d)" % (ty, off)
            raise Shape("%s: unrecognised range test `%s %s %s`" % (self.where, self.var, op, lim))
        raise Shape("%s: unexpected token %r in condition" % (self.where, t))


def cond(text, var, where):
    p = P(tokenize(text), var, where)
    c = p.p_or()
    if p.peek() is not None:
        raise Shape("%s: trailing tokens in condition %r" % (where, text))
    return c


def head_cond(head, kw):
    h = norm(head)
    if not h.startswith(kw + " (") or not h.endswith(")"):
        raise Shape("unexpected block head %r" % h)
    return h[len(kw) + 2:-1]


# ---------------------------------------------------------------- suffix scan
def suffix_scan(body, where, actions):
    """body of `for (; i > 0; --i) { ... }` -> [(chars, action)]"""
    items = top_level_blocks(body)
    if not items or items[0][0] != "stmt" or not re.fullmatch(r"(const )?char val = t_val\[i - 1\];", norm(items[0][1])):
        raise Shape("%s: suffix loop does not start with `char val = t_val[i - 1];`" % where)
    rules = []
    saw_break = False
    for n, (kind, head, inner) in enumerate(items[1:]):
        if saw_break:
            raise Shape("%s: statements after the final else" % where)
        if kind == "else":
            if norm(inner) != "break;":
                raise Shape("%s: final else is not `break;`: %r" % (where, norm(inner)))
            saw_break = True
            continue
        if kind != ("if" if n == 0 else "elif"):
            raise Shape("%s: unexpected %s block in suffix scan" % (where, kind))
        c = head_cond(head, "if" if n == 0 else "else if")
        chars = []
        for part in c.split("||"):
            m = re.fullmatch(r"val == '(.)'", part.strip())
            if not m:
                raise Shape("%s: unrecognised suffix test %r" % (where, part))
            chars.append(ord(m.group(1)))
        act = norm(inner)
        if act not in actions:
            raise Shape("%s: unrecognised suffix action %r" % (where, act))
        rules.append((chars, actions[act]))
    if not saw_break:
        raise Shape("%s: suffix scan has no `else break`" % where)
    return rules


def ladder(items, var, where, types, cast_required):
    """[if/elif/else blocks] -> ([(cond, type)], else type)"""
    rows, dflt = [], None
    for n, (kind, head, inner) in enumerate(items):
        if dflt is not None:
            raise Shape("%s: blocks after else" % where)
        body = norm(inner)
        if cast_required:
            m = re.fullmatch(r"return const_var\(static_cast<([^>]+)>\(%s\)\);" % var, body)
        else:
            m = re.fullmatch(r"return const_var\(parse_num<([^>]+)>\(t_val\.substr\(0, i\)\)\);", body)
        if not m or norm(m.group(1)) not in types:
            raise Shape("%s: unrecognised ladder result %r" % (where, body))
        ty = types[norm(m.group(1))]
        if kind == "else":
            dflt = ty
        elif kind == ("if" if n == 0 else "elif"):
            rows.append((cond(head_cond(head, "if" if n == 0 else "else if"), var, where), ty))
        else:
            raise Shape("%s: unexpected %s block in ladder" % (where, kind))
    if dflt is None:
        raise Shape("%s: ladder has no else" % where)
    return rows, dflt


def build_int(src):
    body = function_body(src, r"static Boxed_Value buildInt\(const int base, std::string_view t_val, const bool prefixed\)")
    items = [(k, h, i) for k, h, i in top_level_blocks(body) if k != "pp"]
    want_decls = ["bool unsigned_ = false;", "bool long_ = false;", "bool longlong_ = false;", "auto i = t_val.size();"]
    if [norm(h) for k, h, i in items[:4]] != want_decls:
        raise Shape("buildInt: unexpected declarations %r" % [norm(h) for k, h, i in items[:4]])
    k, h, inner = items[4]
    if k != "for" or norm(h) != "for (; i > 0; --i)":
        raise Shape("buildInt: suffix loop not found: %r" % norm(h))
    rules = suffix_scan(inner, "buildInt", {"unsigned_ = true;": "SA_unsigned", "if (long_) { longlong_ = true; } long_ = true;": "SA_long",
                                            "long_ = true;": "SA_long_plain"})
    k, h, inner = items[5]
    if k != "if" or norm(h) != "if (prefixed)" or norm(inner) != "t_val.remove_prefix(2);":
        raise Shape("buildInt: prefix removal changed: %r %r" % (norm(h), norm(inner)))
    if len(items) != 8 or items[6][0] != "try" or items[7][0] != "catch" or norm(items[7][1]) != "catch (const std::out_of_range &)":
        raise Shape("buildInt: try/catch structure changed")
    t1 = top_level_blocks(items[6][2])
    if norm(t1[0][1]) != "auto u = std::stoll(std::string(t_val), nullptr, base);":
        raise Shape("buildInt: first conversion is not stoll: %r" % norm(t1[0][1]))
    signed_rows, signed_else = ladder(t1[1:], "u", "buildInt/stoll", ITY, True)
    c1 = top_level_blocks(items[7][2])
    if len(c1) != 2 or c1[0][0] != "try" or c1[1][0] != "catch" or norm(c1[1][1]) != "catch (const std::out_of_range &)":
        raise Shape("buildInt: inner try/catch structure changed")
    t2 = top_level_blocks(c1[0][2])
    if norm(t2[0][1]) != "auto u = std::stoull(std::string(t_val), nullptr, base);":
        raise Shape("buildInt: second conversion is not stoull: %r" % norm(t2[0][1]))
    uns_rows, uns_else = ladder(t2[1:], "u", "buildInt/stoull", ITY, True)
    fb = norm(c1[1][2])
    m = re.fullmatch(r"return const_var\(std::numeric_limits<([^>]+)>::max\(\)\);", fb)
    if not m or norm(m.group(1)) not in ITY:
        raise Shape("buildInt: fallback changed: %r" % fb)
    return rules, signed_rows, signed_else, uns_rows, uns_else, ITY[norm(m.group(1))]


def build_float(src):
    body = function_body(src, r"static Boxed_Value buildFloat\(std::string_view t_val\)")
    items = top_level_blocks(body)
    if [norm(h) for k, h, i in items[:3]] != ["bool float_ = false;", "bool long_ = false;", "auto i = t_val.size();"]:
        raise Shape("buildFloat: unexpected declarations")
    k, h, inner = items[3]
    if k != "for" or norm(h) != "for (; i > 0; --i)":
        raise Shape("buildFloat: suffix loop not found")
    rules = suffix_scan(inner, "buildFloat", {"float_ = true;": "SA_float", "long_ = true;": "SA_long_plain"})
    rows, dflt = ladder(items[4:], "u", "buildFloat", FTY, False)
    return rules, rows, dflt


def coq_rules(rules):
    return "[" + "; ".join("([%s]%%N, %s)" % ("; ".join(str(c) for c in cs), a) for cs, a in rules) + "]"


def coq_ladder(rows):
    return "[\n" + ";\n".join("    (%s, %s)" % (c, t) for c, t in rows) + "\n  ]"


def translate(repo):
    src = strip_comments(open(os.path.join(repo, "include/chaiscript/language/chaiscript_parser.hpp")).read())
    rules, srows, selse, urows, uelse, fb = build_int(src)
    frules, frows, felse = build_float(src)
    L = ["(* GENERATED by tools/translate/t_IntLadder.py from /repo's working tree -- do not edit *)",
         "From Coq Require Import ZArith NArith List.", "From ChaiV Require Import NumDefs LexDefs.", "Import ListNotations.", "Local Open Scope Z_scope.", "",
         "Definition int_tables_gen : int_tables := mkIntTables",
         "  (* buildInt: suffix scan *) %s" % coq_rules(rules),
         "  (* buildInt: ladder over stoll *) %s %s" % (coq_ladder(srows), selse),
         "  (* buildInt: ladder over stoull *) %s %s" % (coq_ladder(urows), uelse),
         "  (* buildInt: fallback std::numeric_limits<T>::max() *) (%s, ity_max %s)" % (fb, fb),
         "  (* buildFloat: suffix scan *) %s" % coq_rules(frules),
         "  (* buildFloat: ladder *) %s %s." % (coq_ladder(frows), felse), ""]
    return "\n".join(L)


if __name__ == "__main__":
    import sys
    print(translate(sys.argv[1] if len(sys.argv) > 1 else "/repo"))
