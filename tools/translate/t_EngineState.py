"""Translator: dispatchkit.hpp / chaiscript_engine.hpp / quick_flat_map.hpp  ->  G_EngineState.v   (property C15)

Extracts, from the text of the current tree,
  * the fields of Dispatch_Engine::State and ChaiScript_Basic::State, the data members of both classes,
    and which fields get_state / set_state copy at both levels;
  * the statement list of add_function's "name already known" branch (copy-on-write or not), the tables
    that receive the new function object, and that the two "new name" branches have the recognised shape;
  * the guard of QuickFlatMap::find(s, hint).
Anything not recognised raises Shape (reported as a broken tie)."""
import os, re
from cxxshape import *


def coq_str(s):
    return '"' + s.replace('"', '""') + '"'


def coq_list(xs):
    return "[" + "; ".join(xs) + "]"


def class_body(src, name):
    m = re.search(r"\bclass\s+%s\b[^;{]*\{" % re.escape(name), src)
    if not m:
        raise Shape("class %s not found" % name)
    return brace_block(src, m.end() - 1)[0]


def struct_fields(body, name):
    m = re.search(r"\bstruct\s+%s\s*\{" % re.escape(name), body)
    if not m:
        raise Shape("struct %s not found" % name)
    inner = brace_block(body, m.end() - 1)[0]
    return data_members(inner, "struct " + name)


def data_members(body, where):
    """names of the non-static data members declared at the top level of a class/struct body"""
    # replace every top-level brace block by ';' (function bodies, nested types), keep `= {..}` initialisers
    out, i, n = [], 0, len(body)
    while i < n:
        c = body[i]
        if c == '"' or c == "'":
            k = i + 1
            while k < n and body[k] != c:
                k += 2 if body[k] == "\\" else 1
            out.append(body[i:k + 1])
            i = k + 1
        elif c == "{":
            _, e = brace_block(body, i)
            prev = "".join(out).rstrip()
            out.append("{}" if prev.endswith("=") else ";")
            i = e
        else:
            out.append(c)
            i += 1
    flat = "".join(out)
    flat = re.sub(r"^\s*#.*$", "", flat, flags=re.M)
    flat = re.sub(r"\b(public|private|protected)\s*:", ";", flat)
    names = []
    for chunk in flat.split(";"):
        c = norm(chunk)
        if not c:
            continue
        prev = None
        while prev != c:                                  # drop template argument lists
            prev = c
            c = re.sub(r"<[^<>()]*(\([^()]*\))?[^<>()]*>", "", c)
        if "(" in c:
            continue                                      # function / constructor declaration or definition head
        if re.match(r"(using|typedef|friend|template|static|class|struct|enum|namespace)\b", c):
            continue
        c = re.sub(r"\s*=\s*.*$", "", c)                    # default member initialiser
        m = re.fullmatch(r"(?:mutable\s+)?[\w:\s]+?[\s&\*](\w+)", c)
        if not m:
            raise Shape("%s: unrecognised member declaration %r" % (where, c[:80]))
        names.append(m.group(1))
    return names


def statements(body):
    return [(k, norm(h), inner) for k, h, inner in top_level_blocks(body)]


LOCK = re.compile(r"chaiscript::detail::threading::(shared_lock|unique_lock|lock_guard)<chaiscript::detail::threading::(shared_mutex|recursive_mutex)> \w+\(m_(use_)?mutex\);")


def engine_get_set(src, fields):
    g = function_body(src, r"\bState get_state\(\) const")
    got = None
    decl = False
    copies = []
    for k, h, _ in statements(g):
        if k != "stmt":
            raise Shape("Dispatch_Engine::get_state: unexpected block %r" % h[:60])
        if LOCK.fullmatch(h):
            continue
        if h == "return m_state;":
            got = list(fields)
        elif h == "State s;":
            decl = True
        elif (m := re.fullmatch(r"s\.(\w+) = m_state\.(\w+);", h)) and decl and m.group(1) == m.group(2):
            copies.append(m.group(1))
        elif h == "return s;" and decl:
            got = copies
        else:
            raise Shape("Dispatch_Engine::get_state: unrecognised statement %r" % h[:80])
    if got is None:
        raise Shape("Dispatch_Engine::get_state returns nothing recognisable")
    s = function_body(src, r"\bvoid set_state\(const State &t_state\)")
    sets = []
    for k, h, _ in statements(s):
        if k != "stmt":
            raise Shape("Dispatch_Engine::set_state: unexpected block %r" % h[:60])
        if LOCK.fullmatch(h):
            continue
        if h == "m_state = t_state;":
            sets += [f for f in fields if f not in sets]
        elif (m := re.fullmatch(r"m_state\.(\w+) = t_state\.(\w+);", h)) and m.group(1) == m.group(2):
            sets.append(m.group(1))
        else:
            raise Shape("Dispatch_Engine::set_state: unrecognised statement %r" % h[:80])
    return got, sets


def chai_get_set(src):
    g = function_body(src, r"\bState get_state\(\) const")
    gets, seen_decl, seen_ret = [], False, False
    for k, h, _ in statements(g):
        if k != "stmt":
            raise Shape("ChaiScript_Basic::get_state: unexpected block %r" % h[:60])
        if LOCK.fullmatch(h):
            continue
        if h == "State s;":
            seen_decl = True
        elif (m := re.fullmatch(r"s\.(\w+) = ([\w\.\(\)]+);", h)) and seen_decl and not seen_ret:
            gets.append((m.group(1), m.group(2)))
        elif h == "return s;":
            seen_ret = True
        else:
            raise Shape("ChaiScript_Basic::get_state: unrecognised statement %r" % h[:80])
    if not seen_ret:
        raise Shape("ChaiScript_Basic::get_state: no `return s;`")
    s = function_body(src, r"\bvoid set_state\(const State &t_state\)")
    sets = []
    for k, h, _ in statements(s):
        if k != "stmt":
            raise Shape("ChaiScript_Basic::set_state: unexpected block %r" % h[:60])
        if LOCK.fullmatch(h):
            continue
        if (m := re.fullmatch(r"(m_\w+) = t_state\.(\w+);", h)):
            sets.append((m.group(1), m.group(2)))
        elif (m := re.fullmatch(r"m_engine\.set_state\(t_state\.(\w+)\);", h)):
            sets.append(("m_engine", m.group(1)))
        else:
            raise Shape("ChaiScript_Basic::set_state: unrecognised statement %r" % h[:80])
    return gets, sets


def accessor_field(src, acc):
    ms = re.findall(r"\b%s\(\) (?:const )?noexcept \{ return m_state\.(\w+); \}" % re.escape(acc), norm(src))
    if not ms or len(set(ms)) != 1:
        raise Shape("accessor %s() does not return one field of m_state" % acc)
    return ms[0]


VEC = r"std::vector<Proxy_Function>"


def add_function(src):
    body = function_body(src, r"\bvoid add_function\(const Proxy_Function &t_f, const std::string &t_name\)")
    st = statements(body)
    if len(st) != 4 or any(k != "stmt" for k, _, _ in st):
        raise Shape("add_function: expected lock; lambda; two table updates, got %d statements" % len(st))
    if not LOCK.fullmatch(st[0][1]) or "unique_lock" not in st[0][1]:
        raise Shape("add_function: does not take the unique lock first")
    m = re.fullmatch(r"Proxy_Function new_func = \[&\]\(\) -> Proxy_Function \{(.*)\}\(\);", st[1][1])
    if not m:
        raise Shape("add_function: new_func is not the immediately invoked lambda")
    # the lambda body needs the un-normalised text for top_level_blocks: take it from the original
    i = body.find("[&]() -> Proxy_Function")
    lam, _ = brace_block(body, body.find("{", i))
    ls = statements(lam)
    if len(ls) != 5 or ls[0][0] != "stmt" or ls[1][0] != "stmt" or [k for k, _, _ in ls[2:]] != ["if", "elif", "else"]:
        raise Shape("add_function lambda: expected two declarations and if / else if / else")
    m = re.fullmatch(r"auto &funcs = (\w+)\(\);", ls[0][1])
    if not m or accessor_field(src, m.group(1)) != "m_functions":
        raise Shape("add_function: `funcs` is not a reference to m_state.m_functions")
    if ls[1][1] != "auto itr = funcs.find(t_name);":
        raise Shape("add_function: unexpected lookup %r" % ls[1][1])
    if ls[2][1] != "if (itr != funcs.end())":
        raise Shape("add_function: unexpected first condition %r" % ls[2][1])
    if ls[3][1] != "else if (t_f->has_arithmetic_param())":
        raise Shape("add_function: unexpected second condition %r" % ls[3][1])
    # --- the branch for a known name
    stm = []
    for k, h, inner in statements(ls[2][2]):
        if k == "for":
            inn = norm(inner)
            if h == "for (const auto &func : vec)" and inn == "if ((*t_f) == *(func)) { throw chaiscript::exception::name_conflict_error(t_name); }":
                stm.append("AConflictCheck")
            elif h == "for (const auto &func : *itr->second)" and inn == "if ((*t_f) == *(func)) { throw chaiscript::exception::name_conflict_error(t_name); }":
                stm += ["ARefVec", "AConflictCheck"] if "ARefVec" not in stm and "ACopyVec" not in stm else ["AConflictCheck"]
            else:
                raise Shape("add_function/known name: unrecognised loop %r %r" % (h, inn[:80]))
        elif k != "stmt":
            raise Shape("add_function/known name: unexpected block %r" % h[:60])
        elif h == "auto vec = *itr->second;" or h == VEC + " vec = *itr->second;" or h == "auto vec(*itr->second);":
            stm.append("ACopyVec")
        elif h in ("auto &vec = *itr->second;", VEC + " &vec = *itr->second;"):
            stm.append("ARefVec")
        elif re.fullmatch(r"vec\.reserve\(vec\.size\(\) \+ 1\);", h):
            stm.append("AReserve")
        elif h in ("vec.push_back(t_f);", "vec.emplace_back(t_f);"):
            stm.append("APush")
        elif h == "std::stable_sort(vec.begin(), vec.end(), &function_less_than);":
            stm.append("ASort")
        elif h == "itr->second = std::make_shared<%s>(vec);" % VEC:
            stm.append("AAssignNewShared")
        elif h in ("itr->second->push_back(t_f);", "itr->second->emplace_back(t_f);", "(*itr->second).push_back(t_f);"):
            stm.append("APushShared")
        elif h == "std::stable_sort(itr->second->begin(), itr->second->end(), &function_less_than);":
            stm.append("ASortShared")
        elif h in ("return std::make_shared<Dispatch_Function>(std::move(vec));", "return std::make_shared<Dispatch_Function>(vec);"):
            stm.append("AReturnDispatch")
        elif h == "return std::make_shared<Dispatch_Function>(*itr->second);":
            stm.append("AReturnDispatchShared")
        else:
            raise Shape("add_function/known name: unrecognised statement %r" % h[:90])
    # --- the two branches for a new name must have exactly the modelled shape
    arith = [h for _, h, _ in statements(ls[3][2])]
    if arith != [VEC + " vec;", "vec.push_back(t_f);", "funcs.insert(std::pair{t_name, std::make_shared<%s>(vec)});" % VEC,
                 "return std::make_shared<Dispatch_Function>(std::move(vec));"]:
        raise Shape("add_function/new name with arithmetic parameter: unrecognised shape %r" % arith)
    plain = [h for _, h, _ in statements(ls[4][2])]
    if plain != ["auto vec = std::make_shared<%s>();" % VEC, "vec->push_back(t_f);", "funcs.insert(std::pair{t_name, vec});", "return t_f;"]:
        raise Shape("add_function/new name: unrecognised shape %r" % plain)
    # --- the tail
    tail = []
    for _, h, _ in st[2:]:
        m = re.fullmatch(r"(\w+)\(\)\.insert_or_assign\(t_name, (const_var\(new_func\)|std::move\(new_func\)|new_func)\);", h)
        if not m:
            raise Shape("add_function: unrecognised table update %r" % h[:80])
        tail.append(accessor_field(src, m.group(1)))
    return stm, tail


def flat_map_hint(src):
    body = function_body(src, r"auto find\(const Lookup &s, const std::size_t t_hint\) const noexcept")
    st = statements(body)
    if [k for k, _, _ in st] not in (["if", "else"], ["if", "stmt"]):
        raise Shape("QuickFlatMap::find(s, hint): expected if / else")
    m = re.fullmatch(r"if \((.*)\)", st[0][1])
    conds = [norm(c) for c in m.group(1).split("&&")]
    known = {"data.size() > t_hint": "bounds", "t_hint < data.size()": "bounds", "comparator(data[t_hint].first, s)": "key"}
    got = set()
    for c in conds:
        if c not in known:
            raise Shape("QuickFlatMap::find(s, hint): unrecognised condition %r" % c)
        got.add(known[c])
    if conds and known[conds[0]] != "bounds" and "bounds" in got:
        raise Shape("QuickFlatMap::find(s, hint): element read before the bounds check")
    if "return std::next(begin," not in norm(st[0][2]) or "(t_hint)" not in norm(st[0][2]):
        raise Shape("QuickFlatMap::find(s, hint): hit branch does not return begin + hint")
    other = norm(st[1][2]) if st[1][0] == "else" else st[1][1]
    fallback = other == "return find(s);"
    return "bounds" in got, "key" in got, fallback


def translate(repo):
    inc = os.path.join(repo, "include", "chaiscript")
    dk = strip_comments(open(os.path.join(inc, "dispatchkit", "dispatchkit.hpp")).read())
    en = strip_comments(open(os.path.join(inc, "language", "chaiscript_engine.hpp")).read())
    qf = strip_comments(open(os.path.join(inc, "utility", "quick_flat_map.hpp")).read())
    de = class_body(dk, "Dispatch_Engine")
    efields = struct_fields(de, "State")
    emembers = data_members(de, "class Dispatch_Engine")
    eget, eset = engine_get_set(de, efields)
    cb = class_body(en, "ChaiScript_Basic")
    cfields = struct_fields(cb, "State")
    cmembers = data_members(cb, "class ChaiScript_Basic")
    cget, cset = chai_get_set(cb)
    stm, tail = add_function(de)
    hb, hk, hf = flat_map_hint(qf)
    S = lambda xs: coq_list([coq_str(x) for x in xs])
    P = lambda xs: coq_list(["(%s, %s)" % (coq_str(a), coq_str(b)) for a, b in xs])
    B = lambda b: "true" if b else "false"
    return "\n".join([
        "(* GENERATED by tools/translate/t_EngineState.py from dispatchkit.hpp, chaiscript_engine.hpp, quick_flat_map.hpp — do not edit *)",
        "From Coq Require Import List String.",
        "From ChaiV Require Import EngineDefs.",
        "Import ListNotations.",
        "Local Open Scope string_scope.",
        "",
        "(* struct Dispatch_Engine::State, the data members of Dispatch_Engine, what get_state / set_state copy *)",
        "Definition engine_state_fields : list string := %s." % S(efields),
        "Definition engine_members : list string := %s." % S(emembers),
        "Definition engine_get_copies : list string := %s." % S(eget),
        "Definition engine_set_copies : list string := %s." % S(eset),
        "",
        "(* struct ChaiScript_Basic::State, the data members of ChaiScript_Basic, (State field, source) / (member, State field) *)",
        "Definition chai_state_fields : list string := %s." % S(cfields),
        "Definition chai_members : list string := %s." % S(cmembers),
        "Definition chai_get_copies : list (string * string) := %s." % P(cget),
        "Definition chai_set_copies : list (string * string) := %s." % P(cset),
        "",
        "(* Dispatch_Engine::add_function: the branch taken when the name is already known, statement by statement;",
        "   the tables updated with the new function object afterwards *)",
        "Definition add_function_exists_branch : list astmt := %s." % coq_list(stm),
        "Definition add_function_tail : list string := %s." % S(tail),
        "",
        "(* QuickFlatMap::find(s, hint) *)",
        "Definition hint_bounds_checked : bool := %s." % B(hb),
        "Definition hint_key_compared : bool := %s." % B(hk),
        "Definition hint_falls_back_to_find : bool := %s." % B(hf),
        ""])


if __name__ == "__main__":
    import sys
    print(translate(sys.argv[1] if len(sys.argv) > 1 else "/repo"))
