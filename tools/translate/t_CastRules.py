"""Translator: boxed_cast_helper.hpp / boxed_cast.hpp / boxed_value.hpp / proxy_functions.hpp /
proxy_functions_detail.hpp / dispatchkit.hpp / boxed_number.hpp / function_call.hpp  ->  G_CastRules.v

For each Cast_Helper_Inner<Form> specialisation: which verify function it calls, which pointer accessor
(get_ptr => the non-const verify overload is selected), whether the result gives mutable access, what it
dereferences; for each verify overload: the !is_const() test, the type comparison, the null check; the
control flow of boxed_cast; the exception classes that dispatch()/dispatch_with_conversions() treat as
"try the next overload"; the arity check of Proxy_Function_Base::operator(); the disjuncts of
compare_type_to_param.  Recognises exactly the shapes the pinned source uses and raises Shape otherwise."""
import os, re
from cxxshape import *

FORMS = {
    "": "FVal", "const Result": "FCVal", "const Result *": "FCPtr", "Result *": "FPtr", "Result *const &": "FPtrCRef",
    "const Result *const &": "FCPtrCRef", "const Result &": "FCRef", "Result &": "FRef", "Result &&": "FRRef",
    "std::unique_ptr<Result> &&": "FUniqRRef", "std::unique_ptr<Result> &": "FUniqRef", "const std::unique_ptr<Result> &": "FUniqCRef",
    "std::shared_ptr<Result>": "FSh", "std::shared_ptr<const Result>": "FShC", "const std::shared_ptr<Result>": "FCSh",
    "const std::shared_ptr<Result> &": "FShCRef", "std::shared_ptr<Result> &": "FShRef", "const std::shared_ptr<const Result>": "FCShC",
    "const std::shared_ptr<const Result> &": "FShCCRef", "Boxed_Value": "FBV", "Boxed_Value &": "FBVRef", "const Boxed_Value": "FCBV",
    "const Boxed_Value &": "FBVCRef", "std::reference_wrapper<Result>": "FRw", "const std::reference_wrapper<Result>": "FCRw",
    "const std::reference_wrapper<Result> &": "FRwCRef", "std::reference_wrapper<const Result>": "FRwC",
    "const std::reference_wrapper<const Result>": "FCRwC", "const std::reference_wrapper<const Result> &": "FRwCCRef",
}


def angle(s, i):
    """s[i] == '<' -> (inner, index after matching '>')"""
    if s[i] != "<":
        raise Shape("angle: not at <")
    d, j = 0, i
    while j < len(s):
        if s[j] == "<":
            d += 1
        elif s[j] == ">":
            d -= 1
            if d == 0:
                return s[i + 1:j], j + 1
        j += 1
    raise Shape("unbalanced <>")


def skip_ws(s, i):
    while i < len(s) and s[i].isspace():
        i += 1
    return i


VERIFY_RE = re.compile(
    r"template<typename T> static (const )?T \*(verify_type|verify_type_no_throw)\(const Boxed_Value &ob, const std::type_info &ti, (const )?T \*ptr\) "
    r"\{ if \((!ob\.is_const\(\) && )?ob\.get_type_info\(\)(\.bare_equal_type_info\(ti\)| == ti)\) \{ return (throw_if_null\(ptr\)|ptr); \} "
    r"else \{ throw chaiscript::detail::exception::bad_any_cast\(\); \} \}")

CAST_HEAD = re.compile(r"static (.+?)\s*cast\(const Boxed_Value &ob, const Type_Conversions_State \*\) \{")
VERIFY_CALL = re.compile(
    r"return (std::move\()?(\*)?static_cast<(const )?Result \*>\((const_cast<void \*>\()?(verify_type|verify_type_no_throw)"
    r"\(ob, typeid\(Result\), ob\.(get_ptr|get_const_ptr)\(\)\)\)?\)?\)?;")


def cast_rule(form, body, where):
    b = norm(body)
    b = re.sub(r'static_assert\(!std::is_const<Result>::value, "[^"]*"\); ', "", b)
    m = CAST_HEAD.match(b)
    if not m or not b.endswith("}"):
        raise Shape("%s: cast() header not recognised: %r" % (where, b[:120]))
    ret, inner = m.group(1).strip(), b[m.end():-1].strip()
    if form in ("FBV",):
        if ret == "Boxed_Value" and inner == "return ob;":
            return "RSelf false"
        raise Shape("%s: Boxed_Value cast not `return ob;`" % where)
    if form == "FBVRef":
        if ret == "std::reference_wrapper<Boxed_Value>" and inner == "return std::ref(const_cast<Boxed_Value &>(ob));":
            return "RSelf true"
        raise Shape("%s: Boxed_Value & cast not recognised" % where)
    v = VERIFY_CALL.fullmatch(inner)
    if v:
        mv, star, cst, ccast, vf, acc = v.groups()
        want_close = 2 + (1 if mv else 0) + (1 if ccast else 0)
        if inner.count(")") - inner.count("(") != 0 or inner.count("(") < want_close:
            raise Shape("%s: unbalanced verify call" % where)
        mut_static = cst is None
        if ret == "Result":
            deref, mut = "DValue", False
            ok = star and not mv
        elif ret == "const Result &":
            deref, mut = "DRef", False
            ok = star and not mv
        elif ret == "Result &":
            deref, mut = "DRef", True
            ok = star and not mv and mut_static
        elif ret == "Result &&":
            deref, mut = "DMove", True
            ok = star and mv and mut_static
        elif ret == "const Result *":
            deref, mut = "DPtr", False
            ok = not star and not mv
        elif ret == "Result *":
            deref, mut = "DPtr", True
            ok = not star and not mv and mut_static
        else:
            raise Shape("%s: unexpected return type %r" % (where, ret))
        if not ok:
            raise Shape("%s: return type %r inconsistent with %r" % (where, ret, inner))
        if acc == "get_ptr" and ccast:
            raise Shape("%s: const_cast around get_ptr()" % where)
        if acc == "get_const_ptr" and mut and not ccast:
            raise Shape("%s: mutable result from get_const_ptr() without const_cast (would not compile)" % where)
        return "RVerify %s %s %s %s" % ("VThrow" if vf == "verify_type" else "VNoThrow", "AGetPtr" if acc == "get_ptr" else "AGetConstPtr", deref,
                                        "true" if mut else "false")
    if ret == "auto" and inner == "return ob.get().cast<std::shared_ptr<Result>>();":
        return "RAny AnyShared"
    if ret == "auto" and inner == ("std::shared_ptr<Result> &res = ob.get().cast<std::shared_ptr<Result>>(); return ob.pointer_sentinel(res);"):
        return "RAny AnyShared"
    if ret == "auto" and inner == ("if (!ob.get_type_info().is_const()) { return std::const_pointer_cast<const Result>(ob.get().cast<std::shared_ptr<Result>>()); } "
                                   "else { return ob.get().cast<std::shared_ptr<const Result>>(); }"):
        return "RAnySplit"
    if ret == "std::unique_ptr<Result> &&" and inner == "return std::move(*(ob.get().cast<std::shared_ptr<std::unique_ptr<Result>>>()));":
        return "RAny AnyUnique"
    if ret == "std::unique_ptr<Result> &" and inner == "return *(ob.get().cast<std::shared_ptr<std::unique_ptr<Result>>>());":
        return "RAny AnyUnique"
    raise Shape("%s: cast body not recognised: %r" % (where, inner[:160]))


def cast_helpers(src):
    rules = []
    pos = 0
    key = "struct Cast_Helper_Inner"
    while True:
        i = src.find(key, pos)
        if i < 0:
            break
        j = skip_ws(src, i + len(key))
        spec = ""
        if src[j] == "<":
            spec, j = angle(src, j)
            j = skip_ws(src, j)
        base = None
        if src[j] == ":":
            mm = re.match(r":\s*(?:public\s+)?Cast_Helper_Inner", src[j:])
            if not mm:
                raise Shape("Cast_Helper_Inner<%s>: unexpected base clause" % spec)
            j = skip_ws(src, j + mm.end())
            base, j = angle(src, j)
            j = skip_ws(src, j)
        if src[j] == ";":
            pos = j
            continue  # forward declaration
        body, e = brace_block(src, j)
        spec_n, pos = norm(spec), e
        if spec_n not in FORMS:
            raise Shape("unknown Cast_Helper_Inner specialisation <%s>" % spec_n)
        form = FORMS[spec_n]
        # template header must bind exactly `Result` (or nothing for the Boxed_Value forms)
        head = norm(src[max(0, i - 60):i])
        if form in ("FBV", "FBVRef", "FCBV", "FBVCRef"):
            if not head.endswith("template<>"):
                raise Shape("Cast_Helper_Inner<%s>: expected template<>" % spec_n)
        elif not head.endswith("template<typename Result>"):
            raise Shape("Cast_Helper_Inner<%s>: expected template<typename Result>" % spec_n)
        if base is not None:
            bn = norm(base)
            if bn == "Result":
                bn = ""
            if bn not in FORMS:
                raise Shape("Cast_Helper_Inner<%s> inherits unknown form <%s>" % (spec_n, bn))
            if norm(body):
                raise Shape("Cast_Helper_Inner<%s>: inheriting specialisation has a body" % spec_n)
            rules.append((form, "RInherit %s" % FORMS[bn]))
        else:
            rules.append((form, cast_rule(form, body, "Cast_Helper_Inner<%s>" % spec_n)))
    seen = [f for f, _ in rules]
    if sorted(seen) != sorted(FORMS.values()):
        raise Shape("Cast_Helper_Inner specialisations differ from the modelled set: missing %s, duplicate/extra %s" % (
            sorted(set(FORMS.values()) - set(seen)), sorted(f for f in seen if seen.count(f) > 1)))
    return rules


def verify_rules(src):
    n = norm(src)
    out = []
    for m in VERIFY_RE.finditer(n):
        rc, name, nonconst, cmp_, ret = m.group(1), m.group(2), m.group(4), m.group(5), m.group(6)
        pc = m.group(3)
        if (rc is None) != (pc is None):
            raise Shape("%s: return constness differs from pointer parameter constness" % name)
        out.append(("VThrow" if name == "verify_type" else "VNoThrow", pc is not None, nonconst is not None,
                    "CmpBare" if cmp_.startswith(".bare") else "CmpType", ret.startswith("throw_if_null")))
    if len(out) != 4 or len(set((a, b) for a, b, _, _, _ in out)) != 4:
        raise Shape("expected the four verify_type/verify_type_no_throw overloads, recognised %d" % len(out))
    if n.count("verify_type(const Boxed_Value") + n.count("verify_type_no_throw(const Boxed_Value") != 4:
        raise Shape("additional verify_type overloads present")
    t = function_body(src, r"constexpr T \*throw_if_null\(T \*t\)")
    if norm(t) != 'if (t) { return t; } throw std::runtime_error("Attempted to dereference null Boxed_Value");':
        raise Shape("throw_if_null: body changed: %r" % norm(t))
    return out


def boxed_cast_flow(src):
    body = norm(function_body(src, r"decltype\(auto\) boxed_cast\(const Boxed_Value &bv, const Type_Conversions_State \*t_conversions = nullptr\)"))
    m = re.fullmatch(
        r"if \((.+?)\) \{ try \{ return detail::Cast_Helper<Type>::cast\(bv, t_conversions\); \} catch \((.+?)\) \{ \} \} "
        r"if \(t_conversions && \(\*t_conversions\)->convertable_type<Type>\(\)\) \{ try \{ "
        r"return \(detail::Cast_Helper<Type>::cast\(\(\*t_conversions\)->boxed_type_conversion<Type>\(t_conversions->saves\(\), bv\), t_conversions\)\); "
        r"\} catch \((.+?)\) \{ try \{ "
        r"return \(detail::Cast_Helper<Type>::cast\(\(\*t_conversions\)->boxed_type_down_conversion<Type>\(t_conversions->saves\(\), bv\), t_conversions\)\); "
        r"\} catch \((.+?)\) \{ throw exception::bad_boxed_cast\(bv\.get_type_info\(\), typeid\(Type\)\); \} \} \} "
        r"else \{ throw exception::bad_boxed_cast\(bv\.get_type_info\(\), typeid\(Type\)\); \}", body)
    if not m:
        raise Shape("boxed_cast: control flow not recognised: %r" % body[:300])
    conds = []
    for d in [x.strip() for x in m.group(1).split("||")]:
        if d == "!t_conversions":
            conds.append("DcNoConversions")
        elif d == "bv.get_type_info().bare_equal(user_type<Type>())":
            conds.append("DcBareEqual")
        elif d == "(t_conversions && !(*t_conversions)->convertable_type<Type>())":
            conds.append("DcNotConvertible")
        else:
            raise Shape("boxed_cast: unknown direct-cast condition %r" % d)

    def catch(c):
        c = c.strip()
        if c == "const chaiscript::detail::exception::bad_any_cast &":
            return "CatchBadAny"
        if c == "...":
            return "CatchAll"
        if c in ("const exception::bad_boxed_cast &", "const chaiscript::exception::bad_boxed_cast &"):
            return "CatchBadCast"
        raise Shape("boxed_cast: unknown catch clause %r" % c)
    return conds, catch(m.group(2)), catch(m.group(3)), catch(m.group(4))


CLASSES = {"exception::bad_boxed_cast": "RcBadCast", "exception::arity_error": "RcArity", "exception::guard_error": "RcGuard",
           "std::exception": "RcAnyStd", "...": "RcAnything"}


def catches(text, where):
    cs = re.findall(r"catch \((?:const )?([\w:.]+)(?: &)?\s*\w*\)", text)
    out = []
    for c in cs:
        if c not in CLASSES:
            raise Shape("%s: unknown catch class %r" % (where, c))
        out.append(CLASSES[c])
    if len(cs) != text.count("catch"):
        raise Shape("%s: unrecognised catch clause" % where)
    return out


def dispatch_shape(pf):
    # Proxy_Function_Base::operator()
    op = norm(function_body(pf, r"Boxed_Value operator\(\)\(const Function_Params &params, const chaiscript::Type_Conversions_State &t_conversions\) const"))
    if op == ("if (m_arity < 0 || size_t(m_arity) == params.size()) { return do_call(params, t_conversions); } else { "
              "throw exception::arity_error(static_cast<int>(params.size()), m_arity); }"):
        arity_check = True
    elif op == "return do_call(params, t_conversions);":
        arity_check = False
    else:
        raise Shape("Proxy_Function_Base::operator(): body not recognised: %r" % op)
    # compare_type_to_param
    ct = norm(function_body(pf, r"static bool compare_type_to_param\(const Type_Info &ti, const Boxed_Value &bv, const Type_Conversions_State &t_conversions\) noexcept"))
    pre = ("const auto boxed_value_ti = user_type<Boxed_Value>(); const auto boxed_number_ti = user_type<Boxed_Number>(); "
           "const auto function_ti = user_type<std::shared_ptr<const Proxy_Function_Base>>(); ")
    full = pre + ("if (ti.is_undef() || ti.bare_equal(boxed_value_ti) || (!bv.get_type_info().is_undef() && ((ti.bare_equal(boxed_number_ti) && "
                  "bv.get_type_info().is_arithmetic()) || ti.bare_equal(bv.get_type_info()) || bv.get_type_info().bare_equal(function_ti) || "
                  "t_conversions->converts(ti, bv.get_type_info())))) { return true; } else { return false; }")
    if ct == full:
        ctp = ["CtUndefParam", "CtBoxedValue", "CtBoxedNumberArith", "CtBareEqual", "CtArgIsFunction", "CtConverts"]
    elif ct in ("return true;", pre + "return true;"):
        ctp = ["CtAlways"]
    else:
        raise Shape("compare_type_to_param: condition not recognised: %r" % ct[:300])
    fl = norm(function_body(pf, r"bool filter\(const Function_Params &vals, const Type_Conversions_State &t_conversions\) const noexcept"))
    if fl != ("assert(m_arity == -1 || (m_arity > 0 && static_cast<int>(vals.size()) == m_arity)); if (m_arity < 0) { return true; } else if (m_arity > 1) { "
              "return compare_type_to_param(m_types[1], vals[0], t_conversions) && compare_type_to_param(m_types[2], vals[1], t_conversions); } else { "
              "return compare_type_to_param(m_types[1], vals[0], t_conversions); }"):
        raise Shape("filter: body changed: %r" % fl[:200])
    # dispatch()
    d = norm(function_body(pf, r"Boxed_Value dispatch\(const Funcs &funcs, const Function_Params &plist, const Type_Conversions_State &t_conversions\)"))
    head = ("std::vector<std::pair<size_t, const Proxy_Function_Base *>> ordered_funcs; ordered_funcs.reserve(funcs.size()); for (const auto &func : funcs) { "
            "const auto arity = func->get_arity(); if (arity == -1) { ordered_funcs.emplace_back(plist.size(), func.get()); } else if (arity == static_cast<int>(plist.size())) { "
            "size_t numdiffs = 0; for (size_t i = 0; i < plist.size(); ++i) { if (!func->get_param_types()[i + 1].bare_equal(plist[i].get_type_info())) { ++numdiffs; } } "
            "ordered_funcs.emplace_back(numdiffs, func.get()); } } for (size_t i = 0; i <= plist.size(); ++i) { for (const auto &func : ordered_funcs) { try { "
            "if (func.first == i && (i == 0 || func.second->filter(plist, t_conversions))) { return (*(func.second))(plist, t_conversions); } } ")
    tail = " } } return detail::dispatch_with_conversions(ordered_funcs.cbegin(), ordered_funcs.cend(), plist, t_conversions, funcs);"
    if not (d.startswith(head) and d.endswith(tail)):
        raise Shape("dispatch(): loop structure not recognised")
    mid = d[len(head):len(d) - len(tail)]
    if not re.fullmatch(r"(catch \([^)]*\) \{ \}\s*)+", mid):
        raise Shape("dispatch(): handlers are not empty `catch (...) { }` blocks: %r" % mid)
    retry = catches(mid, "dispatch()")
    w = norm(function_body(pf, r"Boxed_Value dispatch_with_conversions\(InItr begin,"))
    mm = re.search(r"try \{ return \(\*\(matching_func->second\)\)\(chaiscript::Function_Params\{newplist\}, t_conversions\); \} ((?:catch \([^)]*\) \{ \}\s*)+)"
                   r"throw exception::dispatch_error\(plist, std::vector<Const_Proxy_Function>\(t_funcs.begin\(\), t_funcs.end\(\)\)\);$", w)
    if not mm:
        raise Shape("dispatch_with_conversions: final call not recognised")
    retry2 = catches(mm.group(1), "dispatch_with_conversions")
    amb = ("if (plist[0].is_const() && !mat_fun_param_types[1].is_const() && next_fun_param_types[1].is_const()) { matching_func = begin; } "
           "else if (!plist[0].is_const() && !mat_fun_param_types[1].is_const() && next_fun_param_types[1].is_const()) { } else { "
           "throw exception::dispatch_error(plist, std::vector<Const_Proxy_Function>(t_funcs.begin(), t_funcs.end())); }")
    if amb not in w:
        raise Shape("dispatch_with_conversions: ambiguity rule changed")
    conv = ("if (ti.is_arithmetic() && param.get_type_info().is_arithmetic() && param.get_type_info() != ti) { return Boxed_Number(param).get_as(ti).bv; } "
            "else { return param; }")
    conv2 = ("if (ti.is_arithmetic() && param.get_type_info().is_arithmetic() && param.get_type_info() != ti) { converted = true; return Boxed_Number(param).get_as(ti).bv; } "
             "else { return param; }")
    skip = "if (!converted) { throw exception::dispatch_error(plist, std::vector<Const_Proxy_Function>(t_funcs.begin(), t_funcs.end())); }"
    if conv in w and "converted" not in w:
        only_converted = False
    elif conv2 in w and skip in w and w.index(skip) > w.index(conv2) and "bool converted = false;" in w and w.count("converted") == 4:
        only_converted = True       # the fallback calls the chosen function only when it converted at least one argument
    else:
        raise Shape("dispatch_with_conversions: arithmetic conversion of the parameter list changed")
    tm = norm(function_body(pf, r"bool types_match_except_for_arithmetic\(const FuncType &t_func,"))
    if ("return Proxy_Function_Base::compare_type_to_param(ti, bv, t_conversions) || (bv.get_type_info().is_arithmetic() && ti.is_arithmetic());" not in tm
            or "if (t_func->get_arity() == -1) { return false; }" not in tm):
        raise Shape("types_match_except_for_arithmetic changed")
    # Attribute_Access::do_call: the object pointer obtained with boxed_cast<[const] Class *> is null-checked or not
    n = norm(pf)
    aa = ("Boxed_Value do_call(const Function_Params &params, const Type_Conversions_State &t_conversions) const override { const Boxed_Value &bv = params[0]; "
          "if (bv.is_const()) { const Class *o = boxed_cast<const Class *>(bv, &t_conversions); return do_call_impl<T>(%s); } else { "
          "Class *o = boxed_cast<Class *>(bv, &t_conversions); return do_call_impl<T>(%s); } }")
    if aa % ("chaiscript::detail::throw_if_null(o)", "chaiscript::detail::throw_if_null(o)") in n:
        attr_nullcheck = True
    elif aa % ("o", "o") in n:
        attr_nullcheck = False
    else:
        raise Shape("Attribute_Access::do_call changed")
    return arity_check, ctp, retry, retry2, attr_nullcheck, only_converted


def call_func_shape(pd):
    b = norm(function_body(pd, r"Ret call_func\(Ret \(\*\)\(Params\.\.\.\),\s*std::index_sequence<I\.\.\.>,"))
    if b != "return f(boxed_cast<Params>(params[I], &t_conversions)...);":
        raise Shape("call_func: parameters are not all unboxed with boxed_cast<Params>: %r" % b)
    return True


FLT = ("auto dynamic_lhs(std::dynamic_pointer_cast<const dispatch::Dynamic_Proxy_Function>(lhs)); "
       "auto dynamic_rhs(std::dynamic_pointer_cast<const dispatch::Dynamic_Proxy_Function>(rhs)); "
       "if (dynamic_lhs && dynamic_rhs) { if (dynamic_lhs->get_guard()) { return dynamic_rhs->get_guard() ? false : true; } else { return false; } } "
       "if (dynamic_lhs && !dynamic_rhs) { return false; } if (!dynamic_lhs && dynamic_rhs) { return true; } "
       "const auto &lhsparamtypes = lhs->get_param_types(); const auto &rhsparamtypes = rhs->get_param_types(); "
       "const auto lhssize = lhsparamtypes.size(); const auto rhssize = rhsparamtypes.size(); "
       "const auto boxed_type = user_type<Boxed_Value>(); const auto boxed_pod_type = user_type<Boxed_Number>(); "
       "for (size_t i = %START%; i < lhssize && i < rhssize; ++i) { const Type_Info &lt = lhsparamtypes[i]; const Type_Info &rt = rhsparamtypes[i]; "
       "if (lt.bare_equal(rt) && lt.is_const() == rt.is_const()) { continue; } "
       "if (lt.bare_equal(rt) && lt.is_const() && !rt.is_const()) { return false; } if (lt.bare_equal(rt) && !lt.is_const()) { return true; } "
       "if (lt.bare_equal(boxed_type)) { return false; } if (rt.bare_equal(boxed_type)) { return true; } "
       "if (lt.bare_equal(boxed_pod_type)) { return false; } if (rt.bare_equal(boxed_pod_type)) { return true; } return lt < rt; } return false;")


def registration_shape(dk):
    f = norm(function_body(dk, r"static bool function_less_than\(const Proxy_Function &lhs, const Proxy_Function &rhs\) noexcept"))
    pre, post = FLT.split("%START%")
    if not (f.startswith(pre) and f.endswith(post) and re.fullmatch(r"\d", f[len(pre):len(f) - len(post)])):
        raise Shape("function_less_than: body changed")
    flt_start = int(f[len(pre):len(f) - len(post)])     # slot 0 of get_param_types() is the return type
    a = norm(function_body(dk, r"void add_function\(const Proxy_Function &t_f, const std::string &t_name\)"))
    for need in ("vec.push_back(t_f); std::stable_sort(vec.begin(), vec.end(), &function_less_than);",
                 "return std::make_shared<Dispatch_Function>(std::move(vec));", "} else if (t_f->has_arithmetic_param()) {",
                 "vec->push_back(t_f); funcs.insert(std::pair{t_name, vec}); return t_f;"):
        if need not in a:
            raise Shape("add_function: expected fragment missing: %r" % need)
    dc = norm(function_body(dk, r"Boxed_Value do_call\(const Function_Params &params, const Type_Conversions_State &t_conversions\) const override", 0))
    if dc != "return dispatch::dispatch(m_funcs, params, t_conversions);":
        raise Shape("Dispatch_Function::do_call changed")
    return flt_start


def data_ptr_shape(bv):
    n = norm(bv)
    if "m_data_ptr(ti.is_const() ? nullptr : const_cast<void *>(t_void_ptr))" in n:
        null_when_const = True
    elif "m_data_ptr(const_cast<void *>(t_void_ptr))" in n:
        null_when_const = False
    else:
        raise Shape("Boxed_Value::Data: m_data_ptr initialiser not recognised")
    if "void *get_ptr() const noexcept { return m_data->m_data_ptr; }" not in n or \
       "const void *get_const_ptr() const noexcept { return m_data->m_const_data_ptr; }" not in n:
        raise Shape("Boxed_Value::get_ptr/get_const_ptr changed")
    # pointer_sentinel (std::shared_ptr<T> & parameters): after the call both cached pointers follow the possibly re-seated shared_ptr
    sm = re.search(r"~Sentinel\(\) \{ const auto ptr_ = m_ptr\.get\(\)\.get\(\); (.*?) \} Sentinel &operator=", n)
    if not sm:
        raise Shape("Boxed_Value::pointer_sentinel: the Sentinel destructor is not recognised")
    body = sm.group(1)
    # statements: assignments of ptr_ to the cached pointers, each optionally guarded by `if (<cached pointer> != ptr_) { ... }`
    body = re.sub(r"if \(m_data\.get\(\)\.(?:m_data_ptr|m_const_data_ptr) != ptr_\) \{ ((?:m_data\.get\(\)\.\w+ = ptr_; ?)+)\}", r"\1", body)
    stmts = [x.strip() for x in body.split(";") if x.strip()]
    refreshed = set()
    for st in stmts:
        mm = re.fullmatch(r"m_data\.get\(\)\.(m_data_ptr|m_const_data_ptr) = ptr_", st)
        if not mm:
            raise Shape("Boxed_Value::pointer_sentinel: unexpected statement in ~Sentinel: %r" % st)
        refreshed.add(mm.group(1))
    sentinel = ("m_data_ptr" in refreshed, "m_const_data_ptr" in refreshed)
    if "auto pointer_sentinel(std::shared_ptr<T> &ptr) const noexcept" not in n or "return Sentinel(ptr, *(m_data.get()));" not in n:
        raise Shape("Boxed_Value::pointer_sentinel changed")
    if "bool is_const() const noexcept { return m_data->m_type_info.is_const(); }" not in n:
        raise Shape("Boxed_Value::is_const changed")
    # Object_Data::get overloads: the constness recorded in the Type_Info is that of the type held by the Any
    od = function_body(bv, r"struct Object_Data")
    gets = re.findall(r"template<typename T> static auto get\(([^)]*)\) \{(.*?)\}(?= template| static)", norm(od) + " static")
    want = {
        "const std::shared_ptr<T> *obj, bool t_return_value": "return get(*obj, t_return_value);",
        "const std::shared_ptr<T> &obj, bool t_return_value": "return std::make_shared<Data>(detail::Get_Type_Info<T>::get(), chaiscript::detail::Any(obj), false, obj.get(), t_return_value);",
        "std::shared_ptr<T> &&obj, bool t_return_value": "auto ptr = obj.get(); return std::make_shared<Data>(detail::Get_Type_Info<T>::get(), chaiscript::detail::Any(std::move(obj)), false, ptr, t_return_value);",
        "T *t, bool t_return_value": "return get(std::ref(*t), t_return_value);",
        "const T *t, bool t_return_value": "return get(std::cref(*t), t_return_value);",
        "std::reference_wrapper<T> obj, bool t_return_value": "auto p = &obj.get(); return std::make_shared<Data>(detail::Get_Type_Info<T>::get(), chaiscript::detail::Any(std::move(obj)), true, p, t_return_value);",
        "std::unique_ptr<T> &&obj, bool t_return_value": "auto ptr = obj.get(); return std::make_shared<Data>(detail::Get_Type_Info<T>::get(), chaiscript::detail::Any(std::make_shared<std::unique_ptr<T>>(std::move(obj))), true, ptr, t_return_value);",
        "T t, bool t_return_value": "auto p = std::make_shared<T>(std::move(t)); auto ptr = p.get(); return std::make_shared<Data>(detail::Get_Type_Info<T>::get(), chaiscript::detail::Any(std::move(p)), false, ptr, t_return_value);",
    }
    got = {a.strip(): b.strip() for a, b in gets}
    if got != want:
        diff = [k for k in set(got) | set(want) if got.get(k) != want.get(k)]
        raise Shape("Boxed_Value::Object_Data::get overloads changed: %s" % diff)
    return null_when_const, sentinel


def any_shape(anyh):
    b = norm(function_body(anyh, r"ToType &cast\(\) const"))
    if b != "if (m_data && typeid(ToType) == m_data->type()) { return *static_cast<ToType *>(m_data->data()); } else { throw chaiscript::detail::exception::bad_any_cast(); }":
        raise Shape("Any::cast: exact-type test changed: %r" % b)
    return True


def special_helpers(bn, fc):
    n = norm(bn)
    if "struct Cast_Helper<Boxed_Number> { static Boxed_Number cast(const Boxed_Value &ob, const Type_Conversions_State *) { return Boxed_Number(ob); } };" not in n:
        raise Shape("Cast_Helper<Boxed_Number> changed")
    v = norm(function_body(bn, r"static void validate_boxed_number\(const Boxed_Value &v\)"))
    if v != ("const Type_Info &inp_ = v.get_type_info(); if (inp_ == user_type<bool>()) { throw chaiscript::detail::exception::bad_any_cast(); } "
             "if (!inp_.is_arithmetic()) { throw chaiscript::detail::exception::bad_any_cast(); }"):
        raise Shape("validate_boxed_number changed")
    if "explicit Boxed_Number(Boxed_Value v) : bv(std::move(v)) { validate_boxed_number(bv); }" not in n:
        raise Shape("Boxed_Number(Boxed_Value) does not validate")
    f = norm(fc)
    for q in ("const std::function<Signature> &", "std::function<Signature>", "const std::function<Signature>"):
        want = ("struct Cast_Helper<%s> { static std::function<Signature> cast(const Boxed_Value &ob, const Type_Conversions_State *t_conversions) { "
                "if (ob.get_type_info().bare_equal(user_type<Const_Proxy_Function>())) { return dispatch::functor<Signature>(ob, t_conversions); } else { "
                "return Cast_Helper_Inner<%s>::cast(ob, t_conversions); } } };" % (q, q))
        if want not in f:
            raise Shape("Cast_Helper<%s> changed" % q)
    fb = norm(function_body(fc, r"std::function<FunctionType> functor\(const std::vector<Const_Proxy_Function> &funcs, const Type_Conversions_State \*t_conversions\)"))
    if "if (!has_arity_match) { throw exception::bad_boxed_cast(user_type<Const_Proxy_Function>(), typeid(std::function<FunctionType>)); }" not in fb or \
       "return f->get_arity() == -1 || size_t(f->get_arity()) == detail::arity(static_cast<FunctionType *>(nullptr));" not in fb:
        raise Shape("functor(): arity test changed")
    return True


def coqbool(b):
    return "true" if b else "false"


def translate(repo):
    def rd(p):
        return strip_comments(open(os.path.join(repo, "include/chaiscript", p)).read())
    helper = rd("dispatchkit/boxed_cast_helper.hpp")
    rules = cast_helpers(helper)
    vrules = verify_rules(helper)
    conds, c1, c2, c3 = boxed_cast_flow(rd("dispatchkit/boxed_cast.hpp"))
    null_when_const, sentinel = data_ptr_shape(rd("dispatchkit/boxed_value.hpp"))
    any_shape(rd("dispatchkit/any.hpp"))
    arity_check, ctp, retry, retry2, attr_nullcheck, only_converted = dispatch_shape(rd("dispatchkit/proxy_functions.hpp"))
    call_func_shape(rd("dispatchkit/proxy_functions_detail.hpp"))
    flt_start = registration_shape(rd("dispatchkit/dispatchkit.hpp"))
    special_helpers(rd("dispatchkit/boxed_number.hpp"), rd("dispatchkit/function_call.hpp"))
    L = ["(* GENERATED by tools/translate/t_CastRules.py from /repo's working tree -- do not edit *)",
         "From Coq Require Import List Bool.", "From ChaiV Require Import DispatchDefs.", "Import ListNotations.", "",
         "(* verify_type / verify_type_no_throw overloads: (function, pointer parameter is const T*, rule) *)",
         "Definition verify_table : list (verify * bool * vrule) := ["]
    L.append(";\n".join("  (%s, %s, mkvrule %s %s %s)" % (v, coqbool(pc), coqbool(nc), cmp_, coqbool(nt)) for v, pc, nc, cmp_, nt in vrules))
    L += ["].", "", "(* Cast_Helper_Inner<Form>::cast *)", "Definition cast_table : list (form * crule) := ["]
    L.append(";\n".join("  (%s, %s)" % (f, r) for f, r in rules))
    L += ["].", "", "(* Boxed_Value::Data: the mutable pointer is null when the stored type is const *)",
          "Definition data_ptr_null_when_const : bool := %s." % coqbool(null_when_const), "",
          "(* boxed_cast<Type>: when the direct cast is attempted and what each handler catches *)",
          "Definition bc_direct_when : list direct_cond := [%s]." % "; ".join(conds),
          "Definition bc_direct_catch : catch_kind := %s." % c1, "Definition bc_up_catch : catch_kind := %s." % c2,
          "Definition bc_down_catch : catch_kind := %s." % c3, "",
          "(* Proxy_Function_Base::operator() compares the arity before do_call *)", "Definition arity_check_present : bool := %s." % coqbool(arity_check),
          "(* compare_type_to_param: the disjuncts *)", "Definition ctp_disjuncts : list ctp_cond := [%s]." % "; ".join(ctp),
          "(* exception classes after which dispatch() tries the next overload / dispatch_with_conversions() reports dispatch_error *)",
          "Definition dispatch_retry : list retry_class := [%s]." % "; ".join(retry),
          "Definition dwc_retry : list retry_class := [%s]." % "; ".join(retry2),
          "(* Attribute_Access::do_call null-checks the object pointer *)", "Definition attr_nullcheck : bool := %s." % coqbool(attr_nullcheck),
          "(* dispatch_with_conversions() calls the chosen overload only when it converted at least one argument *)",
          "Definition dwc_only_converted : bool := %s." % coqbool(only_converted),
          "(* function_less_than: first slot of get_param_types() it compares (slot 0 is the return type) *)",
          "Definition flt_start : nat := %d." % flt_start,
          "(* Boxed_Value::pointer_sentinel: ~Sentinel refreshes m_data_ptr / m_const_data_ptr from the (possibly re-seated) shared_ptr *)",
          "Definition sentinel_mut : bool := %s." % coqbool(sentinel[0]), "Definition sentinel_const : bool := %s." % coqbool(sentinel[1]), "",
          "Definition gen_rules : rules := mkrules verify_table cast_table data_ptr_null_when_const bc_direct_when bc_direct_catch bc_up_catch bc_down_catch",
          "  arity_check_present ctp_disjuncts dispatch_retry dwc_retry attr_nullcheck dwc_only_converted flt_start sentinel_mut sentinel_const.", ""]
    return "\n".join(L)


if __name__ == "__main__":
    import sys
    print(translate(sys.argv[1] if len(sys.argv) > 1 else "/repo"))
