"""Translator: dispatchkit.hpp / type_conversions.hpp / chaiscript_engine.hpp  ->  G_Locks.v   (property C13)

For every member function of Dispatch_Engine, Type_Conversions and ChaiScript_Basic lists, in source
order, the lock objects constructed (unique_lock / shared_lock / lock_guard on which mutex, explicit
.unlock() / .lock() calls, the RAII release at the end of the enclosing block), the member fields read or
written, and the calls of member functions of the same class (resolved in Coq: ConcDefs.flatten).
Fields are classified from their declarations (mutex / std::atomic / Thread_Storage / sub-object of
another analysed class / ordinary shared field).

Works on text (brace matching + regexes).  Everything that is not recognised raises Shape: a shared
field used in a way that cannot be classified as read or write, a mutex touched other than through the
three lock classes, explicit lock()/unlock() that is not balanced inside its block, a call that cannot
be resolved, a lambda whose execution time cannot be classified, ...

What the recogniser trusts (stated in the evidence of C13):
 * held locks are a function of the textual position (RAII scopes + explicit unlock/lock balanced per
   block - checked here), so the textual order of a body stands for every control-flow path through it;
 * calls made through another reference to *this (only `m_e.get().new_scope()` etc. in
   Dispatch_Engine::call_member's This_Foist) are not followed - refused when the callee is relevant;
 * inside a const member function non-mutable fields are only read (const_cast is refused).
"""
import os, re
from cxxshape import *

CLASSES = [
    ("Dispatch_Engine", "include/chaiscript/dispatchkit/dispatchkit.hpp"),
    ("Type_Conversions", "include/chaiscript/dispatchkit/type_conversions.hpp"),
    ("ChaiScript_Basic", "include/chaiscript/language/chaiscript_engine.hpp"),
]
ANALYSED = {c for c, _ in CLASSES}
DEFINED = {"_POSIX_VERSION"}                    # the configuration that is analysed: threads on, dynload on, POSIX
UNDEFINED = {"CHAISCRIPT_NO_THREADS", "CHAISCRIPT_NO_DYNLOAD", "CHAISCRIPT_MSVC", "__CYGWIN__", "CHAISCRIPT_WINDOWS", "_MSC_VER",
             "CHAISCRIPT_NO_THREADS_WARNING", "CHAISCRIPT_VERIF"}
HOOK_GUARD = "CHAISCRIPT_VERIF"              # the table is that of the library as shipped (guard off); the guard-on variant, which the
                                             # harness programs are compiled with, must not differ in locks or shared-field accesses

LOCK_RE = re.compile(r"^(?:chaiscript::detail::threading::|std::)(unique_lock|shared_lock|lock_guard)\s*<\s*(?:chaiscript::detail::threading::|std::)"
                     r"(shared_mutex|recursive_mutex|mutex)\s*>\s*(\w+)\s*\(\s*(\w+)\s*\)\s*;$")
RD_METHODS = {"find", "count", "begin", "end", "cbegin", "cend", "rbegin", "rend", "crbegin", "crend", "size", "empty", "contains",
              "lower_bound", "upper_bound", "equal_range", "get", "load", "max_size", "key_comp"}
WR_METHODS = {"insert", "emplace", "erase", "push_back", "emplace_back", "insert_or_assign", "clear", "swap", "assign", "reserve", "resize",
              "pop_back", "try_emplace", "merge", "extract", "emplace_hint", "push_front", "pop_front", "store", "exchange", "fetch_add",
              "fetch_sub", "reset", "release", "shrink_to_fit"}
ITER_METHODS = {"find", "begin", "end", "insert", "emplace", "lower_bound", "upper_bound", "rbegin", "rend", "cbegin", "cend", "try_emplace",
                "insert_or_assign", "erase"}
SYNC_ALGOS = {"std::find_if", "std::any_of", "std::all_of", "std::none_of", "std::for_each", "std::stable_sort", "std::sort", "std::transform",
              "std::remove_if", "std::count_if", "std::find_if_not", "std::copy_if"}
KEYWORDS = {"if", "for", "while", "switch", "return", "sizeof", "catch", "throw", "decltype", "noexcept", "static_cast", "dynamic_cast",
            "const_cast", "reinterpret_cast", "assert", "alignof", "typeid", "new", "delete", "operator", "defined"}


# ----------------------------------------------------------------------------------------------
# preprocessing
# ----------------------------------------------------------------------------------------------
def pp_eval(expr, where):
    e = expr
    e = re.sub(r"defined\s*\(\s*(\w+)\s*\)|defined\s+(\w+)", lambda m: " %s " % ((m.group(1) or m.group(2)) in DEFINED), e)
    for name in re.findall(r"[A-Za-z_]\w*", e):
        if name not in ("True", "False"):
            if name not in DEFINED and name not in UNDEFINED:
                raise Shape("%s: preprocessor condition mentions unknown macro %s" % (where, name))
    e = e.replace("&&", " and ").replace("||", " or ").replace("!", " not ")
    if not re.fullmatch(r"[\sA-Za-z()]*", e):
        raise Shape("%s: preprocessor condition not understood: %r" % (where, expr))
    return bool(eval(e, {"__builtins__": {}}, {}))


def is_defined(name, where):
    if name in DEFINED:
        return True
    if name in UNDEFINED or re.fullmatch(r"CHAISCRIPT_\w+_HPP_", name):   # include guards
        return False
    raise Shape("%s: unknown macro %s" % (where, name))


def preprocess(text, where):
    out, stack = [], []          # stack of [active_parent, taken_any, active_now]
    for line in text.split("\n"):
        s = line.strip()
        if s.startswith("#"):
            m = re.match(r"#\s*(\w+)\s*(.*)$", s)
            d, rest = m.group(1), m.group(2).strip()
            parent = all(f[2] for f in stack)
            if d in ("ifdef", "ifndef", "if"):
                if d == "ifdef":
                    v = is_defined(rest, where)
                elif d == "ifndef":
                    v = not is_defined(rest, where)
                else:
                    v = pp_eval(rest, where)
                stack.append([parent, v, v])
            elif d == "elif":
                f = stack[-1]
                v = (not f[1]) and pp_eval(rest, where)
                f[2] = v
                f[1] = f[1] or v
            elif d == "else":
                f = stack[-1]
                f[2] = not f[1]
                f[1] = True
            elif d == "endif":
                stack.pop()
            elif d in ("pragma", "include", "define", "undef", "error", "warning"):
                pass
            else:
                raise Shape("%s: preprocessor directive %s" % (where, d))
            out.append("")
            continue
        out.append(line if all(f[2] for f in stack) else "")
    if stack:
        raise Shape("%s: unbalanced preprocessor conditionals" % where)
    return "\n".join(out)


# ----------------------------------------------------------------------------------------------
# class body -> members
# ----------------------------------------------------------------------------------------------
def skip_string(s, j):
    c = s[j]
    k = j + 1
    while k < len(s) and s[k] != c:
        k += 2 if s[k] == "\\" else 1
    return k + 1


def class_body(src, cls):
    ms = [m for m in re.finditer(r"\b(class|struct)\s+%s\b[^;{]*\{" % re.escape(cls), src)]
    if len(ms) != 1:
        raise Shape("class %s: %d definitions found" % (cls, len(ms)))
    m = ms[0]
    inner, _ = brace_block(src, m.end() - 1)
    return m.group(1), inner


def split_members(body, default_vis, where):
    """-> list of (visibility, kind, head, inner) with kind in decl | func | type"""
    out, i, n = [], 0, len(body)
    vis = default_vis
    start = 0
    pd = 0
    while i < n:
        c = body[i]
        if c in "\"'":
            i = skip_string(body, i)
            continue
        if c == "(":
            pd += 1
        elif c == ")":
            pd -= 1
        elif pd == 0 and c == ":" and body[i - 1] != ":" and (i + 1 >= n or body[i + 1] != ":"):
            lab = body[start:i].strip()
            if lab in ("public", "private", "protected"):
                vis = lab
                start = i + 1
        elif pd == 0 and c == ";":
            chunk = body[start:i].strip()
            if chunk:
                out.append((vis, "decl", chunk, ""))
            start = i + 1
        elif pd == 0 and c == "{":
            head = body[start:i].strip()
            inner, e = brace_block(body, i)
            if head.endswith("="):                      # brace initialiser of a data member
                i = e
                continue
            if re.match(r"^(template\s*<[^{}]*>\s*)?(struct|class|union|enum)\b", head):
                j = body.find(";", e)
                if body[e:j].strip():
                    raise Shape("%s: declarators after a nested type: %r" % (where, body[e:j][:40]))
                out.append((vis, "type", head, inner))
                i = j + 1
                start = i
                continue
            out.append((vis, "func", head, inner))
            i = e
            start = i
            continue
        i += 1
    if body[start:].strip():
        raise Shape("%s: trailing text in class body: %r" % (where, body[start:].strip()[:60]))
    return out


def strip_template(head):
    head = head.strip()
    tparams = None
    while head.startswith("template"):
        j = head.find("<")
        depth, k = 0, j
        while k < len(head):
            if head[k] == "<":
                depth += 1
            elif head[k] == ">":
                depth -= 1
                if depth == 0:
                    break
            k += 1
        tparams = head[j + 1:k]
        head = head[k + 1:].strip()
    return tparams, head


def split_args(s):
    """top-level comma split of an argument / parameter list (without the outer parentheses)"""
    out, depth, cur, i, adepth = [], 0, "", 0, 0
    while i < len(s):
        c = s[i]
        if c in "\"'":
            j = skip_string(s, i)
            cur += s[i:j]
            i = j
            continue
        if c in "([{":
            depth += 1
        elif c in ")]}":
            depth -= 1
        elif c == "<" and re.search(r"[\w:]$", cur.rstrip()) and not re.search(r"\b(operator)$", cur.rstrip()):
            # template argument list only if it closes before the next ( ; or unbalanced bracket
            k, d2 = i, 0
            ok = False
            while k < len(s):
                if s[k] == "<":
                    d2 += 1
                elif s[k] == ">":
                    d2 -= 1
                    if d2 == 0:
                        ok = True
                        break
                elif s[k] in ";" or (s[k] in "&|" and s[k:k + 2] in ("&&", "||")):
                    break
                k += 1
            if ok and depth >= 0:
                cur += s[i:k + 1]
                i = k + 1
                continue
        elif c == "," and depth == 0:
            out.append(cur.strip())
            cur = ""
            i += 1
            continue
        cur += c
        i += 1
    if cur.strip():
        out.append(cur.strip())
    return out


def parse_func_head(head, cls, where):
    tparams, h = strip_template(head)
    i, n = 0, len(h)
    while i < n:
        if h[i] == "(":
            pre = h[:i].rstrip()
            m = re.search(r"(operator\s*\(\s*\)|operator\s*[^\s\w(]+|~?\w+)$", pre)
            if not m:
                raise Shape("%s: cannot find a function name in %r" % (where, norm(h)[:80]))
            name = re.sub(r"\s+", "", m.group(1))
            e = paren_end(h, i)
            if name in ("decltype", "noexcept", "alignas"):
                i = e
                continue
            if name == "operator":
                i = e
                continue
            params = split_args(h[i + 1:e - 1])
            params = [p for p in params if p and p != "void"]
            mn = len([p for p in params if not re.search(r"[^=!<>]=[^=]", p)])
            tail = h[e:]
            tail_q = tail.split(":")[0] if name == cls else tail
            is_const = bool(re.match(r"\s*const\b", tail_q))
            ret = pre[:m.start()].strip()
            deducible = True
            if tparams is not None:
                tn = re.findall(r"(?:typename|class)\s*(?:\.\.\.)?\s*(\w+)", tparams)
                deducible = all(any(re.search(r"\b%s\b" % t, p) for p in params) for t in tn)
            return {"name": name, "min": mn, "max": len(params), "const": is_const, "ret": ret, "static": bool(re.search(r"\bstatic\b", ret)),
                    "template": tparams is not None, "deducible": deducible, "variadic": any("..." in p for p in params)}
        i += 1
    raise Shape("%s: no parameter list in %r" % (where, norm(h)[:80]))


def parse_field_decl(chunk):
    c = norm(chunk)
    if re.match(r"^(using|friend|typedef|static_assert|template|enum|struct|class)\b", c) or re.search(r"\boperator\b", c):
        return None
    c0 = re.sub(r"\s*=\s*[^;]*$", "", c)            # = {0} / = value initialisers
    c0 = re.sub(r"\{[^{}]*\}$", "", c0).strip()
    # a parenthesis at depth 0 outside template arguments = function declaration
    d = 0
    for ch in c0:
        if ch == "<":
            d += 1
        elif ch == ">":
            d -= 1
        elif ch == "(" and d == 0:
            return None
    m = re.match(r"^(.*?)([A-Za-z_]\w*)$", c0)
    if not m or not m.group(1).strip():
        return None
    return m.group(2), m.group(1).strip()


def field_kind(ftype):
    t = ftype.replace("mutable", "").strip()
    if re.search(r"\b(shared_mutex|recursive_mutex|mutex)$", t):
        return "mutex:" + ("MRecursive" if t.endswith("recursive_mutex") else "MPlain")
    if re.search(r"\bstd::atomic", t):
        return "FAtomic"
    if re.search(r"\bThread_Storage\s*<", t):
        return "FPerThread"
    base = re.sub(r"^(chaiscript::)?(detail::)?", "", t)
    if base in ANALYSED:
        return "FDelegated"
    return "FShared"


# ----------------------------------------------------------------------------------------------
# one class
# ----------------------------------------------------------------------------------------------
class ClassInfo:
    pass


def load_class(repo, cls, rel):
    src = strip_comments(open(os.path.join(repo, rel)).read())
    kw, body = class_body(src, cls)
    outside = src.replace(body, "")
    for d, _, fs in os.walk(os.path.join(repo, "include")):
        for f in fs:
            p = os.path.join(d, f)
            if os.path.abspath(p) != os.path.abspath(os.path.join(repo, rel)):
                outside += strip_comments(open(p, errors="replace").read())
    body = preprocess(body, rel + ":" + cls)
    where = cls
    members = split_members(body, "public" if kw == "struct" else "private", where)
    ci = ClassInfo()
    ci.name, ci.rel = cls, rel
    ci.outside_text = set(re.findall(r"\w+_int\b", outside))
    ci.fields = []          # (name, kind, type, mutable)
    ci.mutexes = []         # (name, kind)
    ci.nested = {}
    for vis, kind, head, inner in members:
        if kind == "type":
            m = re.match(r"^(?:template\s*<[^{}]*>\s*)?(struct|class|union|enum)\s+(?:class\s+)?(\w+)", head)
            if m and m.group(1) in ("struct", "class"):
                subs = []
                for v2, k2, h2, i2 in split_members(inner, "public" if m.group(1) == "struct" else "private", where + "::" + m.group(2)):
                    if k2 == "decl":
                        fd = parse_field_decl(h2)
                        if fd:
                            subs.append(fd[0])
                ci.nested[m.group(2)] = subs
    for vis, kind, head, inner in members:
        if kind == "decl":
            fd = parse_field_decl(head)
            if not fd:
                continue
            fname, ftype = fd
            if re.match(r"^static\b", ftype):
                raise Shape("%s: static data member %s is not handled" % (cls, fname))
            k = field_kind(ftype)
            mut = bool(re.search(r"\bmutable\b", ftype))
            if k.startswith("mutex:"):
                ci.mutexes.append((fname, k[6:]))
            else:
                tb = ftype.replace("mutable", "").strip()
                if tb in ci.nested:
                    if k != "FShared":
                        raise Shape("%s: nested struct field %s of kind %s" % (cls, fname, k))
                    for sub in ci.nested[tb]:
                        ci.fields.append((fname + "." + sub, "FShared", tb + "::" + sub, mut))
                    ci.fields.append((fname, "WHOLE", tb, mut))
                else:
                    ci.fields.append((fname, k, ftype, mut))
    ci.funcs = []
    for vis, kind, head, inner in members:
        if kind == "func":
            fh = parse_func_head(head, cls, cls)
            fh["vis"] = vis
            fh["body"] = inner
            fh["head"] = norm(head)
            ci.funcs.append(fh)
    if not ci.funcs:
        raise Shape("%s: no member functions found" % cls)
    return ci


def lambda_at(s, i):
    """s[i] == '[' : is this the introducer of a lambda?  -> (body_start_brace_index, capture) or None"""
    pre = s[:i].rstrip()
    if pre and (pre[-1].isalnum() or pre[-1] in "_)]"):
        if not re.search(r"\b(return|co_return)$", pre):
            return None
    j = s.find("]", i)
    if j < 0:
        return None
    k = j + 1
    while k < len(s) and s[k].isspace():
        k += 1
    if k < len(s) and s[k] == "(":
        k = paren_end(s, k)
    m = re.match(r"\s*(mutable\b)?\s*(noexcept\b)?\s*(->\s*[^{;]+?)?\s*\{", s[k:])
    if not m:
        return None
    return k + m.end() - 1, s[i + 1:j]


class MethodWalker:
    """Walks one function body and produces its item list (+ pseudo-methods for lambdas)."""

    def __init__(self, ci, fh, accessors, relevant_hint, out_methods, name):
        self.ci, self.fh, self.accessors = ci, fh, accessors
        self.items = []
        self.out_methods = out_methods
        self.name = name
        self.nlam = 0
        self.const = fh["const"]
        self.method_names = {f["name"] for f in ci.funcs}
        self.fieldnames = sorted([f[0] for f in ci.fields], key=len, reverse=True)
        self.fieldinfo = {f[0]: f for f in ci.fields}
        self.mutexnames = {m[0] for m in ci.mutexes}
        self.local_lambdas = {}     # local name -> pseudo method name
        self.where = "%s::%s" % (ci.name, name)

    # ---- emit
    def emit(self, *it):
        self.items.append(it)

    def shape(self, msg):
        raise Shape("%s: %s" % (self.where, msg))

    # ---- scopes
    def walk(self, text, scope):
        """scope: dict with 'locks' (list of [var, mutex, mode, locked]) , 'aliases' (dict), 'parent'"""
        for kind, head, inner in top_level_blocks(text):
            if kind == "pp":
                self.shape("preprocessor line inside a function body: %r" % head)
            if kind == "stmt":
                self.stmt(head, scope)
            elif kind == "block":
                self.block(inner, scope)
            elif kind in ("if", "elif", "while", "for", "switch", "catch"):
                p = head.find("(")
                sub = self.new_scope(scope)
                hd = head[p + 1:paren_end(head, p) - 1]
                if kind == "for":
                    self.for_head(hd, sub)
                elif kind == "catch":
                    pass
                else:
                    parts = split_semis(hd)
                    for part in parts:
                        self.expr_or_decl(part + ";", sub)
                if inner.strip().endswith(";") and kind != "switch" and "{" not in head[-1:]:
                    pass
                self.body_of(text, head, inner, sub)
                self.close_scope(sub)
            elif kind in ("else", "try"):
                sub = self.new_scope(scope)
                self.body_of(text, head, inner, sub)
                self.close_scope(sub)
            else:
                self.shape("unexpected block kind %s" % kind)

    def body_of(self, text, head, inner, scope):
        # top_level_blocks gives the inside of a braced body, or the single unbraced statement
        self.walk(inner, scope)

    def block(self, inner, scope):
        sub = self.new_scope(scope)
        self.walk(inner, sub)
        self.close_scope(sub)

    def new_scope(self, parent):
        return {"locks": [], "aliases": {}, "parent": parent, "explicit": {}}

    def close_scope(self, sc):
        for var, n in sc["explicit"].items():
            if n != 0:
                self.shape("explicit %s.lock()/unlock() calls are not balanced inside their block" % var)
        for var, mx, mode, locked in reversed(sc["locks"]):
            if not locked:
                self.shape("lock object %s leaves its scope unlocked" % var)
            self.emit("IRel", mx)

    def find_lock(self, sc, var):
        while sc is not None:
            for l in sc["locks"]:
                if l[0] == var:
                    return l
            sc = sc["parent"]
        return None

    def find_alias(self, sc, name):
        while sc is not None:
            if name in sc["aliases"]:
                return sc["aliases"][name]
            sc = sc["parent"]
        return None

    def all_aliases(self, sc):
        names = {}
        chain = []
        while sc is not None:
            chain.append(sc)
            sc = sc["parent"]
        for s in reversed(chain):
            names.update(s["aliases"])
        return names

    # ---- statements
    def for_head(self, hd, scope):
        m = re.match(r"^\s*(const\s+)?auto\s*(&&|&)?\s*(\w+|\[[^\]]*\])\s*:\s*(.*)$", hd, re.S)
        if m:
            rng = m.group(4)
            self.expr(rng, scope)
            root = self.root_field(rng, scope)
            if root and m.group(2) and not m.group(3).startswith("["):
                f, is_const = root
                scope["aliases"][m.group(3)] = {"field": f, "const": bool(m.group(1)) or is_const, "kind": "ref"}
            elif root and m.group(2) and m.group(3).startswith("["):
                f, is_const = root
                if not (bool(m.group(1)) or is_const):
                    if self.fieldinfo[f][1] == "FShared":
                        self.shape("non-const structured binding over shared field %s" % f)
            return
        if re.match(r"^\s*(const\s+)?[\w:<>,\s\*&]+?\s*:\s*", hd) and ";" not in hd:
            # typed range-for
            rng = hd.split(":", 1)[1] if "::" not in hd.split(":")[0] else None
            if rng is None:
                self.shape("range-for head not understood: %r" % norm(hd)[:80])
            self.expr(rng, scope)
            return
        for part in split_semis(hd):
            self.expr_or_decl(part + ";", scope)

    def expr_or_decl(self, s, scope):
        if s.strip() in (";", ""):
            return
        self.stmt(s, scope)

    def stmt(self, s, scope):
        t = norm(s)
        if t in (";", ""):
            return
        m = LOCK_RE.match(t)
        if m:
            lk, mk, var, mx = m.groups()
            if mx not in self.mutexnames:
                self.shape("lock on something that is not a mutex member: %s" % mx)
            mode = "Sh" if lk == "shared_lock" else "Ex"
            scope["locks"].append([var, mx, mode, True])
            self.emit("IAcq", mx, mode)
            return
        m = re.fullmatch(r"(\w+)\s*\.\s*(unlock|lock)\s*\(\s*\)\s*;", t)
        if m and self.find_lock(scope, m.group(1)):
            l = self.find_lock(scope, m.group(1))
            if m.group(2) == "unlock":
                if not l[3]:
                    self.shape("%s.unlock() while not locked" % l[0])
                l[3] = False
                scope["explicit"][l[0]] = scope["explicit"].get(l[0], 0) - 1
                self.emit("IRel", l[1])
            else:
                if l[3]:
                    self.shape("%s.lock() while locked" % l[0])
                l[3] = True
                scope["explicit"][l[0]] = scope["explicit"].get(l[0], 0) + 1
                self.emit("IAcq", l[1], l[2])
            return
        if re.search(r"\b(unique_lock|shared_lock|lock_guard|scoped_lock|try_lock|defer_lock|adopt_lock|std::lock)\b", t):
            self.shape("lock statement not of the recognised shape: %r" % t[:120])
        # named local lambda:  const auto NAME = [..](..) {...};
        m = re.match(r"^(?:const\s+)?auto\s+(\w+)\s*=\s*\[", t)
        if m:
            i = s.find("[", s.find("="))
            la = lambda_at(s, i)
            if la:
                inner, e = brace_block(s, la[0])
                rest = s[e:].strip()
                if rest == ";":
                    pname = self.lambda_method(inner, "Private", scope)
                    self.local_lambdas[m.group(1)] = pname
                    return
        # alias / iterator declarations
        m = re.match(r"^(?:if\s*\()?\s*(const\s+)?auto\s*(&&|&)?\s*(\w+)\s*=\s*(.*)$", t, re.S)
        if m:
            rhs = m.group(4)
            root = self.root_field(rhs, scope)
            if root:
                f, rconst = root
                is_const = bool(m.group(1)) and bool(m.group(2)) or rconst
                if m.group(2):
                    scope["aliases"][m.group(3)] = {"field": f, "const": is_const or bool(m.group(1)), "kind": "ref"}
                else:
                    mm = self.root_path(rhs, scope)
                    if mm and mm in ITER_METHODS:
                        scope["aliases"][m.group(3)] = {"field": f, "const": rconst, "kind": "iter"}
        self.expr(s, scope)

    # ---- lambdas
    def lambda_method(self, inner, vis, scope):
        self.nlam += 1
        pname = "%s$%d" % (self.name, self.nlam)
        w = MethodWalker(self.ci, dict(self.fh, const=False), self.accessors, None, self.out_methods, pname)
        w.const = self.const and False
        w.local_lambdas = dict(self.local_lambdas)
        top = w.new_scope(None)
        # aliases of the enclosing function stay visible by reference capture
        top["aliases"] = dict(self.all_aliases(scope)) if scope is not None else {}
        w.walk(inner, top)
        w.close_scope(top)
        self.out_methods.append({"class": self.ci.name, "name": pname, "min": 0, "max": 99, "vis": vis, "items": w.items,
                                 "head": "lambda in " + self.name})
        self.nlam = max(self.nlam, w.nlam)
        return pname

    # ---- expressions
    def root_field(self, e, scope):
        """the field (or alias) an initialiser expression is rooted at: F, *F, F.x(..), alias..."""
        t = e.strip()
        t = re.sub(r"^[\s(*]+", "", t)
        for f in self.fieldnames:
            if re.match(re.escape(f) + r"(?![\w])", t):
                fi = self.fieldinfo[f]
                return f, (self.const and not fi[3])
        m = re.match(r"(\w+)\b", t)
        if m:
            a = self.find_alias(scope, m.group(1))
            if a:
                return a["field"], a["const"]
        return None

    def root_path(self, e, scope):
        t = re.sub(r"^[\s(*]+", "", e.strip())
        m = re.match(r"[\w.]+?\.(\w+)\s*\(", t)
        # first method called on the root
        for f in self.fieldnames:
            if t.startswith(f):
                mm = re.match(r"\s*\.\s*(\w+)\s*\(", t[len(f):])
                return mm.group(1) if mm else None
        mm = re.match(r"(\w+)\s*\.\s*(\w+)\s*\(", t)
        return mm.group(2) if mm else None

    def expr(self, s, scope):
        """emit, in textual order, the accesses / calls / inlined lambdas of one statement or expression"""
        # accessor substitution
        for an, (fexpr, _) in self.accessors.items():
            s = re.sub(r"(?<![\w.>:])(?:this\s*->\s*)?%s\s*\(\s*\)" % re.escape(an), fexpr, s)
        if "const_cast" in s:
            self.shape("const_cast is not handled: %r" % norm(s)[:100])
        events = []      # (pos, kind, payload)
        # 1. lambdas (outermost first); replace their text by blanks so that inner text is not scanned twice
        work = s
        i = 0
        while i < len(work):
            c = work[i]
            if c in "\"'":
                i = skip_string(work, i)
                continue
            if c == "[":
                if work[i:i + 2] == "[[":
                    i += 2
                    continue
                la = lambda_at(work, i)
                if la:
                    b0, cap = la
                    inner, e = brace_block(work, b0)
                    after = work[e:].lstrip()
                    pre = work[:i].rstrip()
                    if after.startswith("("):
                        events.append((i, "inline", inner))
                    else:
                        # argument of a synchronous std algorithm?
                        call = enclosing_call(work, i)
                        if call in SYNC_ALGOS:
                            events.append((i, "inline", inner))
                        else:
                            events.append((i, "deferred", inner))
                    work = work[:i] + " " * (e - i) + work[e:]
                    i = e
                    continue
            i += 1
        # 2. strings -> blanks
        w2 = []
        i = 0
        while i < len(work):
            if work[i] in "\"'":
                j = skip_string(work, i)
                w2.append(" " * (j - i))
                i = j
            else:
                w2.append(work[i])
                i += 1
        work = "".join(w2)
        # 3. mutex mentions
        for mx in self.mutexnames:
            if re.search(r"(?<![\w.>])%s\b" % re.escape(mx), work):
                self.shape("mutex %s used outside a recognised lock declaration: %r" % (mx, norm(s)[:100]))
        # 4. field / alias occurrences
        taken = [False] * len(work)
        names = [(f, "field") for f in self.fieldnames]
        aliases = self.all_aliases(scope)
        names += [(a, "alias") for a in sorted(aliases, key=len, reverse=True)]
        for nm, kind in names:
            for m in re.finditer(r"(?<![\w])%s(?![\w])" % re.escape(nm), work):
                if any(taken[m.start():m.end()]):
                    continue
                pre = work[:m.start()].rstrip()
                if pre.endswith("this->"):
                    pre = pre[:-6].rstrip()
                elif pre.endswith(".") or pre.endswith("->") or pre.endswith("::"):
                    continue                                  # member of something else
                if kind == "alias":
                    # the declaration itself:  auto &x = ...
                    if re.search(r"\bauto\s*(&&|&)?\s*$", pre) or re.search(r"\[[^\]]*$", pre) and re.search(r"auto\s*&?\s*\[[^\]]*$", pre):
                        continue
                for k in range(m.start(), m.end()):
                    taken[k] = True
                events.append((m.start(), kind, (nm, pre, work[m.end():])))
        # 5. calls of member functions of this class
        for m in re.finditer(r"(?<![\w])([A-Za-z_]\w*)\s*(<[^;()]*?>)?\s*\(", work):
            nm = m.group(1)
            if any(taken[m.start(1):m.end(1)]):
                continue
            pre = work[:m.start()].rstrip()
            if nm in self.local_lambdas and not (pre.endswith(".") or pre.endswith("->") or pre.endswith("::")):
                if re.search(r"\bauto\s*$", pre):
                    continue
                events.append((m.start(), "lcall", self.local_lambdas[nm]))
                continue
            if nm in KEYWORDS or nm not in self.method_names:
                continue
            if pre.endswith("this->"):
                pass
            elif pre.endswith(".") or pre.endswith("->"):
                # a call through another object; refuse the one alias of *this the code uses
                if re.search(r"\bm_e\s*\.\s*get\s*\(\s*\)\s*\.$", pre):
                    events.append((m.start(), "selfalias", nm))
                continue
            elif pre.endswith("::"):
                q = re.search(r"([\w:]+)::$", pre).group(1)
                if q.split("::")[-1] != self.ci.name:
                    continue
                if pre.endswith("&" + q + "::"):
                    continue                                  # pointer to member, not a call
            elif re.search(r"[\w>&\*]$", pre) and not re.search(r"\b(return|throw|else|case|co_return)$", pre):
                continue                                      # a declaration `Type name(...)`
            p0 = m.end() - 1
            e = paren_end(work, p0)
            nargs = len(split_args(s[p0 + 1:e - 1]))
            events.append((m.start(), "call", (nm, nargs, bool(m.group(2)))))
        for pos, kind, pl in sorted(events, key=lambda x: x[0]):
            if kind == "inline":
                sub = self.new_scope(scope)
                self.walk(pl, sub)
                self.close_scope(sub)
            elif kind == "deferred":
                self.lambda_method(pl, "Callback", None)
            elif kind == "lcall":
                self.emit("ICall", pl, 0, False)
            elif kind == "call":
                self.emit("ICall", pl[0], pl[1], pl[2])
            elif kind == "selfalias":
                self.emit("ISelfAlias", pl)
            elif kind == "field":
                self.access(pl[0], pl[1], pl[2], None, s)
            elif kind == "alias":
                self.access(aliases[pl[0]]["field"], pl[1], pl[2], aliases[pl[0]], s)

    def access(self, f, pre, post, alias, stmt_text):
        fi = self.fieldinfo[f]
        fkind = fi[1]
        targets = [f]
        if fkind == "WHOLE":
            targets = [x[0] for x in self.ci.fields if x[0].startswith(f + ".")]
            fkind = "FShared"
        is_const = (self.const and not fi[3]) or (alias is not None and alias["const"])
        rw = self.classify(f, fi, pre, post, alias, is_const, fkind, stmt_text)
        for t in targets:
            self.emit("IWr" if rw == "W" else "IRd", t)

    def classify(self, f, fi, pre, post, alias, is_const, fkind, stmt_text):
        p = post.lstrip()
        # access path
        segs = []
        rest = p
        while True:
            m = re.match(r"\s*(\.|->)\s*(\w+)\s*", rest)
            if m:
                nm = m.group(2)
                r2 = rest[m.end():]
                if r2.startswith("(") or re.match(r"<[^;()]*>\s*\(", r2):
                    k = r2.find("(")
                    e = paren_end(r2, k)
                    segs.append(("call", m.group(1), nm))
                    rest = r2[e:]
                else:
                    segs.append(("member", m.group(1), nm))
                    rest = r2
                continue
            m = re.match(r"\s*\[", rest)
            if m:
                k = rest.find("[")
                depth, j = 0, k
                while j < len(rest):
                    if rest[j] == "[":
                        depth += 1
                    elif rest[j] == "]":
                        depth -= 1
                        if depth == 0:
                            break
                    j += 1
                segs.append(("index", "", ""))
                rest = rest[j + 1:]
                continue
            m = re.match(r"\s*\(", rest)
            if m and segs and segs[-1][0] in ("index", "member"):
                k = rest.find("(")
                segs.append(("invoke", "", ""))
                rest = rest[paren_end(rest, k):]
                continue
            break
        tail = rest.lstrip()
        assign = bool(re.match(r"(=(?!=)|\+=|-=|\*=|/=|%=|\|=|&=|\^=|<<=|>>=|\+\+|--)", tail))
        prefix_incdec = bool(re.search(r"(\+\+|--)$", pre))
        if fkind != "FShared":
            # exempt kinds: classified loosely (the kind of access plays no role in the theorem)
            if fkind == "FDelegated" and (assign and not segs):
                self.shape("sub-object %s of an analysed class is assigned as a whole" % f)
            return "W" if (assign or prefix_incdec or any(s[0] == "call" and s[2] in WR_METHODS for s in segs[:1])) else "R"
        if is_const:
            if assign and not (alias and alias["kind"] == "iter" and not segs):
                self.shape("assignment through a const view of %s: %r" % (f, norm(stmt_text)[:100]))
            return "R"
        # non-const view of a shared field
        kind = alias["kind"] if alias else "ref"
        if kind == "iter":
            # iterator / insert-result: writes go through ->second / .first->second / *it
            if assign and segs:
                return "W"
            if assign and not segs:
                return "R"                       # re-seating the iterator variable itself
            for sg in segs:
                if sg[0] == "call" and sg[2] in WR_METHODS:
                    return "W"
                if sg[0] == "call" and sg[2] not in RD_METHODS and sg[2] not in ("first", "second"):
                    self.shape("method %s called through an iterator into %s" % (sg[2], f))
            return "R"
        if segs and segs[0][0] == "call" and segs[0][1] == ".":
            nm = segs[0][2]
            if nm in WR_METHODS:
                return "W"
            if nm in RD_METHODS:
                if assign:
                    return "W"
                # a later mutating call on what the read returned (x.find(..)->second.push_back)
                for sg in segs[1:]:
                    if sg[0] == "call" and sg[2] in WR_METHODS:
                        return "W"
                return "R"
            self.shape("member function %s of shared field %s is not classified as reading or writing" % (nm, f))
        if segs and segs[0][1] == "->":
            # pointer-like field: the field itself is read, the pointee is another object
            if assign and len(segs) == 1 and segs[0][0] == "member":
                pass
            return "R"
        if segs and segs[0][0] == "index":
            t = fi[2]
            if re.search(r"\b(map|unordered_map)\s*<", t):
                return "W"                       # operator[] may insert
            if assign:
                return "W"
            self.shape("operator[] on shared field %s of type %s" % (f, t))
        if segs and segs[0][0] == "member":
            return "W" if assign else "R"
        if assign or prefix_incdec:
            return "W"
        # plain value use
        pr = pre.rstrip()
        if pr.endswith("&") and not pr.endswith("&&"):
            self.shape("address of shared field %s is taken: %r" % (f, norm(stmt_text)[:100]))
        po = tail
        if (pr.endswith("(") or pr.endswith(",")) and (po.startswith(")") or po.startswith(",")):
            call = enclosing_call(pre + " X" + post, len(pre) + 1)
            if call and re.search(r"(unique_lock|shared_lock|lock_guard)", call):
                return "R"
            if pr.endswith("(") and re.search(r"\b(if|while|switch|return)\s*\($", pr):
                return "R"
            self.shape("shared field %s is passed as an argument (by value or by reference?): %r" % (f, norm(stmt_text)[:100]))
        return "R"


def split_semis(s):
    out, depth, cur, i = [], 0, "", 0
    while i < len(s):
        c = s[i]
        if c in "\"'":
            j = skip_string(s, i)
            cur += s[i:j]
            i = j
            continue
        if c in "([{":
            depth += 1
        elif c in ")]}":
            depth -= 1
        if c == ";" and depth == 0:
            out.append(cur)
            cur = ""
        else:
            cur += c
        i += 1
    if cur.strip():
        out.append(cur)
    return out


def enclosing_call(s, i):
    """name of the call whose argument list contains position i (or None)"""
    depth = 0
    j = i - 1
    while j >= 0:
        c = s[j]
        if c in ")]}":
            depth += 1
        elif c in "([{":
            if depth == 0:
                if c != "(":
                    return None
                m = re.search(r"([\w:<>,\s\*&]*?[\w>])\s*$", s[:j])
                if not m:
                    return None
                t = m.group(1).strip()
                m2 = re.search(r"((?:[\w]+::)*[\w]+(?:\s*<.*>)?)$", t, re.S)
                return norm(m2.group(1)) if m2 else t
            depth -= 1
        j -= 1
    return None


def analyse_class(ci):
    # accessor members: body is exactly `return <own field expr>;` and the result is a reference
    accessors = {}
    fieldnames = [f[0] for f in ci.fields]
    for fh in ci.funcs:
        b = norm(fh["body"])
        m = re.fullmatch(r"return ([\w.]+);", b)
        if m and m.group(1) in fieldnames and fh["ret"].rstrip().endswith("&") and fh["max"] == 0:
            prev = accessors.get(fh["name"])
            if prev and prev[0] != m.group(1):
                raise Shape("%s: accessor %s names two different fields" % (ci.name, fh["name"]))
            accessors[fh["name"]] = (m.group(1), True)
    methods = []
    for fh in ci.funcs:
        nm = fh["name"]
        if nm in accessors:
            # kept in the table as a method too (reads the field); calls of it are substituted
            pass
        is_init = nm == ci.name or nm == "~" + ci.name
        vis = "Init" if is_init else {"public": "Public", "private": "Private", "protected": "Private"}[fh["vis"]]
        if vis == "Public" and nm.endswith("_int"):
            # `_int` members are documented as internal ("does not obtain a mutex lock"): they are analysed at their call
            # sites like private helpers - provided nothing outside the class body calls them
            if nm in ci.outside_text:
                raise Shape("%s::%s is an unlocked internal helper but is mentioned outside the class" % (ci.name, nm))
            vis = "Private"
        w = MethodWalker(ci, fh, accessors, None, methods, nm)
        top = w.new_scope(None)
        if is_init:
            # constructor / destructor bodies run before the object is shared / after sharing ended
            methods.append({"class": ci.name, "name": nm, "min": fh["min"], "max": fh["max"], "vis": vis, "items": [], "head": fh["head"],
                            "template_nd": False})
            # but lambdas registered during construction are callbacks that run later
            w.walk(fh["body"], top)
            w.close_scope(top)
            continue
        w.walk(fh["body"], top)
        w.close_scope(top)
        methods.append({"class": ci.name, "name": nm, "min": fh["min"], "max": 99 if fh["variadic"] else fh["max"], "vis": vis, "items": w.items,
                        "head": fh["head"], "template_nd": fh["template"] and not fh["deducible"]})
    # callbacks created inside an Init body keep their own entries (already appended by lambda_method)
    # resolve calls: drop calls to members that (transitively) touch nothing
    byname = {}
    for md in methods:
        byname.setdefault(md["name"], []).append(md)

    def cands(name, nargs, explicit_targs):
        cs = [m for m in byname.get(name, []) if m["min"] <= nargs <= m["max"]]
        return [m for m in cs if m.get("template_nd", False) == explicit_targs]

    relevant = set()
    changed = True
    while changed:
        changed = False
        for md in methods:
            key = id(md)
            if key in relevant:
                continue
            for it in md["items"]:
                if it[0] in ("IAcq", "IRel", "IRd", "IWr"):
                    relevant.add(key)
                    changed = True
                    break
                if it[0] == "ICall" and any(id(c) in relevant for c in cands(it[1], it[2], it[3])):
                    relevant.add(key)
                    changed = True
                    break
    for md in methods:
        items = []
        for it in md["items"]:
            if it[0] == "ICall":
                cs = cands(it[1], it[2], it[3])
                if not cs:
                    if any(id(c) in relevant for c in byname.get(it[1], [])):
                        raise Shape("%s::%s: call %s with %d arguments matches no overload" % (ci.name, md["name"], it[1], it[2]))
                    continue
                if not any(id(c) in relevant for c in cs):
                    continue
                items.append(("ICall", it[1], it[2], it[3]))
            elif it[0] == "ISelfAlias":
                if any(id(c) in relevant and any(x[0] in ("IAcq", "IRel", "IWr") or (x[0] == "IRd" and kind_of(ci, x[1]) == "FShared")
                                                  for x in c["items"]) for c in byname.get(it[1], [])):
                    raise Shape("%s::%s: %s is called through an alias of *this and touches shared state" % (ci.name, md["name"], it[1]))
            else:
                items.append(it)
        md["items"] = items
    # narrow arity of resolved template/explicit cases: keep min/max as parsed
    return methods


def kind_of(ci, fname):
    for f in ci.fields:
        if f[0] == fname:
            return f[1]
    return None


def qstr(s):
    return '"%s"' % s.replace('"', '""')


def significant(ci, md):
    out = []
    for it in md["items"]:
        if it[0] == "ICall" and it[1] == md["name"]:
            continue                      # (hook builds: get_object re-enters itself before it takes any lock)
        if it[0] in ("IAcq", "IRel", "IWr", "ICall") or (it[0] == "IRd" and kind_of(ci, it[1]) == "FShared"):
            out.append(it)
    return out


def with_hooks(repo, on):
    if on:
        DEFINED.add(HOOK_GUARD)
        UNDEFINED.discard(HOOK_GUARD)
    else:
        UNDEFINED.add(HOOK_GUARD)
        DEFINED.discard(HOOK_GUARD)
    try:
        infos = [load_class(repo, c, rel) for c, rel in CLASSES]
        return infos, [analyse_class(ci) for ci in infos]
    finally:
        UNDEFINED.add(HOOK_GUARD)
        DEFINED.discard(HOOK_GUARD)


def check_hooks(repo, infos, tables):
    """the CHAISCRIPT_VERIF build must have the same locks and shared-field accesses in every member function"""
    infos2, tables2 = with_hooks(repo, True)
    for ci, t1, ci2, t2 in zip(infos, tables, infos2, tables2):
        if [(f[0], f[1]) for f in ci.fields] != [(f[0], f[1]) for f in ci2.fields] or ci.mutexes != ci2.mutexes:
            raise Shape("%s: the %s build has different data members" % (ci.name, HOOK_GUARD))
        base = {}
        for md in t1:
            base.setdefault((md["name"], md["min"], md["max"]), []).append(significant(ci, md))
        for md in t2:
            key = (md["name"], md["min"], md["max"])
            sig = significant(ci2, md)
            if key in base and base[key]:
                if sig not in base[key]:
                    raise Shape("%s::%s: the %s build differs in locks / shared-field accesses" % (ci.name, md["name"], HOOK_GUARD))
            elif any(it[0] != "ICall" for it in sig):
                raise Shape("%s::%s exists only in the %s build and touches locks or shared fields" % (ci.name, md["name"], HOOK_GUARD))


def translate(repo):
    infos, tables = with_hooks(repo, False)
    check_hooks(repo, infos, tables)
    mutex_ids, field_ids = {}, {}
    mlines, flines, melines = [], [], []
    for ci in infos:
        if not ci.mutexes:
            raise Shape("%s: no mutex member found" % ci.name)
        for mn, mk in ci.mutexes:
            mutex_ids[(ci.name, mn)] = len(mutex_ids)
            mlines.append("  MkMutex %d %s %s %s" % (mutex_ids[(ci.name, mn)], qstr(ci.name), qstr(mn), mk))
        for fn, fk, ft, mut in ci.fields:
            if fk == "WHOLE":
                continue
            field_ids[(ci.name, fn)] = len(field_ids)
            flines.append("  MkField %d %s %s %s" % (field_ids[(ci.name, fn)], qstr(ci.name), qstr(fn), fk))
    required = {("Dispatch_Engine", "m_state.m_functions"), ("Dispatch_Engine", "m_state.m_function_objects"),
                ("Dispatch_Engine", "m_state.m_boxed_functions"), ("Dispatch_Engine", "m_state.m_global_objects"),
                ("Dispatch_Engine", "m_state.m_types"), ("Type_Conversions", "m_conversions"), ("Type_Conversions", "m_convertableTypes"),
                ("Type_Conversions", "m_num_types"), ("ChaiScript_Basic", "m_used_files"), ("ChaiScript_Basic", "m_active_loaded_modules"),
                ("ChaiScript_Basic", "m_loaded_modules"), ("ChaiScript_Basic", "m_namespace_generators")}
    missing = required - set(field_ids)
    if missing:
        raise Shape("expected shared fields not found: %s" % sorted(missing))
    for need in (("ChaiScript_Basic", "m_use_mutex"), ("ChaiScript_Basic", "m_mutex"), ("Dispatch_Engine", "m_mutex"), ("Type_Conversions", "m_mutex")):
        if need not in mutex_ids:
            raise Shape("expected mutex not found: %s::%s" % need)
    nmeth = 0
    for ci, table in zip(infos, tables):
        for md in table:
            its = []
            for it in md["items"]:
                if it[0] == "IAcq":
                    its.append("IAcq %d %s" % (mutex_ids[(ci.name, it[1])], it[2]))
                elif it[0] == "IRel":
                    its.append("IRel %d" % mutex_ids[(ci.name, it[1])])
                elif it[0] in ("IRd", "IWr"):
                    its.append("%s %d" % (it[0], field_ids[(ci.name, it[1])]))
                elif it[0] == "ICall":
                    its.append("ICall %s %d %s" % (qstr(it[1]), it[2], "true" if it[3] else "false"))
                else:
                    raise Shape("internal: item %r" % (it,))
            melines.append("  (* %s *)\n  MkMethod %s %s %d %d %s %s\n    [%s]" % (md["head"].replace("(*", "( *").replace("*)", "* )").replace('"', "'")[:150], qstr(ci.name), qstr(md["name"]),
                                                                               md["min"], md["max"], "true" if md.get("template_nd") else "false", md["vis"], "; ".join(its)))
            nmeth += 1
    names = ["add_function", "add_global", "add_global_const", "add_conversion", "use", "get_state", "get_function", "eval_file"]
    out = []
    out.append("(* GENERATED by tools/translate/t_Locks.py from %s -- do not edit.\n   lock / field-access table of Dispatch_Engine, Type_Conversions, ChaiScript_Basic (property C13) *)" %
               ", ".join(rel for _, rel in CLASSES))
    out.append("From Coq Require Import List String.\nFrom ChaiV Require Import ConcDefs.\nImport ListNotations.\nLocal Open Scope string_scope.\n")
    out.append("Definition mutexes : list mutex_decl := [\n%s\n]." % ";\n".join(mlines))
    out.append("Definition fields : list field_decl := [\n%s\n]." % ";\n".join(flines))
    out.append("Definition methods : list method_decl := [\n%s\n]." % ";\n".join(melines))
    out.append("Definition use_mutex_id : nat := %d." % mutex_ids[("ChaiScript_Basic", "m_use_mutex")])
    out.append("Definition used_files_id : nat := %d." % field_ids[("ChaiScript_Basic", "m_used_files")])
    out.append("Definition engine_mutex_id : nat := %d." % mutex_ids[("Dispatch_Engine", "m_mutex")])
    out.append("Definition conv_mutex_id : nat := %d." % mutex_ids[("Type_Conversions", "m_mutex")])
    for nm, key in (("f_functions", ("Dispatch_Engine", "m_state.m_functions")), ("f_function_objects", ("Dispatch_Engine", "m_state.m_function_objects")),
                    ("f_boxed_functions", ("Dispatch_Engine", "m_state.m_boxed_functions")), ("f_global_objects", ("Dispatch_Engine", "m_state.m_global_objects")),
                    ("f_types", ("Dispatch_Engine", "m_state.m_types")), ("f_conversions", ("Type_Conversions", "m_conversions")),
                    ("f_convertable_types", ("Type_Conversions", "m_convertableTypes"))):
        out.append("Definition %s : nat := %d." % (nm, field_ids[key]))
    return "\n\n".join(out) + "\n"


if __name__ == "__main__":
    import sys
    print(translate(sys.argv[1] if len(sys.argv) > 1 else "/repo"))
