"""Translator: chaiscript_engine.hpp  ->  G_LoadFile.v   (property C19)

Recognises the ordered stream operations of skip_bom / load_file, the statements of use()'s try block and
catch clause, and the shapes of eval_file / internal_eval_file.  Anything else raises Shape."""
import os, re
from cxxshape import *


def stmts(body):
    return [(k, norm(h), inner) for k, h, inner in top_level_blocks(body)]


def coq_list(xs):
    return "[" + "; ".join(xs) + "]"


def char_lit(s):
    m = re.fullmatch(r"'\\x([0-9a-fA-F]{1,2})'", s)
    if not m:
        raise Shape("skip_bom: unrecognised character literal %s" % s)
    return int(m.group(1), 16)


def skip_bom(src):
    body = function_body(src, r"static bool skip_bom\(std::ifstream &infile\)")
    ops, needed, buflen = [], None, None
    for k, h, inner in stmts(body):
        if k == "stmt":
            if (m := re.fullmatch(r"size_t bytes_needed = (\d+);", h)):
                needed = int(m.group(1))
            elif (m := re.fullmatch(r"char buffer\[(\d+)\];", h)):
                buflen = int(m.group(1))
            elif h == "memset(buffer, '\\0', bytes_needed);":
                if needed is None or buflen is None or needed > buflen:
                    raise Shape("skip_bom: memset before / beyond the buffer declaration")
                ops.append("BS (BMemset %d)" % needed)
            elif h == "infile.read(buffer, static_cast<std::streamsize>(bytes_needed));":
                if needed is None or buflen is None or needed > buflen:
                    raise Shape("skip_bom: read beyond the buffer")
                ops.append("BS (BRead %d)" % needed)
            elif h == "infile.clear();":
                ops.append("BS BClear")
            elif (m := re.fullmatch(r"infile\.seekg\((\d+)\);", h)):
                ops.append("BS (BSeek %s)" % m.group(1))
            elif (m := re.fullmatch(r"return (true|false);", h)):
                ops.append("BS (BReturn %s)" % m.group(1))
            else:
                raise Shape("skip_bom: unrecognised statement %r" % h[:80])
        elif k == "if":
            m = re.fullmatch(r"if \(\(buffer\[0\] == ('[^']+')\) && \(buffer\[1\] == ('[^']+')\) && \(buffer\[2\] == ('[^']+')\)\)", h)
            if not m or buflen != 3:
                raise Shape("skip_bom: unrecognised condition %r" % h[:100])
            sig = [char_lit(m.group(i)) for i in (1, 2, 3)]
            th = []
            for k2, h2, _ in stmts(inner):
                if k2 != "stmt":
                    raise Shape("skip_bom: nested block in the BOM branch")
                if (m2 := re.fullmatch(r"infile\.seekg\((\d+)\);", h2)):
                    th.append("BSeek %s" % m2.group(1))
                elif (m2 := re.fullmatch(r"return (true|false);", h2)):
                    th.append("BReturn %s" % m2.group(1))
                elif h2 == "infile.clear();":
                    th.append("BClear")
                else:
                    raise Shape("skip_bom: unrecognised statement in the BOM branch %r" % h2[:80])
            ops.append("BIfBufferIs %s %s" % (coq_list(["%d%%N" % b for b in sig]), coq_list(th)))
        else:
            raise Shape("skip_bom: unexpected block %r" % h[:60])
    return ops


def load_file(src):
    body = function_body(src, r"static std::string load_file\(const std::string &t_filename\)")
    ops = []
    for k, h, inner in stmts(body):
        if k == "stmt":
            if (m := re.fullmatch(r"std::ifstream infile\(t_filename\.c_str\(\), ([\w:\s|]+)\);", h)):
                flags = set(norm(f) for f in m.group(1).split("|"))
                if not flags <= {"std::ios::in", "std::ios::ate", "std::ios::binary"} or "std::ios::in" not in flags or "std::ios::binary" not in flags:
                    raise Shape("load_file: unexpected open mode %r" % m.group(1))
                ops.append("LOpen %s" % ("true" if "std::ios::ate" in flags else "false"))
            elif h == "auto size = infile.tellg();":
                ops.append("LTell")
            elif (m := re.fullmatch(r"infile\.seekg\((\d+), std::ios::beg\);", h)):
                ops.append("LSeekBeg %s" % m.group(1))
            elif h == "assert(size >= 0);":
                pass
            else:
                raise Shape("load_file: unrecognised statement %r" % h[:80])
        elif k == "if":
            if h == "if (!infile.is_open())":
                if norm(inner) != "throw chaiscript::exception::file_not_found_error(t_filename);":
                    raise Shape("load_file: unexpected reaction to a failed open %r" % norm(inner)[:80])
                ops.append("LThrowIfNotOpen")
            elif h == "if (skip_bom(infile))":
                inn = [x for _, x, _ in stmts(inner) if x != "assert(size >= 0);"]
                m = re.fullmatch(r"size -= (\d+);", inn[0]) if len(inn) == 1 else None
                if not m:
                    raise Shape("load_file: unexpected BOM adjustment %r" % inn)
                ops.append("LSkipBom %s" % m.group(1))
            elif h == "if (size == std::streampos(0))":
                if norm(inner) != "return std::string();":
                    raise Shape("load_file: unexpected empty-file branch")
                ops.append("LFinish?")
            else:
                raise Shape("load_file: unrecognised condition %r" % h[:80])
        elif k == "else":
            want = ["std::vector<char> v(static_cast<size_t>(size));", "infile.read(&v[0], static_cast<std::streamsize>(size));",
                    "return std::string(v.begin(), v.end());"]
            if [x for _, x, _ in stmts(inner)] != want or not ops or ops[-1] != "LFinish?":
                raise Shape("load_file: unexpected read branch")
            ops[-1] = "LFinish"
        else:
            raise Shape("load_file: unexpected block %r" % h[:60])
    if "LFinish?" in ops:
        raise Shape("load_file: empty-file branch without the read branch")
    return ops


LOCK = re.compile(r"chaiscript::detail::threading::unique_lock<chaiscript::detail::threading::(shared_mutex|recursive_mutex)> (\w+)\(m_(use_)?mutex\);")


def use(src):
    body = function_body(src, r"Boxed_Value use\(const std::string &t_filename\)")
    st = stmts(body)
    if [k for k, _, _ in st] != ["for", "stmt"] or st[0][1] != "for (const auto &path : m_use_paths)":
        raise Shape("use: expected a loop over m_use_paths followed by a throw")
    if st[1][1] != "throw exception::file_not_found_error(t_filename);":
        raise Shape("use: unexpected final statement %r" % st[1][1])
    loop = stmts(st[0][2])
    if [k for k, _, _ in loop] != ["stmt", "try", "catch"] or loop[0][1] != "const auto appendedpath = path + t_filename;":
        raise Shape("use: unexpected loop body shape")
    ops = []
    simple = {"l2.unlock();": "SUnlock", "l2.lock();": "SLock", "retval = eval_file(appendedpath);": "SEval", "m_used_files.insert(appendedpath);": "SInsert"}
    for k, h, inner in stmts(loop[1][2]):
        if k == "stmt":
            if LOCK.fullmatch(h) or h == "Boxed_Value retval;":
                continue
            if h in simple:
                ops.append("UTop %s" % simple[h])
            elif h == "return retval;":
                ops.append("UReturn")
            else:
                raise Shape("use: unrecognised statement %r" % h[:80])
        elif k == "if" and h == "if (m_used_files.count(appendedpath) == 0)":
            b = []
            for k2, h2, _ in stmts(inner):
                if k2 != "stmt" or h2 not in simple:
                    raise Shape("use: unrecognised statement in the not-yet-used branch %r" % h2[:80])
                b.append(simple[h2])
            ops.append("UCheckNotUsed %s" % coq_list(b))
        else:
            raise Shape("use: unexpected block %r" % h[:60])
    if loop[2][1] != "catch (const exception::file_not_found_error &e)":
        raise Shape("use: unexpected catch clause %r" % loop[2][1])
    c = norm(loop[2][2])
    if c == "if (e.filename != appendedpath) { throw; }":
        rethrow = True
    elif c == "":
        rethrow = False
    else:
        raise Shape("use: unrecognised catch body %r" % c[:80])
    return ops, rethrow


def eval_file_shapes(src):
    b = norm(function_body(src, r"Boxed_Value eval_file\(const std::string &t_filename, const Exception_Handler &t_handler = Exception_Handler\(\)\)"))
    direct = b == "return eval(load_file(t_filename), t_handler, t_filename);"
    body = function_body(src, r"Boxed_Value internal_eval_file\(const std::string &t_filename\)")
    st = stmts(body)
    ok = ([k for k, _, _ in st] == ["for", "stmt"] and st[0][1] == "for (const auto &path : m_use_paths)"
          and st[1][1] == "throw exception::file_not_found_error(t_filename);")
    if ok:
        loop = stmts(st[0][2])
        ok = ([k for k, _, _ in loop] == ["try", "catch", "catch"]
              and [x for _, x, _ in stmts(loop[0][2])] == ["const auto appendedpath = path + t_filename;", "return do_eval(load_file(appendedpath), appendedpath, true);"]
              and loop[1][1] == "catch (const exception::file_not_found_error &)" and norm(loop[1][2]) == ""
              and loop[2][1] == "catch (const exception::eval_error &t_ee)" and norm(loop[2][2]) == "throw Boxed_Value(t_ee);")
    if not ok:
        raise Shape("internal_eval_file: unrecognised shape")
    return direct


def translate(repo):
    src = strip_comments(open(os.path.join(repo, "include", "chaiscript", "language", "chaiscript_engine.hpp")).read())
    m = re.search(r"\bclass\s+ChaiScript_Basic\b[^;{]*\{", src)
    if not m:
        raise Shape("class ChaiScript_Basic not found")
    cb = brace_block(src, m.end() - 1)[0]
    sb, lf = skip_bom(cb), load_file(cb)
    ub, rethrow = use(cb)
    direct = eval_file_shapes(cb)
    return "\n".join([
        "(* GENERATED by tools/translate/t_LoadFile.py from chaiscript_engine.hpp — do not edit *)",
        "From Coq Require Import List String NArith.",
        "From ChaiV Require Import FilesDefs.",
        "Import ListNotations.",
        "",
        "(* ChaiScript_Basic::skip_bom and load_file: the stream operations in source order *)",
        "Definition skip_bom_ops : list bop := %s." % coq_list(sb),
        "Definition load_file_ops : list lop := %s." % coq_list(lf),
        "",
        "(* ChaiScript_Basic::use: the try block, and whether a file_not_found_error for another name is rethrown *)",
        "Definition use_body : list uop := %s." % coq_list(ub),
        "Definition use_rethrows_nested : bool := %s." % ("true" if rethrow else "false"),
        "",
        "(* eval_file(name) is eval(load_file(name), handler, name); internal_eval_file has the modelled shape (checked by the translator) *)",
        "Definition eval_file_is_eval_of_load_file : bool := %s." % ("true" if direct else "false"),
        ""])


if __name__ == "__main__":
    import sys
    print(translate(sys.argv[1] if len(sys.argv) > 1 else "/repo"))
