"""Translator: boxed_value.hpp (Object_Data::get overloads), handle_return.hpp (Handle_Return specialisations),
proxy_constructors.hpp (build_constructor_), type_conversions.hpp (type_conversion), chaiscript_eval.hpp
(clone_if_necessary), chaiscript_prelude.hpp (clone)  ->  G_Ownership.v.

For every C++ type shape the table says what the engine stores: a copy of / the caller's shared_ptr (owning),
a fresh make_shared<T> (owning, new object), a unique_ptr inside a shared_ptr (owning), or a reference_wrapper
(not owning), together with the is_ref / return_value arguments.  Raises Shape on anything it does not recognise."""
import os, re
from cxxshape import *

# ---------------------------------------------------------------------------------------------
# Object_Data::get
# ---------------------------------------------------------------------------------------------
PARAM_SHAPES = {
    "Boxed_Value::Void_Type": "BVoid",
    "const std::shared_ptr<T> *obj": "BSharedPtrPtr",
    "const std::shared_ptr<T> &obj": "BSharedCRef",
    "std::shared_ptr<T> &&obj": "BSharedRv",
    "T *t": "BPtr",
    "const T *t": "BCPtr",
    "std::reference_wrapper<T> obj": "BRefWrap",
    "std::unique_ptr<T> &&obj": "BUnique",
    "T t": "BValue",
}

MK = r"return std::make_shared<Data>\(detail::Get_Type_Info<(\w+)>::get\(\), chaiscript::detail::Any\((.*)\), (true|false), (\w+(?:\.get\(\))?), t_return_value\);"


def box_table(bv):
    body = function_body(bv, r"struct Object_Data\b")
    items = top_level_blocks(body)
    rows = []
    i = 0
    # items alternate: optional 'template<typename T>' folded into the stmt text by top_level_blocks? they are separate tokens
    text = norm(body)
    # split into member functions by scanning "static ... get(" headers
    heads = list(re.finditer(r"(template<typename T> )?static (auto|std::shared_ptr<Data>) get\(([^)]*)\) \{", text))
    if not heads:
        raise Shape("Object_Data: no get overloads found")
    consumed = 0
    for h in heads:
        if text[consumed:h.start()].strip():
            raise Shape("Object_Data: unrecognised member between overloads: %r" % text[consumed:h.start()][:120])
        inner, end = brace_block(text, h.end() - 1)
        consumed = end
        params = h.group(3).strip()
        inner = norm(inner)
        if params == "":
            if inner != "return std::make_shared<Data>(Type_Info(), chaiscript::detail::Any(), false, nullptr, false);":
                raise Shape("Object_Data::get(): %r" % inner)
            continue  # the undefined value: no object
        if not params.endswith(", bool t_return_value"):
            raise Shape("Object_Data::get(%s): second parameter is not `bool t_return_value`" % params)
        p0 = params[: -len(", bool t_return_value")].strip()
        if p0 not in PARAM_SHAPES:
            raise Shape("Object_Data::get(%s): unrecognised parameter shape" % p0)
        shape = PARAM_SHAPES[p0]
        if bool(h.group(1)) != (shape != "BVoid"):
            raise Shape("Object_Data::get(%s): template header mismatch" % p0)
        rows.append((shape, classify_get(shape, inner)))
    if text[consumed:].strip():
        raise Shape("Object_Data: trailing members not recognised: %r" % text[consumed:][:120])
    got = [s for s, _ in rows]
    if sorted(got) != sorted(PARAM_SHAPES.values()):
        raise Shape("Object_Data::get overload set differs from the modelled one: %s" % got)
    return rows


def classify_get(shape, inner):
    # delegations
    deleg = {"return get(*obj, t_return_value);": ("BSharedPtrPtr", "BSharedCRef"),
             "return get(std::ref(*t), t_return_value);": ("BPtr", "BRefWrap"),
             "return get(std::cref(*t), t_return_value);": ("BCPtr", "BCRefWrap")}
    if inner in deleg:
        frm, to = deleg[inner]
        if frm != shape:
            raise Shape("Object_Data::get(%s): unexpected delegation %r" % (shape, inner))
        return "BDelegate %s" % to
    if shape == "BVoid":
        if inner != "return std::make_shared<Data>(detail::Get_Type_Info<void>::get(), chaiscript::detail::Any(), false, nullptr, t_return_value);":
            raise Shape("Object_Data::get(Void_Type): %r" % inner)
        return "BStore StNone false"
    stmts = [norm(t) for k, t, _ in top_level_blocks(inner)]
    m = re.fullmatch(MK, stmts[-1])
    if not m:
        raise Shape("Object_Data::get(%s): last statement is not the recognised make_shared<Data>: %r" % (shape, stmts[-1]))
    tinfo, any_arg, is_ref, ptr = m.groups()
    if tinfo != "T":
        raise Shape("Object_Data::get(%s): type info of %s" % (shape, tinfo))
    pre = stmts[:-1]
    if shape == "BSharedCRef" and pre == [] and any_arg == "obj" and ptr == "obj.get()":
        st = "StSharedCopy"
    elif shape == "BSharedRv" and pre == ["auto ptr = obj.get();"] and any_arg == "std::move(obj)" and ptr == "ptr":
        st = "StSharedMoved"
    elif shape == "BRefWrap" and pre == ["auto p = &obj.get();"] and any_arg == "std::move(obj)" and ptr == "p":
        st = "StRefWrap"
    elif shape == "BUnique" and pre == ["auto ptr = obj.get();"] and any_arg == "std::make_shared<std::unique_ptr<T>>(std::move(obj))" and ptr == "ptr":
        st = "StUniqueInShared"
    elif shape == "BValue" and pre == ["auto p = std::make_shared<T>(std::move(t));", "auto ptr = p.get();"] and any_arg == "std::move(p)" and ptr == "ptr":
        st = "StSharedFresh"
    elif shape == "BValue" and pre == ["auto p = &t;"] and any_arg in ("std::ref(t)", "std::move(std::ref(t))") and ptr == "p":
        st = "StRefWrap"   # a reference to the by-value parameter (dangling once get returns)
    elif shape in ("BSharedCRef", "BSharedRv") and any_arg in ("std::ref(*obj)",):
        st = "StRefWrap"
    else:
        raise Shape("Object_Data::get(%s): body not recognised: %r" % (shape, inner))
    return "BStore %s %s" % (st, is_ref)


# ---------------------------------------------------------------------------------------------
# Handle_Return
# ---------------------------------------------------------------------------------------------
SPECS = {
    "const std::function<Ret> &": "RFunction 0", "std::function<Ret>": "RFunction 1", "const std::shared_ptr<std::function<Ret>>": "RFunction 2",
    "const std::shared_ptr<std::function<Ret>> &": "RFunction 3", "std::shared_ptr<std::function<Ret>>": "RFunction 4", "std::function<Ret> &": "RFunction 5",
    "Ret *&": "RPtrRef", "const Ret *&": "RCPtrRef", "Ret *": "RPtr", "const Ret *": "RCPtr",
    "std::shared_ptr<Ret> &": "RSharedRef", "std::shared_ptr<Ret>": "RShared", "const std::shared_ptr<Ret> &": "RSharedCRef",
    "std::unique_ptr<Ret>": "RUnique", "const Ret &": "RCRef", "const Ret": "RCValue", "Ret &": "RRef",
    "Boxed_Value": "RBoxed", "const Boxed_Value": "RCBoxed", "Boxed_Value &": "RBoxedRef", "const Boxed_Value &": "RBoxedCRef",
    "Boxed_Number": "RBoxedNumber", "const Boxed_Number": "RCBoxedNumber", "void": "RVoid",
}

# `return Boxed_Value(<expr>[, true]);` by (handle parameter, expr)
BOX_EXPR = {
    ("Ret *p", "p"): "BPtr", ("const Ret *p", "p"): "BCPtr",
    ("const std::shared_ptr<Ret> &r", "r"): "BSharedCRef",
    ("std::unique_ptr<Ret> &&r", "std::move(r)"): "BUnique",
    ("Ret r", "std::move(r)"): "BValue",
    ("Ret &r", "std::ref(r)"): "BRefWrap",
    ("Ret &r", "r"): "BValue",                       # a copy of the referenced object
    ("Ret &r", "Ret(r)"): "BValue",
    ("Ret r", "std::ref(r)"): "BRefWrap",
    ("Ret r", "std::cref(r)"): "BCRefWrap",
    ("T r", "std::move(r)"): "BValue",
    ("T &&r", "std::make_shared<T>(std::forward<T>(r))"): "BSharedRv",
    ("T &&r", "std::cref(r)"): "BCRefWrap",
    ("T &&r", "std::ref(r)"): "BRefWrap",
    ("T &&r", "r"): "BValue",
    ("T &&r", "std::remove_cv_t<std::remove_reference_t<T>>(r)"): "BValue",
    ("T &&r", "typename std::remove_reference<decltype(r)>::type{r}"): "BValue",
}


def parse_handle(spec, body):
    """body of one struct: list of (param, box shape, rv) for each `static Boxed_Value handle(..)`"""
    out = []
    for m in re.finditer(r"(?:template<typename T(?:, typename = [^{;]*?)?> )?static Boxed_Value handle\(([^)]*)\)(?: noexcept)? \{ return ([^;]*); \}", body):
        param, expr = m.group(1).strip(), m.group(2).strip()
        out.append((param, expr))
    stripped = re.sub(r"(?:template<typename T(?:, typename = [^{;]*?)?> )?static Boxed_Value handle\(([^)]*)\)(?: noexcept)? \{ return ([^;]*); \}", "", body).strip()
    if stripped:
        raise Shape("Handle_Return<%s>: unrecognised members: %r" % (spec, stripped[:160]))
    return out


def box_of(spec, param, expr):
    m = re.fullmatch(r"Boxed_Value\((.*?)(, true)?\)", expr)
    if not m:
        raise Shape("Handle_Return<%s>::handle(%s): `return %s` is not a Boxed_Value construction" % (spec, param, expr))
    arg, rv = m.group(1).strip(), bool(m.group(2))
    key = (param, arg)
    if key not in BOX_EXPR:
        raise Shape("Handle_Return<%s>::handle(%s): argument `%s` of Boxed_Value not recognised" % (spec, param, arg))
    made = arg.startswith("std::make_shared<T>(")
    return "RBox %s %s %s" % (BOX_EXPR[key], "true" if made else "false", "true" if rv else "false")


def ret_table(hr):
    n = norm(hr)
    i = n.find("namespace detail {")
    if i < 0:
        raise Shape("handle_return.hpp: namespace detail not found")
    inner, _ = brace_block(n, n.index("{", i))
    rows = {}
    pos = 0
    seen_ref_helper = False
    pat = re.compile(r"template<(typename Ret|typename Ret, bool Ptr|)> struct (Handle_Return(?:_Ref)?)(<[^{;]*?>)?( : [^{;]+?)? \{")
    while True:
        m = pat.search(inner, pos)
        if not m:
            break
        if inner[pos:m.start()].strip():
            raise Shape("handle_return.hpp: unrecognised text between specialisations: %r" % inner[pos:m.start()][:160])
        body, end = brace_block(inner, m.end() - 1)
        if inner[end:end + 1] != ";":
            raise Shape("handle_return.hpp: struct not followed by ;")
        pos = end + 1
        tparams, name, spec, base = m.group(1), m.group(2), m.group(3), m.group(4)
        body = norm(body)
        spec = spec[1:-1].strip() if spec else None
        base = base[3:].strip() if base else None
        if name == "Handle_Return_Ref":
            # helper for const Ret &: primary boxes std::cref (non-pointer Ret), <Ret, true> copies the pointer
            hs = parse_handle("Handle_Return_Ref", body)
            if spec is None:
                if len(hs) != 1:
                    raise Shape("Handle_Return_Ref: expected one handle")
                rows["__cref"] = box_of("const Ret & (Handle_Return_Ref)", hs[0][0], hs[0][1])
            elif spec == "Ret, true":
                if len(hs) != 1 or box_of("Handle_Return_Ref<Ret, true>", hs[0][0], hs[0][1]) != "RBox BValue false true":
                    raise Shape("Handle_Return_Ref<Ret, true>: %r" % hs)
            else:
                raise Shape("Handle_Return_Ref<%s>" % spec)
            continue
        if spec is None:
            # primary template: two overloads of handle selected by is_trivial
            hs = parse_handle("Ret", body)
            if len(hs) != 2 or hs[0][0] != "T r" or hs[1][0] != "T &&r":
                raise Shape("Handle_Return<Ret> (primary): %r" % hs)
            if "std::is_trivial_v<typename std::decay_t<T>>" not in body or "!(std::is_trivial_v<typename std::decay_t<T>>)" not in body:
                raise Shape("Handle_Return<Ret> (primary): selection of the overloads changed")
            rows["RValueTrivial"] = box_of("Ret", *hs[0])
            rows["RValue"] = box_of("Ret", *hs[1])
            continue
        if spec not in SPECS:
            raise Shape("Handle_Return<%s>: unknown specialisation" % spec)
        rs = SPECS[spec]
        hs = parse_handle(spec, body) if body else []
        if rs.startswith("RFunction"):
            if base:
                b = base.replace("Handle_Return<", "")[:-1].strip()
                if b not in SPECS or not SPECS[b].startswith("RFunction"):
                    raise Shape("Handle_Return<%s> : %s" % (spec, base))
                rows[rs] = "RInherit (%s)" % SPECS[b]
            else:
                for param, expr in hs:
                    if not re.fullmatch(r"Boxed_Value\( chaiscript::make_shared<dispatch::Proxy_Function_Base, dispatch::(Proxy_Function_Callable_Impl|Assignable_Proxy_Function_Impl)<.*", expr.replace("Boxed_Value(chaiscript", "Boxed_Value( chaiscript")):
                        raise Shape("Handle_Return<%s>: %r" % (spec, expr))
                rows[rs] = "RProxy"
            continue
        if rs == "RVoid":
            if body != "static Boxed_Value handle() { return void_var(); }":
                raise Shape("Handle_Return<void>: %r" % body)
            rows[rs] = "RVoidVar"
            continue
        if rs == "RBoxed":
            if hs != [("const Boxed_Value &r", "r")]:
                raise Shape("Handle_Return<Boxed_Value>: %r" % hs)
            rows[rs] = "RPass"
            continue
        if rs == "RBoxedNumber":
            if hs != [("const Boxed_Number &r", "r.bv")]:
                raise Shape("Handle_Return<Boxed_Number>: %r" % hs)
            rows[rs] = "RPass"
            continue
        if rs == "RCRef":
            if hs:
                # a direct body instead of the helper
                if len(hs) != 1:
                    raise Shape("Handle_Return<const Ret &>: %r" % hs)
                rows[rs] = box_of(spec, hs[0][0].replace("const Ret &r", "T &&r"), hs[0][1])
            else:
                want = "Handle_Return_Ref<const Ret &, std::is_pointer<typename std::remove_reference<const Ret &>::type>::value>"
                if base != want:
                    raise Shape("Handle_Return<const Ret &> : %s" % base)
                rows[rs] = "__cref"
            continue
        if rs == "RUnique":
            if len(hs) != 1:
                raise Shape("Handle_Return<std::unique_ptr<Ret>>: %r" % hs)
            rows[rs] = box_of(spec, *hs[0])
            continue
        if hs:
            if len(hs) != 1:
                raise Shape("Handle_Return<%s>: more than one handle" % spec)
            rows[rs] = box_of(spec, *hs[0])
        elif base:
            b = base.replace("Handle_Return<", "")[:-1].strip()
            if b not in SPECS:
                raise Shape("Handle_Return<%s> : %s" % (spec, base))
            rows[rs] = "RInherit %s" % SPECS[b] if " " not in SPECS[b] else "RInherit (%s)" % SPECS[b]
        else:
            raise Shape("Handle_Return<%s>: empty" % spec)
    if inner[pos:].strip():
        raise Shape("handle_return.hpp: trailing text not recognised: %r" % inner[pos:][:160])
    if rows.get("RCRef") == "__cref":
        if "__cref" not in rows:
            raise Shape("Handle_Return_Ref primary template missing")
        rows["RCRef"] = rows["__cref"]
    rows.pop("__cref", None)
    want = set(SPECS.values()) | {"RValue", "RValueTrivial"}
    if set(rows) != want:
        raise Shape("Handle_Return specialisations differ from the modelled set: missing %s, extra %s" % (sorted(want - set(rows)), sorted(set(rows) - want)))
    return rows


# ---------------------------------------------------------------------------------------------
# creation routes
# ---------------------------------------------------------------------------------------------
def creation_routes(rd):
    rows = []
    pc = norm(rd("dispatchkit/proxy_constructors.hpp"))
    want_sh = ("if constexpr (!std::is_copy_constructible_v<Class>) { auto call = [](auto &&...param) { return std::make_shared<Class>(std::forward<decltype(param)>(param)...); }; "
               "return Proxy_Function( chaiscript::make_shared<dispatch::Proxy_Function_Base, dispatch::Proxy_Function_Callable_Impl<std::shared_ptr<Class>(Params...), decltype(call)>>(call)); }")
    want_val = ("else if constexpr (true) { auto call = [](auto &&...param) { return Class(std::forward<decltype(param)>(param)...); }; "
                "return Proxy_Function( chaiscript::make_shared<dispatch::Proxy_Function_Base, dispatch::Proxy_Function_Callable_Impl<Class(Params...), decltype(call)>>(call)); }")
    sq = lambda t: re.sub(r"\s+", "", t)
    if sq(want_sh) not in sq(pc) or sq(want_val) not in sq(pc):
        raise Shape("proxy_constructors.hpp: build_constructor_ changed")
    rows.append(("CrConstructor", "ViaRet RValue"))
    rows.append(("CrConstructorShared", "ViaRet RShared"))
    # a registered function's result goes through Handle_Return<Ret>
    pfd = norm(rd("dispatchkit/proxy_functions_detail.hpp"))
    if "return Handle_Return<Ret>::handle(call_func(sig, std::index_sequence_for<Params...>{}, f, params, t_conversions));" not in pfd:
        raise Shape("proxy_functions_detail.hpp: call_func no longer wraps the result with Handle_Return<Ret>")
    rows.append(("CrValueReturn", "ViaRet RValue"))
    # clone(x) of the prelude calls the copy constructor registered under the type's name
    pre = rd("language/chaiscript_prelude.hpp")
    if not re.search(r"def clone\(x\) : function_exists\(type_name\(x\)\) && call_exists\(eval\(type_name\(x\)\), x\)\s*\{\s*eval\(type_name\(x\)\)\(x\)\.clone_var_attrs\(x\);\s*\}", pre):
        raise Shape("chaiscript_prelude.hpp: clone(x) changed")
    rows.append(("CrClone", "ViaCreation CrConstructor"))
    ev = norm(rd("language/chaiscript_eval.hpp"))
    cin = ("inline Boxed_Value clone_if_necessary(Boxed_Value incoming, std::atomic_uint_fast32_t &t_loc, const chaiscript::detail::Dispatch_State &t_ss) { "
           "if (!incoming.is_return_value()) { if (incoming.get_type_info().is_arithmetic()) { return Boxed_Number::clone(incoming); } "
           "else if (incoming.get_type_info().bare_equal_type_info(typeid(bool))) { return Boxed_Value(*static_cast<const bool *>(incoming.get_const_ptr())); } "
           "else if (incoming.get_type_info().bare_equal_type_info(typeid(std::string))) { return Boxed_Value(*static_cast<const std::string *>(incoming.get_const_ptr())); } "
           "else { std::array<Boxed_Value, 1> params{std::move(incoming)}; return t_ss->call_function(\"clone\", t_loc, Function_Params{params}, t_ss.conversions()); } } "
           "else { incoming.reset_return_value(); return incoming; } }")
    if cin not in ev:
        raise Shape("chaiscript_eval.hpp: clone_if_necessary changed")
    if "Boxed_Value bv(detail::clone_if_necessary(this->children[1]->eval(t_ss), m_loc, t_ss)); bv.reset_return_value(); t_ss.add_object(idname, bv);" not in ev:
        raise Shape("chaiscript_eval.hpp: Assign_Decl no longer clones its right-hand side")
    rows.append(("CrVarDecl", "ViaCreation CrClone"))
    tc = norm(rd("dispatchkit/type_conversions.hpp"))
    if "return chaiscript::Boxed_Value(t_function(detail::Cast_Helper<const From &>::cast(t_bv, nullptr)));" not in tc:
        raise Shape("type_conversions.hpp: type_conversion<From, To>(f) changed")
    if "return chaiscript::Boxed_Value(To(detail::Cast_Helper<From>::cast(t_bv, nullptr)));" not in tc:
        raise Shape("type_conversions.hpp: type_conversion<From, To>() changed")
    rows.append(("CrConversion", "ViaBox BValue"))
    rows.append(("CrConversionDefault", "ViaBox BValue"))
    return rows


def translate(repo):
    def rd(p):
        return strip_comments(open(os.path.join(repo, "include/chaiscript", p)).read())
    bt = box_table(rd("dispatchkit/boxed_value.hpp"))
    # std::cref(*t) produces reference_wrapper<const T>: handled by the reference_wrapper<T> overload with T = const X
    bt.append(("BCRefWrap", "BDelegate BRefWrap"))
    rt = ret_table(rd("dispatchkit/handle_return.hpp"))
    cr = creation_routes(rd)
    order = ["RValue", "RValueTrivial", "RCValue", "RRef", "RCRef", "RPtr", "RCPtr", "RPtrRef", "RCPtrRef", "RShared", "RSharedRef", "RSharedCRef", "RUnique",
             "RBoxed", "RCBoxed", "RBoxedRef", "RBoxedCRef", "RBoxedNumber", "RCBoxedNumber", "RVoid"] + ["RFunction %d" % i for i in range(6)]
    L = ["(* GENERATED by tools/translate/t_Ownership.py from /repo's working tree -- do not edit *)",
         "From Coq Require Import List Bool.", "From ChaiV Require Import LifeDefs.", "Import ListNotations.", "",
         "(* boxed_value.hpp, Object_Data::get: parameter shape -> what is stored in Data::m_obj, is_ref *)",
         "Definition box_table : list (bshape * broute) := [",
         ";\n".join("  (%s, %s)" % r for r in bt), "].", "",
         "(* handle_return.hpp: Handle_Return<shape>::handle *)",
         "Definition ret_table : list (rshape * rroute) := [",
         ";\n".join("  (%s, %s)" % (k if " " not in k else "(" + k + ")", rt[k]) for k in order), "].", "",
         "(* how a script brings an object into existence (proxy_constructors.hpp, proxy_functions_detail.hpp, chaiscript_prelude.hpp,",
         "   chaiscript_eval.hpp clone_if_necessary / Assign_Decl, type_conversions.hpp) *)",
         "Definition creation_table : list (creation * via) := [",
         ";\n".join("  (%s, %s)" % r for r in cr), "].", "",
         "Definition gen_ret (r : rshape) : option flags := ret_flags 8 ret_table box_table r.",
         "Definition gen_via (v : via) : option flags := via_flags 6 creation_table ret_table box_table v.", ""]
    return "\n".join(L)


if __name__ == "__main__":
    import sys
    print(translate(sys.argv[1] if len(sys.argv) > 1 else "/repo"))
