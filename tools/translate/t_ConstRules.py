"""Translator: chaiscript_eval.hpp (Equation_AST_Node, Prefix_AST_Node, Reference/Var_Decl, clone_if_necessary),
boxed_number.hpp (oper: where the in-place pointer comes from), boxed_value.hpp (Data::operator=, assign),
handle_return.hpp (which return forms produce const boxes / copies), proxy_functions.hpp (Attribute_Access),
bootstrap.hpp / bootstrap_stl.hpp / operators.hpp (the this-/lhs- parameter form of every mutating stdlib wrapper)
-> G_ConstRules.v.   Raises Shape on anything it does not recognise."""
import os, re
from cxxshape import *


def equation_guards(ev):
    body = norm(function_body(ev, r"struct Equation_AST_Node final : AST_Node_Impl<T>"))
    m = re.search(r"Boxed_Value eval_internal\(const chaiscript::detail::Dispatch_State &t_ss\) const override \{", body)
    if not m:
        raise Shape("Equation_AST_Node::eval_internal not found")
    inner, _ = brace_block(body, m.end() - 1)
    inner = norm(inner)
    head = ("chaiscript::eval::detail::Function_Push_Pop fpp(t_ss); auto params = [&]() { auto rhs = this->children[1]->eval(t_ss); "
            "auto lhs = this->children[0]->eval(t_ss); std::array<Boxed_Value, 2> p{std::move(lhs), std::move(rhs)}; return p; }(); ")
    if not inner.startswith(head):
        raise Shape("Equation_AST_Node: parameter evaluation changed")
    rest = inner[len(head):]
    guards = []
    g_ret = 'if (params[0].is_return_value()) { throw exception::eval_error("Error, cannot assign to temporary value."); }'
    g_const = 'if (params[0].is_const()) { throw exception::eval_error("Error, cannot assign to constant value."); }'
    # accepted shapes: both guards (if / else if), or only one of them
    both = g_ret + " else " + g_const + " "
    if rest.startswith(both):
        guards, rest = ["GReturnValue", "GConst"], rest[len(both):]
    elif rest.startswith(g_ret + " "):
        guards, rest = ["GReturnValue"], rest[len(g_ret) + 1:]
    elif rest.startswith(g_const + " "):
        guards, rest = ["GConst"], rest[len(g_const) + 1:]
    # whatever follows must be the dispatch on the kind of assignment, with no other use of params[0] before it
    if not rest.startswith("if (m_oper != Operators::Opers::invalid && params[0].get_type_info().is_arithmetic() && params[1].get_type_info().is_arithmetic()) { "
                           "try { return Boxed_Number::do_oper(m_oper, params[0], params[1]); }"):
        raise Shape("Equation_AST_Node: statements between the guards and the arithmetic fast path not recognised: %r" % rest[:200])
    for need in ('} else if (this->text == ":=") { if (params[0].is_undef() || Boxed_Value::type_match(params[0], params[1])) { params[0].assign(params[1]); params[0].reset_return_value(); }',
                 "return t_ss->call_function(this->text, m_loc, Function_Params{params}, t_ss.conversions());",
                 "params[1] = detail::clone_if_necessary(std::move(params[1]), m_clone_loc, t_ss);"):
        if need not in rest:
            raise Shape("Equation_AST_Node: expected fragment missing: %r" % need[:80])
    if rest.count(".assign(") != 2:
        raise Shape("Equation_AST_Node: unexpected number of Boxed_Value::assign calls")
    return guards


def prefix_guard(ev):
    body = norm(function_body(ev, r"struct Prefix_AST_Node final : AST_Node_Impl<T>"))
    fast = ("if (m_oper != Operators::Opers::invalid && m_oper != Operators::Opers::bitwise_and && bv.get_type_info().is_arithmetic()) { ")
    i = body.find(fast)
    if i < 0:
        raise Shape("Prefix_AST_Node: arithmetic fast path not recognised")
    rest = body[i + len(fast):]
    g = ('if ((m_oper == Operators::Opers::pre_increment || m_oper == Operators::Opers::pre_decrement) && bv.is_const()) { '
         'throw exception::eval_error("Error with prefix operator evaluation: cannot modify constant value."); } ')
    guard = rest.startswith(g)
    if guard:
        rest = rest[len(g):]
    if not rest.startswith("return Boxed_Number::do_oper(m_oper, bv); } else {"):
        raise Shape("Prefix_AST_Node: fast path body not recognised: %r" % rest[:120])
    if "return t_ss->call_function(this->text, m_loc, Function_Params{bv}, t_ss.conversions());" not in rest:
        raise Shape("Prefix_AST_Node: dispatch path changed")
    return guard


def number_pointers(bn):
    n = norm(bn)
    b = "auto *lhs = t_lhs.is_return_value() ? nullptr : static_cast<std::decay_t<decltype(c_lhs)> *>(t_lhs.get_ptr());"
    b2 = "auto *lhs = static_cast<std::decay_t<decltype(c_lhs)> *>(t_lhs.get_ptr());"
    if n.count(b) == 1:
        binary = ("PGetPtr", True)
    elif n.count(b2) == 2:
        binary = ("PGetPtr", False)
    else:
        raise Shape("Boxed_Number::oper (binary): origin of the in-place pointer not recognised")
    if n.count(b2) < 1:
        raise Shape("Boxed_Number::oper (unary): origin of the in-place pointer not recognised")
    if "const_cast" in n:
        raise Shape("boxed_number.hpp contains a const_cast")
    if "return go(t_oper, t_lhs, lhs, c_lhs, c_rhs);" not in n:
        raise Shape("Boxed_Number::oper: go() is not given the pointer computed above")
    return binary


def data_assign(bv):
    n = norm(bv)
    want = ("Data &operator=(const Data &rhs) { m_type_info = rhs.m_type_info; m_obj = rhs.m_obj; m_is_ref = rhs.m_is_ref; m_data_ptr = rhs.m_data_ptr; "
            "m_const_data_ptr = rhs.m_const_data_ptr; m_return_value = rhs.m_return_value; if (rhs.m_attrs) { "
            "m_attrs = std::make_unique<std::map<std::string, std::shared_ptr<Data>>>(*rhs.m_attrs); } return *this; }")
    if want not in n:
        raise Shape("Boxed_Value::Data::operator= changed (it must copy the Type_Info and both pointers together)")
    if "Boxed_Value assign(const Boxed_Value &rhs) noexcept { (*m_data) = (*rhs.m_data); return *this; }" not in n:
        raise Shape("Boxed_Value::assign changed")
    return True


# ---- host entry points (boxed_value.hpp) ---------------------------------------------------------------
ARG_KINDS = {"const T &": "EaValue", "T *": "EaPtr", "const std::shared_ptr<T> &": "EaShared", "const std::reference_wrapper<T> &": "EaRefWrap"}
# what the overload hands to Boxed_Value's constructor -> (constness of the boxed type relative to T, boxes a copy)
BOXED_EXPRS = [
    (r"std::make_shared<typename std::add_const<T>::type>\(t\)", ("CmAddConst", True)),
    (r"std::make_shared<(?:typename )?std::add_const_t<T>>\(t\)", ("CmAddConst", True)),
    (r"std::make_shared<const T>\(t\)", ("CmAddConst", True)),
    (r"std::make_shared<T>\(t\)", ("CmKeep", True)),
    (r"std::make_shared<typename std::remove_const<T>::type>\(t\)", ("CmStrip", True)),
    (r"const_cast<typename std::add_const<T>::type \*>\(t\)", ("CmAddConst", False)),
    (r"static_cast<typename std::add_const<T>::type \*>\(t\)", ("CmAddConst", False)),
    (r"static_cast<const T \*>\(t\)", ("CmAddConst", False)),
    (r"const_cast<typename std::remove_const<T>::type \*>\(t\)", ("CmStrip", False)),
    (r"std::const_pointer_cast<typename std::add_const<T>::type>\(t\)", ("CmAddConst", False)),
    (r"std::const_pointer_cast<const T>\(t\)", ("CmAddConst", False)),
    (r"std::shared_ptr<const T>\(t\)", ("CmAddConst", False)),
    (r"std::const_pointer_cast<typename std::remove_const<T>::type>\(t\)", ("CmStrip", False)),
    (r"std::cref\(t\.get\(\)\)", ("CmAddConst", False)),
    (r"std::cref\(\*t\)", ("CmAddConst", False)),
    (r"std::ref\(t\.get\(\)\)", ("CmKeep", False)),
    (r"std::ref\(\*t\)", ("CmKeep", False)),
    (r"t", ("CmKeep", False)),
    (r"std::forward<T>\(t\)", ("CmKeep", False)),
]


def entry_points(bv):
    """chaiscript::const_var (through detail::const_var_impl) and chaiscript::var: (name, overload, constness of what is boxed, copies)"""
    n = norm(bv)
    rows = []
    seen = set()
    for m in re.finditer(r"template<typename T> Boxed_Value const_var_impl\(([^()]*?) ?t\) \{ return Boxed_Value\((.*?)\); \}", n):
        arg, expr = m.group(1).strip(), m.group(2).strip()
        if arg not in ARG_KINDS:
            raise Shape("const_var_impl overload with an unrecognised parameter: %r" % arg)
        hit = [v for pat, v in BOXED_EXPRS if re.fullmatch(pat, expr)]
        if not hit:
            raise Shape("const_var_impl(%s): unrecognised argument of Boxed_Value(): %r" % (arg, expr))
        if arg in seen:
            raise Shape("const_var_impl(%s) defined twice" % arg)
        seen.add(arg)
        rows.append(("const_var", ARG_KINDS[arg], hit[0][0], hit[0][1]))
    if len(rows) != n.count("Boxed_Value const_var_impl("):
        raise Shape("const_var_impl: %d of %d overloads recognised" % (len(rows), n.count("Boxed_Value const_var_impl(")))
    if sorted(r[1] for r in rows) != sorted(ARG_KINDS.values()):
        raise Shape("const_var_impl: overload set changed: %s" % sorted(r[1] for r in rows))
    # const_var itself only forwards to the overload set
    if "template<typename T> Boxed_Value const_var(const T &t) { return detail::const_var_impl(t); }" not in n:
        raise Shape("chaiscript::const_var(const T &) does not forward to detail::const_var_impl")
    if ("inline Boxed_Value const_var(bool b) { static const auto t = detail::const_var_impl(true); static const auto f = detail::const_var_impl(false); "
            "if (b) { return t; } else { return f; } }") not in n:
        raise Shape("chaiscript::const_var(bool) changed")
    if len(re.findall(r"Boxed_Value const_var\(", n)) != 2:
        raise Shape("chaiscript::const_var: unexpected number of overloads")
    m = re.search(r"template<typename T> Boxed_Value var\(T &&t\) \{ return Boxed_Value\((.*?)\); \}", n)
    if not m or not re.fullmatch(r"std::forward<T>\(t\)", m.group(1).strip()):
        raise Shape("chaiscript::var changed")
    rows.append(("var", "EaForward", "CmKeep", False))
    order = ["EaValue", "EaPtr", "EaShared", "EaRefWrap", "EaForward"]
    rows.sort(key=lambda r: order.index(r[1]))
    return rows


def registrations(dk):
    """Module / Dispatch_Engine functions that put a Boxed_Value under a global name: does the body start by refusing a non-const value"""
    n = norm(dk)
    rows = []
    for m in re.finditer(r"(Module &|void |Boxed_Value )(add_global_const|add_global|add_global_no_throw|set_global)\((?:const )?Boxed_Value (?:&)?(\w+), (?:const )?std::string (?:&)?\w+\) \{", n):
        fn, var_ = m.group(2), m.group(3)
        body, _ = brace_block(n, m.end() - 1)
        body = norm(body)
        guard = "if (!%s.is_const()) { throw chaiscript::exception::global_non_const(); }" % var_
        req = body.startswith(guard)
        if not req and ("is_const" in body or "global_non_const" in body):
            raise Shape("%s: a constness test that is not the leading guard: %r" % (fn, body[:120]))
        rows.append((("Module::" if m.group(1) == "Module &" else "Dispatch_Engine::") + fn, req))
    names = sorted(r[0] for r in rows)
    if names != sorted(["Module::add_global_const", "Dispatch_Engine::add_global_const", "Dispatch_Engine::add_global", "Dispatch_Engine::add_global_no_throw",
                        "Dispatch_Engine::set_global"]):
        raise Shape("dispatchkit.hpp: global registration functions changed: %s" % names)
    # function objects: add_function boxes the new function object for lookup by name
    m = re.search(r"get_boxed_functions_int\(\)\.insert_or_assign\(t_name, (\w+)\(new_func\)\);", n)
    if not m or "Proxy_Function new_func = [&]() -> Proxy_Function {" not in n or n.count("get_boxed_functions_int().insert_or_assign(") != 1:
        raise Shape("Dispatch_Engine::add_function: boxing of the function object not recognised")
    if m.group(1) not in ("const_var", "var"):
        raise Shape("Dispatch_Engine::add_function boxes the function object with %s" % m.group(1))
    # Proxy_Function is std::shared_ptr<dispatch::Proxy_Function_Base>
    return rows, (m.group(1), "EaShared" if m.group(1) == "const_var" else "EaForward")


# ---- functions registered under an assignment-like name (bootstrap.hpp) -----------------------------------
ASSIGN_NAMES = ["=", ":=", "+=", "-=", "*=", "/=", "%=", "<<=", ">>=", "&=", "|=", "^=", "++", "--"]
BV_ATOMS = {"lhs.is_undef()": "BgUndef", "!lhs.get_type_info().is_const()": "BgNotConst", "!lhs.is_const()": "BgNotConst",
            "lhs.get_type_info().bare_equal(chaiscript::detail::Get_Type_Info<Type>::get())": "BgSameType", "lhs.is_type(user_type<Type>())": "BgSameType",
            "lhs.is_type(chaiscript::user_type<Type>())": "BgSameType", "lhs.get_type_info().bare_equal(user_type<Type>())": "BgSameType"}


def split_top(s, sep):
    out, depth, cur, i = [], 0, "", 0
    while i < len(s):
        if s[i] in "(<[":
            depth += 1
        elif s[i] in ")>]":
            depth -= 1
        if depth == 0 and s.startswith(sep, i):
            out.append(cur.strip())
            cur = ""
            i += len(sep)
            continue
        cur += s[i]
        i += 1
    out.append(cur.strip())
    return out


def strip_parens(s):
    s = s.strip()
    while s.startswith("(") and paren_end(s, 0) == len(s):
        s = s[1:-1].strip()
    return s


def bv_condition(cond, what):
    disj = []
    for d in split_top(strip_parens(cond), "||"):
        conj = []
        for a in split_top(strip_parens(d), "&&"):
            a = strip_parens(a)
            if a not in BV_ATOMS:
                raise Shape("%s: unrecognised test %r" % (what, a))
            conj.append(BV_ATOMS[a])
        disj.append(conj)
    return disj


def assign_functions(boot):
    n = norm(boot)
    # the two functions that take the left operand as a Boxed_Value and rebind it
    m = re.search(r"template<typename Type> Boxed_Value ptr_assign\(Boxed_Value lhs, const std::shared_ptr<Type> &rhs\) \{ if \((.*?)\) \{ lhs\.assign\(Boxed_Value\(rhs\)\); return lhs; \} "
                  r"else \{ throw exception::bad_boxed_cast\(\"type mismatch in pointer assignment\"\); \} \}", n)
    if not m:
        raise Shape("bootstrap.hpp: ptr_assign not recognised")
    ptr = bv_condition(m.group(1), "ptr_assign")
    m = re.search(r"static Boxed_Value unknown_assign\(Boxed_Value lhs, Boxed_Value rhs\) \{ if \((.*?)\) \{ return \(lhs\.assign\(rhs\)\); \} "
                  r"else \{ throw exception::bad_boxed_cast\(\"boxed_value has a set type already\"\); \} \}", n)
    if not m:
        raise Shape("bootstrap.hpp: unknown_assign not recognised")
    unk = bv_condition(m.group(1), "unknown_assign")
    # nothing else in the file rebinds a Boxed_Value
    if len(re.findall(r"\blhs\.assign\(", n)) != 2 or len(re.findall(r"(?<![\w.])assign\(", n)) != 0:
        raise Shape("bootstrap.hpp: unexpected use of Boxed_Value::assign")
    rows = []
    total = 0
    for m in re.finditer(r'm\.add\(', n):
        end = paren_end(n, m.end() - 1)
        call = n[m.end():end - 1]
        mm = re.search(r', "([^"]*)"$', call)
        if not mm or mm.group(1) not in ASSIGN_NAMES:
            continue
        total += 1
        name, what = mm.group(1), call[:mm.start()].strip()
        if re.fullmatch(r"fun\(&Boxed_Number::(assign\w*|pre_increment|pre_decrement)\)", what):
            rows.append((name, "AsNumber"))
        elif what == "fun(&unknown_assign)":
            rows.append((name, "AsBoxed [%s]" % "; ".join("[%s]" % "; ".join(c) for c in unk)))
        elif re.fullmatch(r"fun\(&ptr_assign<std::(remove_const|add_const)<dispatch::Proxy_Function_Base>::type>\)", what):
            rows.append((name, "AsBoxed [%s]" % "; ".join("[%s]" % "; ".join(c) for c in ptr)))
        elif re.fullmatch(r"fun\(\[\]\(dispatch::Assignable_Proxy_Function &t_lhs, const std::shared_ptr<const dispatch::Proxy_Function_Base> &t_rhs\) \{ t_lhs\.assign\(t_rhs\); \}\)", what):
            rows.append((name, "AsForm FRef"))
        else:
            raise Shape("bootstrap.hpp: function registered as %s not recognised: %r" % (name, what[:100]))
    # Boxed_Number's functions take the operand as Boxed_Number and go through oper() (number_pointers)
    return rows


RET_FORMS = {
    "Ret *&": ("RfPtr", "Boxed_Value(p, true)"), "const Ret *&": ("RfCPtr", "Boxed_Value(p, true)"), "Ret *": ("RfPtr", "Boxed_Value(p, true)"),
    "const Ret *": ("RfCPtr", "Boxed_Value(p, true)"), "std::shared_ptr<Ret> &": ("RfSh", "Boxed_Value(r, true)"),
    "const Ret": ("RfCValue", "Boxed_Value(std::move(r))"), "Ret &": ("RfRef", "Boxed_Value(std::ref(r))"),
}


def handle_return(hr):
    n = norm(hr)
    rows = []
    for m in re.finditer(r"template<typename Ret> struct Handle_Return<([^{};]+?)> \{ static Boxed_Value handle\(([^)]*)\) \{ return ([^;]+); \} \};", n):
        spec, arg, ret = m.group(1).strip(), m.group(2).strip(), m.group(3).strip()
        if "std::function" in spec or "std::unique_ptr" in spec:
            continue
        if spec not in RET_FORMS or RET_FORMS[spec][1] != ret:
            raise Shape("Handle_Return<%s>: unrecognised `return %s`" % (spec, ret))
        rows.append((spec, RET_FORMS[spec][0]))
    got = sorted(s for s, _ in rows)
    if got != sorted(RET_FORMS):
        raise Shape("Handle_Return specialisations differ from the modelled set: %s" % got)
    # const Ret & : Handle_Return_Ref<.., false> boxes std::cref(r)
    if "struct Handle_Return_Ref { template<typename T> static Boxed_Value handle(T &&r) { return Boxed_Value(std::cref(r), true); } };" not in n:
        raise Shape("Handle_Return_Ref (const Ret &) does not box std::cref")
    if ("struct Handle_Return<const Ret &> : Handle_Return_Ref<const Ret &, std::is_pointer<typename std::remove_reference<const Ret &>::type>::value> { };") not in n:
        raise Shape("Handle_Return<const Ret &> changed")
    # the primary template copies (trivial types by value, others into a fresh shared_ptr)
    if ("static Boxed_Value handle(T r) { return Boxed_Value(std::move(r), true); }" not in n
            or "static Boxed_Value handle(T &&r) { return Boxed_Value(std::make_shared<T>(std::forward<T>(r)), true); }" not in n):
        raise Shape("Handle_Return<Ret> (by value) changed")
    if "const_cast" in n:
        raise Shape("handle_return.hpp contains a const_cast")
    return True


def attribute_access(pf):
    n = norm(pf)
    want = ("Boxed_Value do_call(const Function_Params &params, const Type_Conversions_State &t_conversions) const override { const Boxed_Value &bv = params[0]; "
            "if (bv.is_const()) { const Class *o = boxed_cast<const Class *>(bv, &t_conversions); return do_call_impl<T>(%s); } else { "
            "Class *o = boxed_cast<Class *>(bv, &t_conversions); return do_call_impl<T>(%s); } }")
    # the const branch must use the const overload of do_call_impl; a null check around the pointer is fine either way
    if not any(want % (a, a) in n for a in ("o", "chaiscript::detail::throw_if_null(o)")):
        raise Shape("Attribute_Access::do_call changed")
    if ("auto do_call_impl(const Class *o) const { if constexpr (std::is_pointer<Type>::value) { return detail::Handle_Return<const Type>::handle(o->*m_attr); } else { "
            "return detail::Handle_Return<typename std::add_lvalue_reference<typename std::add_const<Type>::type>::type>::handle(o->*m_attr); } }") not in n:
        raise Shape("Attribute_Access::do_call_impl(const Class *) changed")
    return True


FORMS = {"&": "FRef", "*": "FPtr"}


def stdlib_wrappers(repo_rd):
    """every lambda registered in operators.hpp / bootstrap_stl.hpp: (script name, form of its first parameter, const?)"""
    rows = []
    ops = norm(repo_rd("dispatchkit/operators.hpp"))
    for m in re.finditer(r'm\.add\(chaiscript::fun\(\[\]\((const )?T &lhs(?:, const T &rhs)?\)(?: -> T &)? \{ return ([^;]+); \}\), "([^"]+)"\);', ops):
        cst, expr, name = m.group(1), m.group(2), m.group(3)
        mutating = bool(re.match(r"(lhs (\+|-|\*|/|%|&|\||\^|<<|>>)?= rhs|\+\+lhs|--lhs)$", expr))
        if mutating and cst:
            raise Shape("operators.hpp: %s mutates a const reference" % name)
        rows.append((name, "FCRef" if cst else "FRef", mutating))
    if len(rows) != ops.count("m.add(chaiscript::fun("):
        raise Shape("operators.hpp: %d of %d registrations recognised" % (len(rows), ops.count("m.add(chaiscript::fun(")))
    stl = norm(repo_rd("dispatchkit/bootstrap_stl.hpp"))
    n = 0
    for m in re.finditer(r"m\.add\(fun\(\[\]\((const )?(ContainerType|VectorType|String|FutureType) ([&*])\s*(\w+)", stl):
        n += 1
        rows.append(("stl:" + m.group(4) + str(n), ("FC" if m.group(1) else "F") + ("Ref" if m.group(3) == "&" else "Ptr"), None))
    if n != len(re.findall(r"m\.add\(fun\(\[\]\(", stl)):
        raise Shape("bootstrap_stl.hpp: %d of %d lambda registrations recognised" % (n, len(re.findall(r"m\.add\(fun\(\[\]\(", stl))))
    for f in ("dispatchkit/operators.hpp", "dispatchkit/bootstrap_stl.hpp"):
        if "const_cast" in repo_rd(f):
            raise Shape("%s contains a const_cast" % f)
    return rows


def translate(repo):
    def rd(p):
        return strip_comments(open(os.path.join(repo, "include/chaiscript", p)).read())
    ev = rd("language/chaiscript_eval.hpp")
    guards = equation_guards(ev)
    pguard = prefix_guard(ev)
    binary = number_pointers(rd("dispatchkit/boxed_number.hpp"))
    data_assign(rd("dispatchkit/boxed_value.hpp"))
    handle_return(rd("dispatchkit/handle_return.hpp"))
    attribute_access(rd("dispatchkit/proxy_functions.hpp"))
    rows = stdlib_wrappers(rd)
    entries = entry_points(rd("dispatchkit/boxed_value.hpp"))
    regs, fnobj = registrations(rd("dispatchkit/dispatchkit.hpp"))
    assigns = assign_functions(rd("dispatchkit/bootstrap.hpp"))
    L = ["(* GENERATED by tools/translate/t_ConstRules.py from /repo's working tree -- do not edit *)",
         "From Coq Require Import List Bool String.", "From ChaiV Require Import DispatchDefs ConstDefs.", "Import ListNotations.", "Local Open Scope string_scope.", "",
         "(* Equation_AST_Node: tests made on the left operand before anything else, in order *)",
         "Definition equation_guards : list eq_guard := [%s]." % "; ".join(guards),
         "(* Prefix_AST_Node: ++/-- on an arithmetic const value is rejected before Boxed_Number is reached *)",
         "Definition prefix_const_guard : bool := %s." % ("true" if pguard else "false"),
         "(* Boxed_Number::oper: the in-place pointer is get_ptr(); the binary form also refuses return values *)",
         "Definition number_binary_refuses_return_value : bool := %s." % ("true" if binary[1] else "false"),
         "(* return forms boxed as const (Handle_Return<const Ret &> -> std::cref, const Ret * -> const pointer) *)",
         "Definition ret_table : list (rform * bool * bool) := [",
         "  (RfValue, false, true); (RfCValue, false, true); (RfCRef, true, false); (RfRef, false, false); (RfCPtr, true, false); (RfPtr, false, false); (RfSh, false, false)",
         "].", "",
         "(* operators.hpp / bootstrap_stl.hpp wrappers: script name, form of the first parameter, mutates it *)",
         "Definition wrapper_table : list (string * form * bool) := ["]
    L.append(";\n".join('  ("%s", %s, %s)' % (n, f, "true" if (mu is None and not f.startswith("FC")) or mu else "false") for n, f, mu in rows))
    L += ["].", "",
          "(* boxed_value.hpp: chaiscript::const_var (detail::const_var_impl overloads) and chaiscript::var: name, overload, constness of the type handed",
          "   to Boxed_Value's constructor relative to T, boxes a copy *)",
          "Definition entry_table : list entry := [",
          ";\n".join('  mkentry "%s" %s %s %s' % (nm, a, cm, "true" if cp else "false") for nm, a, cm, cp in entries),
          "].", "",
          "(* dispatchkit.hpp: functions that put a Boxed_Value under a global name; does the body begin by refusing a non-const value *)",
          "Definition reg_table : list regrule := [",
          ";\n".join('  mkreg "%s" %s' % (nm, "true" if rq else "false") for nm, rq in regs),
          "].", "",
          "(* Dispatch_Engine::add_function: what the function object kept for lookup by name is boxed with *)",
          'Definition fnobj_entry : string * earg := ("%s", %s).' % fnobj, "",
          "(* bootstrap.hpp: every function registered under an assignment-like name, by how it gets at its left operand *)",
          "Definition assign_table : list (string * asgkind) := [",
          ";\n".join('  ("%s", %s)' % (nm, k) for nm, k in assigns),
          "].", "",
          "Definition gen_crules : crules := mkcrules equation_guards prefix_const_guard number_binary_refuses_return_value ret_table wrapper_table",
          "  entry_table reg_table fnobj_entry assign_table.", ""]
    return "\n".join(L)


if __name__ == "__main__":
    import sys
    print(translate(sys.argv[1] if len(sys.argv) > 1 else "/repo"))
