"""C12 — built-in containers/strings are bounds-safe and match their C++ models.
proof:  Properties_C12 over the wrapper table regenerated from bootstrap_stl.hpp (t_StlWrappers.py)
tie:    translator (every run) + step-by-step correspondence of operation sequences
        h_stl [ASan+UBSan, _GLIBCXX_ASSERTIONS] (implementation)  <->  m_cont (extracted mechanism model over the table)
oracle: implementation vs the extracted *specification* m_contspec (independent of gen/); a sanitizer death is a failure."""
import json, os, random, re, sys
import vlib

FLAVOR = os.environ.get("VERIF_C12_FLAVOR", "asan")   # debugging aid only; the check uses asan
EXTRA = ["-D_GLIBCXX_ASSERTIONS", "-D_GLIBCXX_SANITIZE_VECTOR"]
ENV = {"ASAN_OPTIONS": "detect_leaks=0:abort_on_error=0:allocator_may_return_null=1", "UBSAN_OPTIONS": "print_stacktrace=0"}
KINDS = ["Vector", "List", "string", "Map", "Pair"]
ERRMAP = {"std:range_error": "range_error", "std:out_of_range": "out_of_range", "std:logic_error": "length_error",
          "eval_error": "dispatch", "dispatch_error": "dispatch", "bad_boxed_cast": "dispatch"}
UNCOMPARED_RESULT = {"capacity", "c_str", "data"}   # implementation-defined / pointer results: only OK-ness is compared
BIG = [2**31 - 1, 2**31, 2**32, 2**32 + 1, -2**31, 2**40 + 3]


# ---------------------------------------------------------------------------------------------- generator
class Sim:
    """size bookkeeping only, to aim indices at the boundaries (has no role in judging)"""
    def __init__(self, kind):
        self.kind, self.n, self.keys = kind, 0, set()

    def size(self):
        return len(self.keys) if self.kind == "Map" else self.n


def idx_pool(rnd, n, signed=True):
    base = [-1, 0, n - 1, n, n + 1] + ([rnd.randrange(n)] if n > 0 else [])
    pool = base * 3 + BIG
    v = rnd.choice(pool)
    return v


def size_arg(rnd, n):
    v = rnd.choice([0, 0, n - 1, n, n, n + 1, 1, 2, 2**31 - 1, -1, 2**63, 2**64 - 1, rnd.randrange(0, n + 2)])
    if v < 0:
        return str(v)
    return "z%d" % v


def letters(rnd, lo=0, hi=3, alpha="abc"):
    return "".join(rnd.choice(alpha) for _ in range(rnd.randint(lo, hi)))


def gen_seq(rnd, kind, length):
    s = Sim(kind)
    steps = []
    views = {"r": False, "q": False}
    dist = {}
    noset = False   # after an element was stored by reference (*_ref, resize(n, v), Map_Pair) writes through [] hit Boxed_Value
                    # const-ness / aliasing rules, which are not container behaviour: no `set` steps from then on

    def note(k):
        dist[k] = dist.get(k, 0) + 1

    def cls(i, n):
        return "neg" if i < 0 else "huge" if i >= 2**31 - 1 else "size+1" if i == n + 1 else "size" if i == n else "size-1" if i == n - 1 else "0" if i == 0 else "mid"

    while len(steps) < length:
        n = s.size()
        live = [v for v in views if views[v]]
        r = rnd.random()
        if live and r < 0.45:
            v = rnd.choice(live)
            op = rnd.choice(["front", "back", "pop_front", "pop_back", "empty", "pop_front", "pop_back"])
            steps.append("%s %s" % (v, op)); note("range:" + op)
            continue
        if kind != "Pair" and r < 0.55 and rnd.random() < 0.22:
            t = rnd.choice(["c", "k"])
            steps.append("%s mkrange" % t); views["r" if t == "c" else "q"] = True; note("mkrange")
            continue
        tgt = "k" if rnd.random() < 0.15 else "c"
        mutated = False
        if kind in ("Vector", "List"):
            ops = ["push_back"] * 6 + ["pop_back"] * 3 + ["back", "front", "insert_at", "insert_at", "erase_at", "erase_at", "resize", "resize2", "clear", "size", "empty"]
            ops += ["[]", "[]", "[]", "set", "reserve", "capacity", "push_back_ref", "insert_ref_at"] if kind == "Vector" else ["push_front", "push_front", "pop_front", "pop_front", "pop_front"]
            if live:
                ops = [o for o in ops if o in ("back", "front", "[]", "size", "empty", "capacity")] * 3 + ops[:6]
            op = rnd.choice(ops)
            if op == "set" and noset:
                op = "[]"
            if op in ("push_back_ref", "insert_ref_at", "resize2"):
                noset = True
            x = rnd.randrange(0, 100)
            if op in ("push_back", "push_front", "push_back_ref"):
                st = "%s %d" % (op, x); s.n += (tgt == "c"); mutated = True
            elif op in ("pop_back", "pop_front"):
                st = op; mutated = n > 0
                if tgt == "c" and n > 0: s.n -= 1
            elif op in ("insert_at", "insert_ref_at"):
                i = idx_pool(rnd, n); note("idx:" + cls(i, n))
                st = "%s %d %d" % (op, i, x); mutated = True
                if tgt == "c" and 0 <= i <= n: s.n += 1
            elif op == "erase_at":
                i = idx_pool(rnd, n); note("idx:" + cls(i, n))
                st = "erase_at %d" % i; mutated = True
                if tgt == "c" and 0 <= i < n: s.n -= 1
            elif op == "[]":
                i = idx_pool(rnd, n); note("idx:" + cls(i, n)); st = "[] %d" % i
            elif op == "set":
                i = idx_pool(rnd, n); note("idx:" + cls(i, n)); st = "set %d %d" % (i, x); tgt = "c"; mutated = True
            elif op in ("resize", "resize2"):
                # std::list::resize has no max_size check: a huge argument allocates until memory is exhausted (not exercised)
                m = rnd.choice([0, n - 1, n, n + 1, n + 3, 1, -1, 2**63] if kind == "Vector" else [0, max(n - 1, 0), n, n + 1, n + 3, 1, 2]); note("resize:" + ("huge" if m < 0 or m > 64 else "small"))
                st = "resize %d" % m if op == "resize" else "resize %d %d" % (m, x); mutated = True
                if tgt == "c" and 0 <= m <= 64: s.n = m
            elif op == "reserve":
                m = rnd.choice([0, n, n + 5, 16, -1, 2**62]); st = "reserve %d" % m; mutated = True
            elif op == "clear":
                st = "clear"; mutated = True
                if tgt == "c": s.n = 0
            else:
                st = op
        elif kind == "string":
            ops = ["push_back"] * 3 + ["+=", "+=", "insert_at", "insert_at", "erase_at", "erase_at", "[]", "[]", "[]", "set", "clear", "size", "empty",
                                       "find", "rfind", "find_first_of", "find_last_of", "find_first_not_of", "find_last_not_of", "substr", "substr",
                                       "find1", "rfind1", "find_first_of1", "find_last_of1", "find_first_not_of1", "find_last_not_of1", "c_str"]
            if live:
                ops = [o for o in ops if o not in ("push_back", "+=", "insert_at", "erase_at", "set", "clear")] + ["push_back"]
            op = rnd.choice(ops)
            ch = "'%d" % ord(rnd.choice("abc"))
            if op in ("push_back", "+="):
                st = "%s %s" % (op, ch); s.n += (tgt == "c"); mutated = True
            elif op == "insert_at":
                # a position literal that is not an `int` selects the prelude's generic insert_at (which has no string overload to
                # forward to and raises): overload choice is outside this model, so string positions stay int-typed
                i = idx_pool(rnd, n)
                if not -2**31 < i < 2**31: i = 2**31 - 1
                note("idx:" + cls(i, n)); st = "insert_at %d %s" % (i, ch); mutated = True
                if tgt == "c" and 0 <= i <= n: s.n += 1
            elif op == "erase_at":
                i = idx_pool(rnd, n); note("idx:" + cls(i, n)); st = "erase_at %d" % i; mutated = True
                if tgt == "c" and 0 <= i < n: s.n -= 1
            elif op == "[]":
                i = idx_pool(rnd, n); note("idx:" + cls(i, n)); st = "[] %d" % i
            elif op == "set":
                i = idx_pool(rnd, n); note("idx:" + cls(i, n)); st = "set %d %s" % (i, ch); tgt = "c"; mutated = True
            elif op == "clear":
                st = "clear"; mutated = True
                if tgt == "c": s.n = 0
            elif op == "substr":
                st = "substr %s %s" % (size_arg(rnd, n), size_arg(rnd, n)); note("substr")
            elif op.endswith("1"):
                st = '%s "%s' % (op[:-1], letters(rnd))
            elif op in ("size", "empty", "c_str"):
                st = op
            else:
                st = '%s "%s %s' % (op, letters(rnd), size_arg(rnd, n)); note("find-family")
        elif kind == "Map":
            key = rnd.choice(["a", "b", "c", "ab", "b", "", "ba"])
            ops = ["[]", "[]", "set", "set", "at", "at", "count", "erase", "erase", "insert", "insert_ref", "insert_ref", "size", "empty", "clear"]
            if live:
                ops = ["at", "count", "size", "empty", "at"] * 2 + ["erase"]
            op = rnd.choice(ops)
            if op == "set" and noset:
                op = "at"
            if op == "insert_ref":
                noset = True
            x = rnd.randrange(0, 100)
            if op == "[]":
                st = '[] "%s' % key; mutated = True
                if tgt == "c": s.keys.add(key)
            elif op == "set":
                st = 'set "%s %d' % (key, x); tgt = "c"; s.keys.add(key); mutated = True
            elif op in ("at", "count"):
                st = '%s "%s' % (op, key); note("key:" + ("present" if key in s.keys else "absent"))
            elif op == "erase":
                st = 'erase "%s' % key; mutated = True
                if tgt == "c": s.keys.discard(key)
            elif op == "insert":
                ks = sorted(set(rnd.choice(["a", "b", "c", "ab", "d"]) for _ in range(rnd.randint(0, 3))))
                st = "insert {" + ",".join("%s=%d" % (k, rnd.randrange(100)) for k in ks); mutated = True
                if tgt == "c": s.keys.update(ks)
            elif op == "insert_ref":
                k2 = rnd.choice(["a", "b", "c", "zz"]); st = "insert_ref <%s=%d" % (k2, x); mutated = True
                if tgt == "c": s.keys.add(k2)
            elif op == "clear":
                st = "clear"; mutated = True
                if tgt == "c": s.keys.clear()
            else:
                st = op
        else:  # Pair
            op = rnd.choice(["first", "second", "setfirst", "setsecond"])
            if op.startswith("set"):
                st = "%s %d" % (op, rnd.randrange(100)); tgt = "c"
            else:
                st = op
        note("op:" + st.split()[0])
        steps.append("%s %s" % (tgt, st))
        if mutated:
            views["r"] = views["q"] = False   # generator-side guess only; harness and model apply the precise rule
    return kind + " " + ";".join(steps), dist


def gen_cases(tier, seed):
    rnd = random.Random(seed * 104729 + 12)
    n = {"quick": 4000, "thorough": 40000}[tier]
    maxlen = {"quick": 12, "thorough": 40}[tier]
    cases, dist = [], {}
    weights = ["Vector"] * 5 + ["List"] * 3 + ["string"] * 5 + ["Map"] * 3 + ["Pair"]
    for _ in range(n):
        kind = rnd.choice(weights)
        ln = rnd.randint(3, maxlen) if kind != "Pair" else rnd.randint(2, 6)
        c, d = gen_seq(rnd, kind, ln)
        cases.append(c)
        for k, v in d.items():
            dist[k] = dist.get(k, 0) + v
    return cases, dist


# ---------------------------------------------------------------------------------------------- comparison
def steps_of(line):
    return line.split(" ;; ") if line else []


def canon_impl_step(s):
    m = re.match(r"ERR\(([^)]*)\)(.*)", s)
    if m:
        return "ERR(%s)%s" % (ERRMAP.get(m.group(1), m.group(1)), m.group(2))
    return s


def split_obs(s):
    p = s.split(" | ")
    return (p[0], p[1] if len(p) > 1 else "", p[2] if len(p) > 2 else "")


def step_agrees(stepsrc, impl, ref, exact_class):
    """impl step observation against a reference (spec or mechanism) observation"""
    ir, ic, iv = split_obs(canon_impl_step(impl))
    rr, rc, rv = split_obs(ref)
    if ic != rc or iv != rv:
        return False
    if rr.startswith("ERR("):
        if not ir.startswith("ERR("):
            return False
        return ir == rr if exact_class else True
    op = stepsrc.split()[1] if len(stepsrc.split()) > 1 else ""
    if op in UNCOMPARED_RESULT:
        return ir.startswith("OK")
    return ir == rr


def first_mismatch(case, impl_line, ref_line, exact_class):
    """index of the first step on which impl and ref differ, or None; a reference `UB` ends the comparison"""
    src = case.split(" ", 1)[1].split(";") if " " in case else []
    im, rf = steps_of(impl_line), steps_of(ref_line)
    for i, st in enumerate(src):
        if i < len(rf) and rf[i].startswith("UB"):
            return None
        if i >= len(im) or i >= len(rf):
            return i
        if not step_agrees(st.strip(), im[i], rf[i], exact_class):
            return i
    return None


def prefix(case, k):
    kind, rest = case.split(" ", 1)
    return kind + " " + ";".join(rest.split(";")[:k])


def died(line):
    return line.startswith("SIG(") or line.startswith("EXIT(")


def fails(case, impl_line, spec_line):
    return died(impl_line) or first_mismatch(case, impl_line, spec_line, exact_class=False) is not None


def minimise(hbin, sbin, case):
    """shortest failing prefix, then greedily drop earlier steps while the sequence still fails (delta debugging, one step at a time)"""
    kind, rest = case.split(" ", 1)
    steps = rest.split(";")

    def run_batch(cands):
        lines = [kind + " " + ";".join(c) for c in cands]
        _, io, _ = vlib.run_lines(hbin, lines, timeout=1200, env=ENV)
        _, so, _ = vlib.run_lines(sbin, lines, timeout=600)
        return [(l, i, s_) for l, i, s_ in zip(lines, io, so)]

    res = run_batch([steps[:k] for k in range(1, len(steps) + 1)])
    for k, (l, i, s_) in enumerate(res):
        if fails(l, i, s_):
            steps = steps[:k + 1]
            break
    else:
        return case
    changed = True
    while changed and len(steps) > 1:
        changed = False
        cands = [steps[:j] + steps[j + 1:] for j in range(len(steps) - 1)]   # the last step is the failing one: keep it
        for cand, (l, i, s_) in zip(cands, run_batch(cands)):
            if fails(l, i, s_):
                steps, changed = cand, True
                break
    return kind + " " + ";".join(steps)


def sanitizer_text(hbin, case):
    rc, _, err = vlib.run([hbin], input=(case + "\n").encode(), timeout=300, env=ENV)
    keep = [l for l in err.decode(errors="replace").split("\n") if re.search(r"ERROR|runtime error|Assertion|SUMMARY|^\s+#[0-4] ", l)]
    return "\n".join(keep[:14])


def run(c, cases, hbin, mbin, sbin, judged):
    # the implementation runs in chunks: once a handful of cases have killed the process there is nothing to gain from
    # feeding it thousands more (each death costs a fork + engine start, a hang costs the 5 s alarm); the rest is not run
    impl, err, deaths = [], "", 0
    CH = 250
    for a in range(0, len(cases), CH):
        if deaths >= 8:
            impl += ["NOTRUN"] * len(cases[a:a + CH])
            continue
        _, out, err = vlib.run_lines(hbin, cases[a:a + CH], timeout=3000, env=ENV)
        if len(out) != len(cases[a:a + CH]):
            raise vlib.BuildError("harness produced %d lines for %d cases\n%s" % (len(out), len(cases[a:a + CH]), err[-1500:]))
        impl += out
        deaths += sum(1 for o, jj in zip(out, judged[a:a + CH]) if jj and died(o))
    _, specs, err3 = vlib.run_lines(sbin, cases, timeout=3000)
    if mbin:
        _, model, err2 = vlib.run_lines(mbin, cases, timeout=3000)
    else:
        model, err2 = [None] * len(cases), ""
    if len(specs) != len(cases) or len(model) != len(cases):
        raise vlib.BuildError("models produced %d/%d lines for %d cases\n%s" % (len(model), len(specs), len(cases), err3[-800:]))
    ndis = nfail = 0
    seen = set()
    for case, i, m, s, j in zip(cases, impl, model, specs, judged):
        if i == "NOTRUN":
            continue
        c.cov["evaluations"] += 1
        if not j:
            continue
        kind = case.split(" ", 1)[0]
        c.dist["kind:" + kind] = c.dist.get("kind:" + kind, 0) + 1
        sst = steps_of(s)
        nerr = sum(1 for x in sst if x.startswith("ERR(") and not x.startswith("ERR(dispatch)"))
        nok = sum(1 for x in sst if x.startswith("OK"))
        c.dist["steps"] = c.dist.get("steps", 0) + len(sst)
        c.dist["steps:precondition-violated"] = c.dist.get("steps:precondition-violated", 0) + nerr
        if nerr and nok >= 2 and case not in seen:
            seen.add(case)
        if fails(case, i, s):
            nfail += 1
            if nfail <= 4:
                mc = minimise(hbin, sbin, case)
                _, mi, _ = vlib.run_lines(hbin, [mc], env=ENV)
                _, ms, _ = vlib.run_lines(sbin, [mc])
                mi, ms = mi[0], ms[0]
                if died(mi):
                    c.fail("the process was killed while executing this operation sequence (sanitizer report / library assertion / signal): "
                           "an unchecked std:: precondition was violated from script",
                           {"case": mc, "impl": mi, "spec": ms, "sanitizer": sanitizer_text(hbin, mc), "found_in": case,
                            "format": "<Kind> <target> <op> <args>;...  targets c=container k=const ref r/q=range views; see harness/h_stl.cpp"})
                else:
                    k = first_mismatch(mc, mi, ms, exact_class=False)
                    im, sp = steps_of(mi), steps_of(ms)
                    c.fail("step %d of the sequence does not have the effect/result of the std:: container operation (or does not raise where the precondition is violated)" % ((k or 0) + 1),
                           {"case": mc, "step": (k or 0) + 1, "impl_step": im[k] if k is not None and k < len(im) else "<missing>",
                            "spec_step": sp[k] if k is not None and k < len(sp) else "<missing>", "impl": mi, "spec": ms, "found_in": case,
                            "format": "<Kind> <target> <op> <args>;...  observation per step: result | contents | live views"})
            elif nfail <= 20:
                c.fail("further failing sequence (not minimised)", {"case": case, "impl": i[:400], "spec": s[:400]})
            if died(i):
                continue
        if m is not None:
            k2 = first_mismatch(case, i, m, exact_class=True)
            if k2 is not None:
                ndis += 1
                if ndis <= 10:
                    c.disagree("stl", prefix(case, k2 + 1), " ;; ".join(steps_of(i)[:k2 + 1]), " ;; ".join(steps_of(m)[:k2 + 1]))
    c.cov["distinct_nontrivial"] += len(seen)
    c.cov["traces_validated_against_impl"] += sum(judged)
    c.cov["disagreements_checked"] += sum(judged)
    return impl, model, specs


def build_harness():
    return vlib.cxx_build("h_stl", flavor=FLAVOR, extra=EXTRA)


def warm():
    build_harness()
    vlib.model_build("contspec", ["theories/ContSpecRun.vo"])
    vlib.model_build("cont", ["theories/ContRun.vo"])


def load_corpus():
    cases, judged = [], []
    for l in open(os.path.join(vlib.ROOT, "corpus", "C12.txt")):
        l = l.rstrip("\n")
        if not l.strip() or l.startswith("#"):
            continue
        cases.append(l)
        judged.append(not l.startswith("!"))
    return cases, judged


def check(tier, seed):
    c = vlib.Check("C12", tier, seed)
    c.cov["rule"] = ("case = one operation sequence (quick: 3..12 steps, thorough: 3..40) on a Vector / List / string / Map / Pair that starts empty, with range views "
                     "made from the mutable and the const reference; indices and positions are drawn from {-1, 0, size-1, size, size+1, in-range, 2^31-1, 2^31, 2^32, 2^32+1, -2^31, 2^40+3} "
                     "relative to the tracked current size; every step is one script statement, observed as result/error class + full contents + view positions; "
                     "non-trivial = the specification says at least one step violates an index/position/emptiness precondition and at least two steps succeed; distinct = distinct case lines")
    c.assumptions = ["allocation succeeds for containers of at most a few thousand elements; resize/reserve arguments between 64 and max_size are not exercised "
                     "(the model says they succeed; the real outcome depends on available memory); growth beyond max_size = PTRDIFF_MAX/16 raises length_error in the model",
                     "element values are ints / chars / short strings; Boxed_Value aliasing between elements is outside the model (push_back clones)",
                     "range views are exercised only while the viewed container is not structurally modified (views are dropped by harness and model after any successful non-observer step); "
                     "the modify-while-viewed case is one fixed corpus entry that is executed but never judged",
                     "the Coq transcription of the std:: operations (ContDefs.std_pre / std_eff) is validated against libstdc++ under ASan+UBSan+_GLIBCXX_ASSERTIONS by this correspondence, not proved against the C++ standard",
                     "translator tools/translate/t_StlWrappers.py (shape recogniser over bootstrap_stl.hpp, chaiscript_stdlib.hpp, chaiscript_prelude.hpp); List is instantiated by the harness, not by Std_Lib",
                     "extraction: ExtrOcamlBasic + ExtrOcamlString, no Extract Constant; OCaml driver does line I/O only"]
    c.prove("Properties_C12", translators=["StlWrappers"])
    hbin = build_harness()
    sbin = vlib.model_build("contspec", ["theories/ContSpecRun.vo"])
    try:
        mbin = vlib.model_build("cont", ["theories/ContRun.vo"])
    except vlib.BuildError as ex:
        mbin = None
        c.broken_ties.append(("correspondence", "stl: the mechanism model no longer builds from the regenerated table", str(ex)[-1500:]))
    corpus, cj = load_corpus()
    gen, dist = gen_cases(tier, seed)
    cases = corpus + gen
    judged = cj + [True] * len(gen)
    c.dist.update(dist)
    impl, model, specs = run(c, cases, hbin, mbin, sbin, judged)
    for k in (0, len(corpus) + 5, len(cases) // 2, len(cases) - 2):
        c.sample({"case": cases[k], "impl": impl[k], "model_mechanism": model[k], "model_spec": specs[k]})
    return c.finish()


def replay(path):
    r = json.load(open(os.path.join(vlib.ROOT, path) if not os.path.isabs(path) else path))
    if r.get("kind") != "failing-input":
        print("tie-broken replay: the following no longer check:", json.dumps(r.get("no_longer_checks"), indent=1)[:3000])
        return 1
    hbin = build_harness()
    sbin = vlib.model_build("contspec", ["theories/ContSpecRun.vo"])
    case = r["failure"]["case"]["case"]
    _, i, err = vlib.run_lines(hbin, [case], env=ENV)
    _, s, _ = vlib.run_lines(sbin, [case])
    print("case:", case, "\nimpl:", i[0], "\nspec:", s[0])
    bad = died(i[0]) or first_mismatch(case, i[0], s[0], exact_class=False) is not None
    print("REPRODUCED" if bad else "not reproduced")
    return 1 if bad else 0
