#!/usr/bin/env python3
"""Prepare a scratch worktree for a mutation sub-agent and print the prompt it gets (property text only)."""
import json, subprocess, sys, os
pid = sys.argv[1]
rec = [json.loads(l) for l in open("/verif/properties.jsonl") if json.loads(l)["id"] == pid][0]
base = "/tmp/seed/%s" % pid
wt = base + "/repo"
os.makedirs(base + "/out", exist_ok=True)
if not os.path.isdir(wt):
    subprocess.run(["git", "-C", "/repo", "worktree", "add", "--detach", wt, "HEAD"], check=True, capture_output=True)
print(f"""You are helping to test a verification tool by producing realistic *breaking changes* (seeded defects) for one stated
property of ChaiScript (a header-only embedded scripting language for C++). You work ONLY inside your own scratch
git worktree of the repository: {wt} (write your results to {base}/out). Do not read or write /repo, /verif or any
other directory under /tmp/seed, and do not commit anything. The sandbox is offline.

THE PROPERTY (this record is all you are given about it):

{json.dumps(rec, indent=1)}

WHAT TO PRODUCE: up to three *different* small source changes to the library (files under {wt}/include, occasionally
{wt}/src), each of which on its own
  (a) still compiles,
  (b) still passes the repository's existing test suite unchanged (all 295 tests), and
  (c) makes the property above false for at least one concrete input / program / history — the kind of slip a
      maintainer could plausibly make in a refactoring, an "optimisation", a boundary condition, an ordering or a
      missed case (not sabotage such as `if (x == 12345) abort()`, and not a change to tests).
Prefer changes that need something specific to manifest (a particular input shape, size, nesting depth, operand type,
ordering, thread schedule, exception path…), and make the three changes differ in mechanism and in the code they touch
where the property allows it. A change that breaks the property for almost every input usually fails the test suite,
so expect to iterate.

HOW TO BUILD AND TEST (in your worktree; use at most 4 build jobs because other work shares the machine):
  cmake -G Ninja -S {wt} -B {wt}/_build -DCMAKE_BUILD_TYPE=RelWithDebInfo -DBUILD_TESTING=ON -DBUILD_SAMPLES=OFF >/dev/null
  cmake --build {wt}/_build -j4 2>&1 | tail -3
  ctest --test-dir {wt}/_build -j4 --timeout 900 2>&1 | tail -5          # must report 100% tests passed, 295 tests
For a demonstration program, compile against the headers directly, e.g.
  g++ -std=c++17 -O1 -I{wt}/include demo.cpp -o demo -lpthread -ldl
(the library is header-only; a program that does `#include <chaiscript/chaiscript.hpp>` and constructs
`chaiscript::ChaiScript chai;` takes about a minute to compile. Add -fsanitize=address,undefined when the failure is
a memory error.) Build the first full test suite once on the unchanged tree to confirm 295/295, then re-run build+ctest
for every candidate change (a header change rebuilds everything: several minutes).

FOR EACH CHANGE n = 1, 2, 3 write a directory {base}/out/<n>/ containing
  patch.diff   — `git -C {wt} diff` of exactly that change against HEAD (applies with `git apply` at the repo root),
  demo.cpp and/or demo.chai plus run.sh — a demonstration that can be run against any checkout given its include
                 directory as $1 (run.sh <include-dir>): it must print a line starting `PROPERTY-HOLDS` on the
                 unchanged tree and a line starting `PROPERTY-BROKEN` (with what was observed) on the changed tree,
  meta.json    — {{"property": "{pid}", "title": short name, "description": what the change is and why it is plausible,
                 "manifests_when": the specific input/condition needed, "files": [...],
                 "tests_passed": "295/295" (only if you actually ran them with the patch applied),
                 "holds_before": output line, "broken_after": output line}}.
After each change is recorded, restore the worktree (`git -C {wt} checkout -- .`) before starting the next, and leave it
clean at the end (keep the _build directory; it will be removed for you). If you cannot find a change that satisfies
(a)-(c), say so and explain what you tried — do not hand in a change whose test run you did not see pass.

Your final message: for each change one paragraph (what, where, what manifests it, test-suite result, demo output before/after).""")
