#!/usr/bin/env python3
"""Confirm the changes a mutation sub-agent handed in (in /tmp/seed/<id>/out/<n>/) in my own scratch worktree
(/tmp/conf/repo): the patch applies and compiles, the unchanged test suite passes with it (295/295), the demonstration
prints PROPERTY-HOLDS on the clean tree and PROPERTY-BROKEN on the changed one.  Confirmed changes are copied to
/verif/seeded/<id>/<n>/ with confirm.json.  usage: seed_confirm.py <id> [n ...] [--no-tests]"""
import json, os, shutil, subprocess, sys, time

WT = os.environ.get("CONF_WT") or ("/tmp/conf2/repo" if "--no-tests" in sys.argv else "/tmp/conf/repo")   # demo-only runs never touch the worktree a test run is building in


def sh(cmd, cwd=None, timeout=3600):
    p = subprocess.run(cmd, shell=True, cwd=cwd, capture_output=True, text=True, timeout=timeout)
    return p.returncode, (p.stdout + p.stderr)


def ensure_wt():
    if not os.path.isdir(WT):
        os.makedirs(os.path.dirname(WT), exist_ok=True)
        subprocess.run(["git", "-C", "/repo", "worktree", "add", "--detach", WT, "HEAD"], check=True, capture_output=True)
    sh("git checkout -q -- . && git clean -fdq -e _build", cwd=WT)
    head = subprocess.run(["git", "-C", "/repo", "rev-parse", "HEAD"], capture_output=True, text=True).stdout.strip()
    sh("git checkout -q --detach %s" % head, cwd=WT)
    if not os.path.isdir(WT + "/_build"):
        sh("cmake -G Ninja -S . -B _build -DCMAKE_BUILD_TYPE=RelWithDebInfo -DBUILD_TESTING=ON -DBUILD_SAMPLES=OFF", cwd=WT)


def demo(src, inc, tag):
    d = os.path.dirname(WT) + "/demo_%s" % tag
    shutil.rmtree(d, ignore_errors=True)
    shutil.copytree(src, d)
    try:
        rc, out = sh("bash run.sh %s" % inc, cwd=d, timeout=1800)
    except subprocess.TimeoutExpired:
        rc, out = 124, "TIMEOUT"
    shutil.rmtree(d, ignore_errors=True)
    lines = [l for l in out.splitlines() if l.startswith("PROPERTY-")]
    return rc, lines, out[-1500:]


def confirm(pid, n, tests=True):
    src = "/tmp/seed/%s/out/%s" % (pid, n)
    res = {"property": pid, "n": n, "at": time.strftime("%Y-%m-%dT%H:%M:%S")}
    if not (os.path.exists(src + "/patch.diff") and os.path.exists(src + "/run.sh")):
        res["status"] = "incomplete hand-in"
        return res
    ensure_wt()
    rc, lines, tail = demo(src, WT + "/include", "clean")
    res["clean"] = lines or tail[-300:]
    rc, out = sh("git apply --whitespace=nowarn %s/patch.diff" % src, cwd=WT)
    res["base"] = sh("git rev-parse --short HEAD", cwd=WT)[1].strip()
    if rc != 0:
        # written against an earlier commit of /repo (a later fix: commit touched the same lines): confirm it there
        base = sh("git rev-parse --short HEAD", cwd="/tmp/seed/%s/repo" % pid)[1].strip() if os.path.isdir("/tmp/seed/%s/repo" % pid) else ""
        rc2, out2 = sh("git checkout -q --detach %s && git apply --whitespace=nowarn %s/patch.diff" % (base, src), cwd=WT) if base else (1, "")
        if rc2 != 0:
            res["status"] = "patch does not apply: " + out[-300:]
            return res
        res["base"] = base
    res["files"] = sh("git diff --stat | tail -1", cwd=WT)[1].strip()
    rc, lines, tail = demo(src, WT + "/include", "patched")
    res["patched"] = lines or tail[-300:]
    holds = any(l.startswith("PROPERTY-HOLDS") for l in (res["clean"] if isinstance(res["clean"], list) else []))
    broken = any(l.startswith("PROPERTY-BROKEN") for l in (res["patched"] if isinstance(res["patched"], list) else []))
    res["demo_ok"] = holds and broken
    if tests and res["demo_ok"]:
        t0 = time.time()
        rc, out = sh("cmake --build _build -j10 2>&1 | tail -3", cwd=WT, timeout=7200)
        res["build_tail"] = out[-300:]
        rc, out = sh("ctest --test-dir _build -j10 --timeout 900 2>&1 | tail -4", cwd=WT, timeout=7200)
        res["ctest_tail"] = out[-400:]
        res["tests_ok"] = "100% tests passed" in out and "out of 295" in out
        res["test_seconds"] = int(time.time() - t0)
    sh("git checkout -q -- .", cwd=WT)
    ok = res.get("demo_ok") and (res.get("tests_ok") if tests else True)
    res["status"] = ("confirmed" if tests else "demo-confirmed (test suite not yet run by me)") if ok else "rejected"
    if ok:
        dst = "/verif/seeded/%s/%s" % (pid, n)
        os.makedirs(dst, exist_ok=True)
        for f in os.listdir(src):
            fp = os.path.join(src, f)
            if os.path.isfile(fp) and os.path.getsize(fp) < 200000 and not os.access(fp, os.X_OK) or f == "run.sh":
                shutil.copy(fp, dst)
        json.dump(res, open(dst + "/confirm.json", "w"), indent=1)
    return res


if __name__ == "__main__":
    pid = sys.argv[1]
    tests = "--no-tests" not in sys.argv
    ns = [a for a in sys.argv[2:] if not a.startswith("--")] or sorted(d for d in os.listdir("/tmp/seed/%s/out" % pid) if d.isdigit())
    for n in ns:
        r = confirm(pid, n, tests)
        print(json.dumps(r, indent=1))
