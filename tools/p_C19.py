"""C19 — eval_file evaluates the file's bytes; use() evaluates once.
proof: Properties_C19 (load_file/skip_bom as an ifstream state machine interpreting the stream operations regenerated from the
       source; use()/eval_file() histories with the try block regenerated from the source).
tie:   translator t_LoadFile (every run) + h_file (real load_file on real files, real use()/eval_file() histories) diffed with
       the extracted mechanism model (m_files).
oracle: the extracted specification (m_filesspec: content minus one BOM; canonical use) and eval_file(path) == eval(those bytes)."""
import json, os, random, re, shutil, tempfile
import vlib

BOMS = {"none": b"", "bom": b"\xef\xbb\xbf", "ef": b"\xef", "efbb": b"\xef\xbb", "efbbXX": b"\xef\xbb\x31", "bombom": b"\xef\xbb\xbf\xef\xbb\xbf"}
STMTS = ["emit(%d)", "print(%d)", "%d + %d", "\"s%d\"", "var v%d = %d", "%d", "true", "emit(%d); %d", "[%d, %d].size()", "puts(\"p%d\")",
         "if (true) { emit(%d) }", "def f%d() { %d }; f%d()", "1.%d", "'c'", "emit(%d)", "print(\"x%d\")", "%d * %d", "to_string(%d)"]
BAD_STMTS = ["undefined_fn(%d)", ")%d(", "throw(%d)", "var v = ; %d", "1 / 0 + %d"]


def program(rnd, n, eol):
    """some ChaiScript text of exactly n bytes"""
    if n == 0:
        return b""
    if n <= 2:
        return rnd.choice([b"1", b"x", b" ", b"\n", b";", b"7", b"\x00"] if n == 1 else [b"12", b"1;", b"x\n", b"1 ", b"\r\n", b"()", b"1\x00", b"//"])
    out = b""
    for _ in range(20):
        s = rnd.choice(BAD_STMTS if rnd.random() < 0.06 else STMTS)
        s = (s % tuple(rnd.randrange(10) for _ in range(s.count("%d")))).encode()
        cand = out + (eol if out else b"") + s
        if len(cand) > n:
            break
        out = cand
    if not out:
        out = b"1"
    pad = n - len(out)
    if pad > 0:
        k = rnd.randrange(4)
        if k == 0:
            out += b" " * pad
        elif k == 1 and pad >= len(eol):
            out += eol + b" " * (pad - len(eol))
        elif k == 2 and pad >= 2:
            out += b"//" + b"p" * (pad - 2)
        else:
            out = b" " * pad + out
    return out[:n]


def contents(tier, rnd):
    """(description, bytes, evaluate?) of every generated file; `evaluate` selects the files that also go through eval_file vs eval"""
    out = []
    full = tier == "thorough"
    for n in range(0, 65):
        for bk, bom in BOMS.items():
            combos = [(e, sb, nul) for e in (b"\n", b"\r\n") for sb in (0, 1) for nul in (0, 1)]
            if not full and n > 8:
                combos = [combos[0], rnd.choice(combos[1:])]
            for j, (eol, sb, nul) in enumerate(combos):
                body = program(rnd, n, eol)
                c = bom + (b"#!/usr/bin/env chai" + eol if sb else b"") + body + (b"\x00" * rnd.randrange(1, 4) if nul else b"")
                ev = full or n <= 8 or (bk in ("none", "bom", "ef", "efbb") and j == 0) or rnd.random() < 0.25
                out.append(("len%d/%s/%s/sb%d/nul%d" % (n, bk, "crlf" if eol == b"\r\n" else "lf", sb, nul), c, ev))
        # the bare lengths themselves, whatever the decorations add
        out.append(("raw%d" % n, program(rnd, n, b"\n"), True))
        out.append(("rand%d" % n, bytes(rnd.randrange(256) for _ in range(n)), full or n < 8))
    for _ in range(12 if not full else 300):
        n = rnd.choice([65, 100, 255, 256, 257, 1000, 4095, 4096, 4097] + ([10000, 65536] if full else [])) + rnd.randrange(3)
        bom = rnd.choice(list(BOMS.values()))
        eol = rnd.choice([b"\n", b"\r\n"])
        text = b""
        while len(text) < n:
            text += program(rnd, rnd.randrange(3, 60), eol) + eol
        out.append(("long%d" % n, bom + text[:n], True))
        out.append(("longrand%d" % n, bom + bytes(rnd.randrange(256) for _ in range(n)), False))
    return out


def histories(tier, rnd):
    out = []
    names = ["a", "b", "c"]
    for _ in range({"quick": 300, "thorough": 3000}[tier]):
        paths = rnd.choice([["p0/", "p1/"], ["p1/", "p0/"], ["p0/"], ["p0/", "p1/"]])
        segs = ["hist", "paths " + " ".join(paths)]
        for p in ("p0/", "p1/"):
            for i, n in enumerate(names):
                if rnd.random() < 0.6:
                    facts = []
                    for _ in range(rnd.choice([0, 0, 1, 1, 2])):
                        x = rnd.random()
                        later = names[i + 1:] + ["z"]
                        if x < 0.55:
                            facts.append("use:" + rnd.choice(later))
                        elif x < 0.85:
                            facts.append("evalfile:" + rnd.choice(later))
                        else:
                            facts.append("throw")
                    segs.append(("file %s%s %s" % (p, n, " ".join(facts))).strip())
        for _ in range(rnd.randrange(4, 13)):
            x = rnd.random()
            n = rnd.choice(names + (["z"] if rnd.random() < 0.15 else []))
            if x < 0.45:
                segs.append("use " + n)
            elif x < 0.65:
                segs.append("suse " + n)
            elif x < 0.8:
                segs.append("evalfile %s%s" % (rnd.choice(["p0/", "p1/"]), n))
            else:
                segs.append("sevalfile " + n)
        out.append(" | ".join(segs))
    return out


ERR = re.compile(r"ERR\((?!file:)[^)]*\)")


def canon(line):
    return ERR.sub("ERR", line)


class Runner:
    def __init__(self, scratch):
        self.scratch = scratch
        self.hbin = vlib.cxx_build("h_file")
        self.sbin = vlib.model_build("filesspec", ["theories/FilesSpecRun.vo"])
        try:
            self.mbin = vlib.model_build("files", ["theories/FilesRun.vo"])
            self.merr = None
        except (vlib.BuildError, RuntimeError) as ex:
            self.mbin, self.merr = None, str(ex)[-1500:]

    def impl(self, cases):
        rc, out, err = vlib.run_lines(self.hbin, cases, timeout=3000, args=[self.scratch])
        if len(out) != len(cases):
            raise vlib.BuildError("h_file produced %d lines for %d cases\n%s" % (len(out), len(cases), err[-2000:]))
        return out

    def model(self, binp, cases):
        rc, out, err = vlib.run_lines(binp, cases, timeout=3000)
        if len(out) != len(cases):
            raise vlib.BuildError("model produced %d lines for %d cases\n%s" % (len(out), len(cases), err[-2000:]))
        return out


def split_cmp(line):
    m = re.fullmatch(r"F\{(.*)\} B\{(.*)\}", line)
    return (m.group(1), m.group(2)) if m else (line, None)


def judge(case, impl, spec):
    """None if the implementation's observation satisfies the specification, else a description"""
    k = case.split(" ")[0]
    if impl.startswith("SIG(") or impl.startswith("EXIT("):
        return "the process was killed"
    if k in ("load", "loadmissing", "hist"):
        return None if canon(impl) == canon(spec) else "differs from the specification"
    if k == "cmp":
        f, b = split_cmp(impl)
        return None if f == b else "eval_file(path) and eval(bytes of the file minus one BOM) differ"
    if k == "evalmissing":
        return None if impl.startswith("E(file:no_such_file.chai)") else "a missing file did not raise file_not_found_error"
    return "unknown case"


def warm():
    vlib.cxx_build("h_file")
    vlib.model_build("filesspec", ["theories/FilesSpecRun.vo"])
    vlib.model_build("files", ["theories/FilesRun.vo"])


def check(tier, seed):
    c = vlib.Check("C19", tier, seed)
    c.cov["rule"] = ("cases: `load` = a file of given bytes read by the real load_file (every length 0..64 x 6 BOM prefixes x LF/CRLF x shebang x trailing "
                     "NULs, random bytes of every length 0..64, longer files up to 10 kB); `cmp` = eval_file(path) vs eval(spec bytes) on two fresh engines "
                     "(value, captured stdout, error class/reason/position); `hist` = histories of use()/script use/eval_file(path)/script eval_file over 3 "
                     "names x 2 search paths with nested use/eval_file/throw and an evaluation counter; non-trivial = distinct file contents of length >= 1 "
                     "plus distinct histories in which some file is evaluated")
    c.assumptions = ["ifstream semantics (read/seekg/clear/tellg on good and failed streams) transcribed by hand in FilesDefs.v; validated against libstdc++ by the `load` matrix",
                     "translator tools/translate/t_LoadFile.py (shape recogniser over chaiscript_engine.hpp)",
                     "files are abstract programs in the history model (nested use / eval_file / throw); circular includes are excluded by the generator (fuel is explicit in the model)",
                     "extraction: ExtrOcamlBasic + ExtrOcamlString, no Extract Constant; OCaml driver does line I/O only"]
    c.prove("Properties_C19", translators=["LoadFile"])
    scratch = tempfile.mkdtemp(prefix="verif_c19_", dir="/tmp")
    try:
        rn = Runner(scratch)
        if rn.mbin is None:
            c.broken_ties.append(("correspondence", "files: the mechanism model no longer builds from the regenerated operations", rn.merr))
        rnd = random.Random(seed * 7907 + 19)
        corpus = [l.rstrip("\n") for l in open(os.path.join(vlib.ROOT, "corpus", "C19.txt")) if l.strip() and not l.startswith("#")]
        conts = contents(tier, rnd)
        loads = ["load " + vlib.hexs(b) for _, b, _ in conts] + ["loadmissing"]
        hists = histories(tier, rnd)
        first = corpus + loads + hists
        spec = rn.model(rn.sbin, first)
        # eval_file(path) against eval(the bytes the specification says load_file returns)
        cmps, seen = [], set()
        for (desc, b, ev), s in zip(conts, spec[len(corpus):len(corpus) + len(conts)]):
            if s.startswith("C:") and ev and b not in seen:
                seen.add(b)
                cmps.append("cmp %s %s" % (vlib.hexs(b), s[2:]))
        cases = first + cmps + ["evalmissing"]
        spec = spec + [None] * (len(cmps) + 1)
        impl = rn.impl(cases)
        mech = (rn.model(rn.mbin, first) + [None] * (len(cmps) + 1)) if rn.mbin else [None] * len(cases)
        nontrivial, ndis, nfail = set(), 0, 0
        for case, i, s, m in zip(cases, impl, spec, mech):
            c.cov["evaluations"] += 1
            k = case.split(" ")[0]
            c.dist[k] = c.dist.get(k, 0) + 1
            if k == "load":
                n = 0 if case == "load -" else (len(case) - 5) // 2
                c.dist["len<3" if n < 3 else "len>=3"] = c.dist.get("len<3" if n < 3 else "len>=3", 0) + 1
                if n >= 1:
                    nontrivial.add(case)
            elif k == "hist" and re.search(r"=[1-9]", i):
                nontrivial.add(case)
            elif k == "cmp":
                f, _ = split_cmp(i)
                kind = f.split("(")[0] + ("+out" if " out=-" not in f else "")
                c.dist["cmp:" + kind] = c.dist.get("cmp:" + kind, 0) + 1
            if m is not None and canon(i) != canon(m):
                ndis += 1
                if ndis <= 10:
                    c.disagree("files", case[:400], i[:400], m[:400])
            why = judge(case, i, s)
            if why:
                nfail += 1
                if nfail <= 40:
                    c.fail(why, {"case": case if len(case) < 3000 else case[:3000] + "...", "impl": i[:1500], "spec": (s or "")[:1500],
                                 "format": "see harness/h_file.cpp header; bytes in hex"})
        # report the smallest failing input first
        c.failures.sort(key=lambda f: len(f["case"]["case"]))
        c.cov["distinct_nontrivial"] = len(nontrivial)
        c.cov["programs"] = len(cmps)
        c.cov["traces_validated_against_impl"] = len(first)
        c.cov["disagreements_checked"] = len(first) if rn.mbin else 0
        for k in (len(corpus) + 5, len(corpus) + len(loads) + 2, len(first) + 7):
            if k < len(cases):
                c.sample({"case": cases[k][:300], "impl": impl[k][:400], "spec": (spec[k] or "")[:300]}, limit=3)
        return c.finish()
    finally:
        shutil.rmtree(scratch, ignore_errors=True)


def replay(path):
    r = json.load(open(os.path.join(vlib.ROOT, path) if not os.path.isabs(path) else path))
    if r.get("kind") != "failing-input":
        print("tie-broken replay: the following no longer check:", json.dumps(r.get("no_longer_checks"), indent=1)[:3000])
        return 1
    case = r["failure"]["case"]["case"]
    scratch = tempfile.mkdtemp(prefix="verif_c19_", dir="/tmp")
    try:
        rn = Runner(scratch)
        i = rn.impl([case])[0]
        s = rn.model(rn.sbin, [case])[0] if case.split(" ")[0] in ("load", "loadmissing", "hist") else None
        why = judge(case, i, s)
        print("case:", case[:2000], "\nimpl:", i[:2000], "\nspec:", s)
        print("REPRODUCED: " + why if why else "not reproduced")
        return 1 if why else 0
    finally:
        shutil.rmtree(scratch, ignore_errors=True)
