"""C03 — core language semantics match the documented model.
level: translation validation against the Coq reference interpreter (Eval.v + specification arithmetic):
every generated program is run by the implementation (default parser+evaluator) and by the reference on
the *unoptimised* tree; stdout, result value+type and error outcome must agree. Laws of the reference
are proved in Properties_C03.v."""
import json, random
import vlib, evalcheck as E, gen_prog


def warm():
    E.warm()


def gen(tier, seed):
    n = {"quick": 700, "thorough": 6000}[tier]
    kw = dict(max_depth=3, error_rate=0.05, features={"flat": 0.3, "typed": 0.35, "loops": 0.3, "temps": 0.3, "maps": 0.3, "classes": 0.35})
    progs, stats = gen_prog.programs(seed * 1000003 + 3, n, **kw)
    # the same programs with every operator expression fully parenthesised: what C precedence and associativity say the first text means
    twins, _ = gen_prog.programs(seed * 1000003 + 3, n, full_parens=True, **kw)
    return progs, stats, twins


def judge(c, progs, source, twins=None):
    raw = E.run_impl(twins or progs, "raw")
    opt = E.run_impl(progs, "opt")
    ok_idx = [i for i in range(len(progs)) if "tree" in raw[i] and "tree" in opt[i]]
    for i in range(len(progs)):
        if ("tree" in raw[i]) != ("tree" in opt[i]):
            c.fail("a program and its fully parenthesised twin do not both parse", {"program": progs[i], "twin": (twins or progs)[i], "source": source,
                                                                                   "observed": [raw[i].get("parse_error", "parsed")[:200], opt[i].get("parse_error", "parsed")[:200]]})
    ref = E.run_model("spec", [raw[i]["tree"] for i in ok_idx])
    mech = E.run_model("mech", [opt[i]["tree"] for i in ok_idx], hints=False)
    seen = set()
    for k, i in enumerate(ok_idx):
        c.cov["programs"] += 1
        c.cov["evaluations"] += 1
        impl_obs = E.canon_obs(opt[i]["out"], opt[i]["res"])
        rout, rres = E.split_model(ref[k])
        if rres.startswith("UNSUP") or rres.startswith("FUEL") or rout is None:
            c.dist["unsupported_by_model"] = c.dist.get("unsupported_by_model", 0) + 1
            c.extra.setdefault("unsupported_samples", [])
            if len(c.extra["unsupported_samples"]) < 5:
                c.extra["unsupported_samples"].append({"program": progs[i], "model": rres})
            continue
        ref_obs = E.canon_obs(rout, rres)
        kind = "error" if ref_obs[1].startswith("ERR") else "value"
        c.dist["outcome:" + kind] = c.dist.get("outcome:" + kind, 0) + 1
        if len(progs[i]) > 40 and progs[i] not in seen:
            seen.add(progs[i])
        c.cov["disagreements_checked"] += 1
        if impl_obs != ref_obs:
            c.fail("the implementation's output/result/error differs from the reference interpreter of the documented semantics",
                   {"program": progs[i], "implementation": impl_obs, "reference": ref_obs, "source": source,
                    "reference_ran_on": (twins[i] if twins and twins[i] != progs[i] else "the same text")})
        # tie of the mechanism model on the optimised tree (what the engine really evaluates)
        if mech[k] is not None:
            mout, mres = E.split_model(mech[k])
            if not (mres.startswith("UNSUP") or mres.startswith("FUEL")) and E.canon_obs(mout, mres) != impl_obs:
                c.disagree("eval(opt tree)", progs[i], impl_obs, E.canon_obs(mout, mres))
    c.cov["distinct_nontrivial"] += len(seen)
    for i in range(len(progs)):
        if "tree" not in opt[i]:
            c.dist["parse_error"] = c.dist.get("parse_error", 0) + 1
    return raw, opt, ref


def shrink_failures(c):
    """shrink the first failing program (and its fully parenthesised twin in lockstep) to a few statements"""
    import shrink
    for f in c.failures[:1]:
        case = f["case"]
        if "program" not in case or "reference" not in case:
            continue
        twin = case.get("reference_ran_on")
        twin = case["program"] if (not twin or twin == "the same text") else twin

        def differs(variants):
            ps, ts = [v[0] for v in variants], [v[1] for v in variants]
            opt = E.run_impl(ps, "opt")
            raw = E.run_impl(ts, "raw")
            idx = [i for i in range(len(ps)) if "tree" in opt[i] and "tree" in raw[i]]
            ref = E.run_model("spec", [raw[i]["tree"] for i in idx])
            res = [False] * len(ps)
            for k, i in enumerate(idx):
                ro, rr = E.split_model(ref[k])
                if ro is None or rr.startswith("UNSUP") or rr.startswith("FUEL"):
                    continue
                res[i] = E.canon_obs(opt[i]["out"], opt[i]["res"]) != E.canon_obs(ro, rr)
            return res
        try:
            small = shrink.shrink([case["program"], twin], differs)
        except Exception as ex:
            case["shrink_error"] = str(ex)[:200]
            continue
        if len(small[0]) < len(case["program"]):
            case["original_program"] = case["program"]
            case["program"], case["reference_ran_on"] = small[0], small[1]
            o = E.run_impl([small[0]], "opt")[0]
            r = E.run_impl([small[1]], "raw")[0]
            m = E.run_model("spec", [r["tree"]])[0]
            case["implementation"], case["reference"] = E.canon_obs(o["out"], o["res"]), E.canon_obs(*E.split_model(m))


def check(tier, seed):
    c = vlib.Check("C03", tier, seed)
    c.level = "translation_validation"
    c.cov["rule"] = ("programs from tools/gen_prog.py (typed grammar-directed: ints/bools/strings/vectors, blocks, if, while/for/ranged-for with break/continue, switch, "
                     "functions with guards and recursion, lambdas with captures, references vs copies, try/catch/finally); non-trivial = longer than 40 bytes and inside "
                     "the model's supported subset; distinct = distinct program text")
    c.assumptions = ["the reference is the Coq evaluator Eval.v instantiated with the specification arithmetic (NumDefs.spec_row), run on the unoptimised tree dumped by harness/h_run",
                     "the tree reader (Ast.read_ast) is tied by a print/read round trip against the implementation's dump",
                     "programs outside the model's supported subset are counted (unsupported_by_model) and not judged",
                     "C precedence and associativity: operator expressions are generated as trees and written with the fewest parentheses C allows; the reference evaluates the fully "
                     "parenthesised twin of each program, so a parse that groups differently shows up as a different result or side-effect order"]
    c.prove("Properties_C03", translators=["NumTables", "OptOrder"])
    if E.bins().get("mech") is None:
        c.broken_ties.append(("correspondence", "eval: mechanism model does not build", E.bins().get("mech_err")))
    corpus = E.corpus("eval_core.txt")
    judge(c, corpus, "corpus")
    progs, stats, twins = gen(tier, seed)
    c.dist["programs_with_minimal_parentheses"] = sum(1 for a, b in zip(progs, twins) if a != b)
    raw, opt, ref = judge(c, progs, "generated", twins)
    c.dist.update({"construct:" + k: v for k, v in stats.items()})
    for k in (0, len(progs) // 2, len(progs) - 1):
        c.sample({"program": progs[k][:600], "implementation": opt[k].get("res", opt[k].get("parse_error"))[:200]})
    shrink_failures(c)
    return c.finish()


def replay(path):
    r = json.load(open(path))
    if r.get("kind") != "failing-input":
        print(json.dumps(r, indent=1)[:3000])
        return 1
    prog = r["failure"]["case"]["program"]
    c = vlib.Check("C03", "quick", 0)
    judge(c, [prog], "replay")
    print("REPRODUCED" if c.failures else "not reproduced", json.dumps(c.failures[:1], indent=1))
    return 1 if c.failures else 0
