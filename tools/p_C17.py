"""C17 — Prelude algorithms compute what their names say.
proof : Properties_C17 over coq/gen/G_Prelude.v, regenerated from chaiscript_prelude.hpp's text by
        tools/translate/t_Prelude.py on every run (one Gallina definition per prelude function).
tie   : translator (every run) + correspondence  h_prelude (real prelude in a real engine)  <->  m_prelude
        (extracted mechanism model = the regenerated definitions), on all small inputs.
oracle: implementation vs the extracted *specification* (m_preludespec, independent of gen/)."""
import itertools, json, os, random
import vlib

INT_ALPHA = [-1, 0, 2]
STR_ALPHA = ["a", "b", ""]
CHR_ALPHA = ["a", "_", "b"]          # _ = space
WS_ALPHA = ["a", "_", "~", "|", "^"]  # space, tab, newline, CR


def tok(v):
    if isinstance(v, bool):
        return "B1" if v else "B0"
    if isinstance(v, int):
        return "I%d" % v
    if isinstance(v, str):
        return "S" + v
    if isinstance(v, tuple):
        return "P %s %s" % (tok(v[0]), tok(v[1]))
    return " ".join(["L%d" % len(v)] + [tok(x) for x in v])


def lists(alpha, n):
    for k in range(n + 1):
        for t in itertools.product(alpha, repeat=k):
            yield list(t)


def counts(n):
    return sorted({-1, 0, 1, n - 1, n, n + 1})


def gen_cases(tier, seed):
    rnd = random.Random(seed * 7919 + 17)
    N = {"quick": 4, "thorough": 6}[tier]
    NS = {"quick": 3, "thorough": 4}[tier]
    cases = []
    add = cases.append
    partners = [[], [5], [5, -1, 3], [1, 1, 1, 1, 1, 1, 1]]
    spartners = [[], ["c"], ["c", "", "d", "e", "f", "g", "h"]]
    for l in lists(INT_ALPHA, N):
        L, n = tok(l), len(l)
        add("for_each id " + L)
        for cb in ("inc", "neg"):
            add("map %s %s" % (cb, L))
        add("map3 dbl %s L0" % L); add("map3 inc %s L1 I7" % L)
        for p in ("pos", "evenp", "tt", "ff"):
            add("filter %s %s" % (p, L))
            add("take_while %s %s" % (p, L)); add("drop_while %s %s" % (p, L))
        add("filter3 pos %s L1 I7" % L); add("take_while3 lt2 %s L1 I7" % L); add("drop_while3 lt2 %s L1 I7" % L)
        add("take_while lt2 " + L); add("drop_while lt2 " + L); add("drop_while ne0 " + L)
        add("foldl sub %s I10" % L); add("foldl add %s I0" % L); add("foldl fst %s I9" % L)
        add("sum " + L); add("product " + L)
        for p in ("pos", "ff", "evenp"):
            add("any_of %s %s" % (p, L))
        for p in ("pos", "tt", "lt2"):
            add("all_of %s %s" % (p, L))
        add("contains3 eq %s I2" % L); add("contains3 eq %s I5" % L); add("contains3 lt %s I0" % L)
        add("contains %s I2" % L); add("contains %s I-1" % L); add("contains %s Sa" % L)
        add("find3 eq %s I2" % L); add("find3 lt %s I0" % L); add("find3 ne %s I-1" % L)
        add("find %s I2" % L); add("find %s I0" % L); add("find %s Sa" % L)
        for k in counts(n):
            add("take %s I%d" % (L, k)); add("drop %s I%d" % (L, k))
        for k in sorted({1, n}):
            add("take3 %s I%d L1 I7" % (L, k)); add("drop3 %s I%d L1 I7" % (L, k))
        for m in partners:
            add("concat %s %s" % (L, tok(m)))
            add("zip_with sub %s %s" % (L, tok(m))); add("zip %s %s" % (L, tok(m)))
        add("zip_with add %s %s" % (tok([5, 6]), L)); add("zip_with4 sub %s %s L1 I7" % (L, tok([5, -1, 3])))
        add("zip %s %s" % (L, tok(["a", "b", "", "a", "b", "", "a"]))); add("concat %s %s" % (tok([5]), L))
        add("join %s S,_" % L); add("join %s S" % L)
        add("reverse " + L); add("retro " + L); add("retro_back " + L)
        for cb in ("sub", "add", "fst"):
            add("reduce %s %s" % (cb, L))
        add("to_string " + L)
    for l in lists(STR_ALPHA, NS):
        L, n = tok(l), len(l)
        add("for_each id " + L); add("map dup " + L)
        for p in ("isa", "nonempty"):
            add("filter %s %s" % (p, L)); add("any_of %s %s" % (p, L)); add("all_of %s %s" % (p, L))
            add("take_while %s %s" % (p, L)); add("drop_while %s %s" % (p, L))
        add("foldl add %s S" % L); add("reduce add " + L); add("reduce snd " + L)
        add("contains %s Sa" % L); add("contains %s Sc" % L); add("contains %s I2" % L); add("contains3 ne %s Sa" % L)
        add("find %s Sb" % L); add("find3 eq %s S" % L)
        for k in counts(n):
            add("take %s I%d" % (L, k)); add("drop %s I%d" % (L, k))
        for m in spartners:
            add("concat %s %s" % (L, tok(m))); add("zip %s %s" % (L, tok(m))); add("zip_with add %s %s" % (L, tok(m)))
        add("zip %s %s" % (tok([1, 2, 3]), L))
        add("join %s S-" % L); add("join %s S" % L); add("reverse " + L); add("retro " + L); add("to_string " + L)
    for l in lists(CHR_ALPHA, NS + 1):
        s, n = "S" + "".join(l), len(l)
        add("for_each id " + s); add("filter isa " + s); add("drop_while isa " + s); add("reverse " + s)
        for k in counts(n):
            add("take %s I%d" % (s, k)); add("drop %s I%d" % (s, k))
        add("concat %s Sxy" % s); add("concat Sx " + s)
    ws = list(lists(WS_ALPHA, 3 if tier == "quick" else 5)) + list(lists(["a", "_", "~"], 4 if tier == "quick" else 6))
    for l in ws:
        s = "S" + "".join(l)
        add("ltrim " + s); add("rtrim " + s); add("trim " + s)
    for _ in range(200 if tier == "quick" else 3000):
        s = "S" + "".join(rnd.choice(WS_ALPHA + ["b", "_", "_"]) for _ in range(rnd.randint(4, 9)))
        add(rnd.choice(["ltrim ", "rtrim ", "trim "]) + s)
    R = range(-2, 4)
    for x in R:
        for y in R:
            add("generate_range I%d I%d" % (x, y)); add("inline_range I%d I%d" % (x, y))
            add("max I%d I%d" % (x, y)); add("min I%d I%d" % (x, y))
        add("generate_range3 I%d I2 L1 I9" % x); add("generate_range3 I0 I%d L0" % x)
    for x in list(range(-7, 8)) + [2147483647, -2147483647, 2147483646, -2147483646, 1000001, -1000001]:
        add("odd I%d" % x); add("even I%d" % x)
    add("max I2147483647 I-2147483647"); add("min I2147483647 I-2147483647")
    nested = [[[1, 2], [], [3]], [(1, "a"), (2, "b")], ([1, 2], "x"), (1, (2, 3)), [[["a"]], []], [True, False], (True, "t"), [[(1, 2)], [(3, 4), (5, 6)]]]
    for v in nested:
        add("to_string " + tok(v))
    for l in lists([[], [1], [0, 2]], 2 if tier == "quick" else 3):
        add("to_string " + tok(l)); add("reverse " + tok(l)); add("concat %s %s" % (tok(l), tok([[9]])))
    return cases


def agree(impl, other):
    """implementation observation vs a model observation (mechanism or specification)"""
    if other.startswith("ERR(guard)"):
        cls, _, tr = impl.partition(" ")
        return cls in ("ERR(eval_error)", "ERR(dispatch_error)") and tr == other.partition(" ")[2]
    if other.startswith("ERR(range)"):
        cls, _, tr = impl.partition(" ")
        return cls in ("ERR(std:range_error)", "ERR(eval_error)") and tr == other.partition(" ")[2]
    return impl == other


def satisfies(impl, spec):
    if impl.startswith("SIG(") or impl.startswith("EXIT("):
        return False
    if spec.startswith("NOSPEC"):
        return True
    return agree(impl, spec)


def nontrivial(case):
    """an input of length >= 2 somewhere, or a count/bound argument at a boundary"""
    t = case.split()
    if any(x.startswith("L") and x[1:].isdigit() and int(x[1:]) >= 2 for x in t):
        return True
    if any(x.startswith("S") and len(x) >= 3 for x in t[1:]):
        return True
    return t[0] in ("generate_range", "inline_range", "generate_range3", "odd", "even", "max", "min")


def run(c, cases, hbin, mbin, sbin):
    rc, impl, err = vlib.run_lines(hbin, cases, timeout=3000)
    rc3, specs, err3 = vlib.run_lines(sbin, cases, timeout=3000)
    if mbin:
        rc2, model, err2 = vlib.run_lines(mbin, cases, timeout=3000)
    else:
        model, err2 = [None] * len(cases), ""
    if len(impl) != len(cases) or len(model) != len(cases) or len(specs) != len(cases):
        raise vlib.BuildError("harness/model produced %d/%d/%d lines for %d cases\n%s\n%s\n%s" % (
            len(impl), len(model), len(specs), len(cases), err[-2000:], err2[-2000:], err3[-2000:]))
    seen = set()
    ndis = 0
    for case, i, m, s in zip(cases, impl, model, specs):
        c.cov["evaluations"] += 1
        fn = case.split()[0]
        c.dist[fn] = c.dist.get(fn, 0) + 1
        if s.startswith("BADCASE") or i.startswith("BADCASE"):
            raise vlib.BuildError("malformed case %r: impl=%s spec=%s" % (case, i, s))
        kind = "nospec" if s.startswith("NOSPEC") else "error" if s.startswith("ERR") else "value"
        c.dist["spec:" + kind] = c.dist.get("spec:" + kind, 0) + 1
        if nontrivial(case):
            seen.add(case)
        if m is not None and not m.startswith("NOSPEC") and not agree(i, m):
            ndis += 1
            if ndis <= 20:
                c.disagree("prelude", case, i, m)
        if not satisfies(i, s):
            c.fail("the real prelude function's result / callback trace / inputs-afterwards differ from the functional specification",
                   {"case": case, "impl": i, "spec": s,
                    "format": "<fn> <callback> <values: I int, S string (_ space ~ tab | nl ^ cr), L<n> list, P pair>; observation R=result T=callback trace IN=by-reference inputs afterwards"})
    c.cov["distinct_nontrivial"] += len(seen)
    c.cov["traces_validated_against_impl"] += len(cases)
    c.cov["disagreements_checked"] += len(cases)
    return impl, model, specs


def warm():
    vlib.cxx_build("h_prelude")
    vlib.model_build("preludespec", ["theories/PreludeSpecRun.vo"])
    vlib.model_build("prelude", ["theories/PreludeRun.vo"])


def corpus_cases():
    p = os.path.join(vlib.ROOT, "corpus", "C17.txt")
    return [l.strip() for l in open(p) if l.strip() and not l.startswith("#")]


def check(tier, seed):
    c = vlib.Check("C17", tier, seed)
    c.cov["rule"] = ("cases = (prelude function, callback from the menu, inputs): every vector of length 0..N over ints {-1,0,2} (N=4 quick, 6 thorough) and over "
                     "strings {a,b,''} (N=3/4), every string over {a,space,b} as a char container, trim over {a,space,tab,nl,cr}, counts in {-1,0,1,size-1,size,size+1}, "
                     "ranges over [-2,3]^2, parity incl. negatives and INT_MAX; non-trivial = some container argument has length >= 2 (strings >= 2 chars) or the function "
                     "takes only integer bounds; distinct = distinct case lines")
    c.assumptions = ["callbacks are total functions of their arguments (apart from being recorded); callbacks that throw or mutate the container are out of scope",
                     "typing of each prelude function's parameters (SIGS in t_Prelude.py) is supplied by hand; the dynamically typed dispatch (guards of the form call_exists(range, c), overload choice) is taken as resolved by that typing",
                     "new/clone/range/back_inserter/collate-vector are builtins of the range monad (PreludeDefs.v); their prelude text is pinned by the translator; range views are modelled as the list of remaining elements",
                     "sum/product: integer-valued doubles below 2^53 (exact); C++ int overflow of counters is unreachable for the generated sizes",
                     "maps as containers are not exercised; string::find* wrappers are pinned text over C++ builtins, not modelled",
                     "extraction: ExtrOcamlBasic + ExtrOcamlString, no Extract Constant; OCaml driver does line I/O only"]
    c.prove("Properties_C17", translators=["Prelude"])
    hbin = vlib.cxx_build("h_prelude")
    sbin = vlib.model_build("preludespec", ["theories/PreludeSpecRun.vo"])
    try:
        mbin = vlib.model_build("prelude", ["theories/PreludeRun.vo"])
    except vlib.BuildError as ex:
        mbin = None
        c.broken_ties.append(("correspondence", "prelude: the mechanism model no longer builds from the regenerated prelude", str(ex)[-1500:]))
    corpus = corpus_cases()
    cases = corpus + gen_cases(tier, seed)
    impl, model, specs = run(c, cases, hbin, mbin, sbin)
    for k in (0, len(corpus) + 23, len(cases) // 3, len(cases) // 2, len(cases) - 3):
        c.sample({"case": cases[k], "impl": impl[k], "model_mechanism": model[k], "model_spec": specs[k]})
    return c.finish()


def replay(path):
    r = json.load(open(os.path.join(vlib.ROOT, path) if not os.path.isabs(path) else path))
    if r.get("kind") != "failing-input":
        print("tie-broken replay: the following no longer check:", json.dumps(r.get("no_longer_checks"), indent=1)[:3000])
        return 1
    hbin = vlib.cxx_build("h_prelude")
    sbin = vlib.model_build("preludespec", ["theories/PreludeSpecRun.vo"])
    case = r["failure"]["case"]["case"]
    _, i, _ = vlib.run_lines(hbin, [case])
    _, s, _ = vlib.run_lines(sbin, [case])
    print("case:", case, "\nimpl:", i[0], "\nspec:", s[0])
    ok = satisfies(i[0], s[0])
    print("REPRODUCED" if not ok else "not reproduced")
    return 0 if ok else 1
