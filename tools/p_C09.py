"""C09 — every evaluation leaves the engine's scope/call stack as it found it.
proof: Properties_C09 (shape/growth meta-theorems over the evaluator model, all outcomes).
tie:   evaluator model ⇄ implementation under fault injection (outcome + stdout).
oracle (fault enumeration on the real engine): for a program with N harness-callback invocations, each of the
N+1 fault points x 5 exception kinds: the CHAISCRIPT_VERIF stack-shape hook must report the pre-call shape
(stacks, scopes, call_params, call depth, conversion saves) after eval returns or throws, a fixed probe script
must evaluate normally, and the locals must be exactly the top-level declarations completed before the fault."""
import json, random, re
import vlib, evalcheck as E, gen_prog

KINDS = ["runtime_error", "out_of_range", "boxed", "eval_error", "foreign"]
BASE_SHAPE = "1,1,1,0,0,0"


def warm():
    E.warm()


def count_callbacks(progs):
    """run once without faults with the shape flag to learn how many callback invocations happen"""
    res = E.run_impl(progs, "opt", extra=("shape",))
    out = []
    for r in res:
        m = re.search(r"CBCOUNT (\d+)", r.get("shape", "") or "")
        out.append(int(m.group(1)) if m else 0)
    return out, res


def judge_shape(c, prog, tag, r):
    """r: split_impl dict of a run with the shape flag"""
    sh = r.get("shape", "")
    m = re.match(r"SHAPE (\S+) -> (\S+) PROBE (\S+) LOCALS (\S*) CBCOUNT", sh)
    if "tree" not in r:
        if r.get("parse_error", "").startswith("PARSE-ERR"):
            return
        c.fail("the host process died or hung", {"program": prog, "fault": tag, "observed": r.get("parse_error")})
        return
    if not m:
        c.fail("no shape report", {"program": prog, "fault": tag, "observed": r["raw"][-200:]})
        return
    before, after, probe, locs = m.groups()
    if before != BASE_SHAPE or after != BASE_SHAPE:
        c.fail("stack shape (stacks, scopes, call_params, call depth, saves enabled, saves held) not restored",
               {"program": prog, "fault": tag, "before": before, "after": after, "outcome": r["res"][:120]})
    if probe != "21":
        c.fail("the engine does not evaluate a subsequent script normally", {"program": prog, "fault": tag, "probe": probe})


def gen(tier, seed):
    n = {"quick": 200, "thorough": 2500}[tier]
    progs, stats = gen_prog.programs(seed * 7 + 9, n, max_depth=3, error_rate=0.03, features={"callbacks": 0.35})
    return progs, stats


def sized(tier, rnd):
    """depth/size families: limits and counters inside the engine (call depth, scope depth, nesting of handlers) sit at
    particular sizes, so sizes around powers of two are enumerated rather than sampled"""
    depths = [3, 63, 64, 65, 127, 128, 129, 255, 256, 257, 511, 512, 513, 600, 1023, 1024, 1025] + ([2000, 2500] if tier == "thorough" else [])
    bottoms = ["cb(0)", "throw(1)", "undefined_at_bottom", "cb(0) / 0"]
    out = []
    for d in depths:
        b = rnd.choice(bottoms) if tier == "quick" else None
        for bot in ([b] if b else bottoms):
            out.append("def r(n) { if (n > 0) { 1 + r(n - 1) } else { %s } }; r(%d)" % (bot, d))
        out.append("def ev(n) { if (n > 0) { od(n - 1) } else { cb(2) } }; def od(n) { if (n > 0) { ev(n - 1) } else { cb(1) } }; try { ev(%d) } catch(e) { print(\"c\") }; ev(3)" % d)
        out.append("var l = fun(f, n) { if (n > 0) { f(f, n - 1) } else { cb(n) } }; l(l, %d)" % d)
    for d in (3, 20, 60, 120) + ((250,) if tier == "thorough" else ()):
        out.append("var x = 0; " + "{ var a = 1; " * d + "x = cb(5)" + " }" * d + "; x")
        out.append("var x = 0; " + "try { " * d + "x = cb(5)" + " } catch(e) { throw(e) } finally { x += 1 }" * d + "; x")
        out.append("def n0() { cb(1) }; " + "".join("def n%d() { n%d() }; " % (k, k - 1) for k in range(1, d)) + "n%d()" % (d - 1))
    return out


def run_faults(c, progs, source, fuel=E.FUEL):
    counts, base = count_callbacks(progs)
    seen = 0
    for i, p in enumerate(progs):
        judge_shape(c, p, "none", base[i])
    cases = []
    for i, p in enumerate(progs):
        n = min(counts[i], 12)
        for k in range(1, n + 1):
            for kd in KINDS:
                cases.append((i, "fault=%d:%s" % (k, kd)))
    # implementation under each fault (one run per fault: the harness takes the fault as a per-case flag)
    by_flag = {}
    for i, fl in cases:
        by_flag.setdefault(fl, []).append(i)
    impl = {}
    for fl, idxs in by_flag.items():
        res = E.run_impl([progs[i] for i in idxs], "opt", extra=("shape", fl))
        for i, r in zip(idxs, res):
            impl[(i, fl)] = r
    trees, flags, keys = [], [], []
    for (i, fl), r in impl.items():
        c.cov["evaluations"] += 1
        c.dist[fl.split(":")[1]] = c.dist.get(fl.split(":")[1], 0) + 1
        judge_shape(c, progs[i], fl, r)
        if "tree" in r:
            trees.append(r["tree"]); flags.append(fl); keys.append((i, fl))
    model = E.run_model("mech", trees, hints=False, flags=flags, fuel=fuel)
    nontrivial = set()
    for (i, fl), m in zip(keys, model):
        if m is None:
            continue
        mout, mres = E.split_model(m)
        if mres.startswith("UNSUP") or mres.startswith("FUEL") or mout is None:
            c.dist["unsupported_by_model"] = c.dist.get("unsupported_by_model", 0) + 1
            continue
        r = impl[(i, fl)]
        c.cov["traces_validated_against_impl"] += 1
        if E.canon_obs(r["out"], r["res"]) != E.canon_obs(mout, mres):
            c.disagree("eval under fault", {"program": progs[i], "fault": fl}, E.canon_obs(r["out"], r["res"]), E.canon_obs(mout, mres))
        # the model's own shape after the run must be the base shape too (what the theorem says)
        if "SHAPE 1;1;0" not in E.model_shape(m):
            c.disagree("model shape", {"program": progs[i], "fault": fl}, BASE_SHAPE, E.model_shape(m))
        if "{" in progs[i] and r["res"].startswith("ERR"):
            nontrivial.add((progs[i], fl))
    c.cov["distinct_nontrivial"] += len(nontrivial)
    return counts


def check(tier, seed):
    c = vlib.Check("C09", tier, seed)
    c.cov["rule"] = ("fault points = each of the first 12 invocations of the harness callback cb() of each generated program x 5 exception kinds "
                     "(std::runtime_error, std::out_of_range, Boxed_Value, eval_error, non-std int) plus the fault-free run; non-trivial = the injected exception "
                     "left eval() as an error from inside at least one nested construct; distinct = distinct (program, fault point, kind)")
    c.assumptions = ["stack shape is read through the CHAISCRIPT_VERIF hook ChaiScript_Basic::verif_stack_shape() on the evaluating thread",
                     "the model has no conversion saves: that component is judged on the implementation only",
                     "theorems are about the evaluator model; the tie is the fault-by-fault comparison of outcome and stdout"]
    c.prove("Properties_C09", translators=["NumTables", "OptOrder"])
    if E.bins().get("mech") is None:
        c.broken_ties.append(("correspondence", "eval: mechanism model does not build", E.bins().get("mech_err")))
    corpus = E.corpus("C09.txt")
    run_faults(c, corpus, "corpus")
    sz = sized(tier, random.Random(seed * 31 + 5))
    run_faults(c, sz, "sized", fuel=40000)
    c.dist["sized_programs"] = len(sz)
    progs, stats = gen(tier, seed)
    counts = run_faults(c, progs, "generated")
    c.dist["programs"] = len(progs) + len(corpus)
    c.dist["callback_invocations_total"] = sum(counts)
    c.dist.update({"construct:" + k: v for k, v in stats.items() if k in ("try", "callback", "lambda", "def", "switch", "for-optimizable")})
    c.cov["explanation"] = "fault enumeration: %d programs, every callback invocation (up to 12 per program) x %d exception kinds" % (len(progs) + len(corpus), len(KINDS))
    for k in (0, len(progs) // 2):
        c.sample({"program": progs[k][:500], "callback_invocations": counts[k]})
    return c.finish()


def replay(path):
    r = json.load(open(path))
    if r.get("kind") != "failing-input":
        print(json.dumps(r, indent=1)[:3000]); return 1
    case = r["failure"]["case"]
    c = vlib.Check("C09", "quick", 0)
    fl = case.get("fault", "none")
    res = E.run_impl([case["program"]], "opt", extra=("shape",) + ((fl,) if fl != "none" else ()))
    judge_shape(c, case["program"], fl, res[0])
    print("REPRODUCED" if c.failures else "not reproduced", json.dumps(c.failures[:1], indent=1))
    return 1 if c.failures else 0
