"""C11 — objects live exactly as long as something refers to them.

proof:  Properties_C11 (reference-counting machine of LifeDefs: every operation sequence; ownership routes regenerated
        from boxed_value.hpp / handle_return.hpp by t_Ownership)
tie:    translator (every run) + correspondence: a seeded generator builds programs over an instrumented C++ class
        `Tracked`; every program is rendered BOTH as ChaiScript text (run by harness/h_life under ASan+UBSan) AND as an
        operation history of the Coq machine (run by the extracted LifeRun = mechanism, tables from the source, and
        LifeSpecRun = specification); the live-object count at every checkpoint, inside every registered C++ function,
        after engine destruction and after the C++ side released its handles is compared.
oracle: the implementation against the *specification* run: TOUCH-AFTER-DESTROY / DOUBLE-DESTROY / sanitizer death,
        a count that differs from the specified one (alive after the last referrer is gone / dead while referred),
        objects left after engine destruction without a script-made cycle.

The rendering of a program as machine operations (class Exec) is an abstract evaluator that mirrors where the engine
keeps Boxed_Value handles (scopes, call_params of the scope, conversion saves, temporaries, container slots, captures);
it is validated by this very comparison on every run."""
import json, os, random, sys
import vlib

FLAVOR = "asan"
ASAN_ENV = {"ASAN_OPTIONS": "detect_stack_use_after_return=1:detect_leaks=0:abort_on_error=0", "UBSAN_OPTIONS": "halt_on_error=1"}
BULK_ENV = dict(ASAN_ENV, ASAN_OPTIONS=ASAN_ENV["ASAN_OPTIONS"] + ":symbolize=0")     # reports are symbolised only in replays
FINDING_KEY = "chaiscript_eval.hpp:Ranged_For_AST_Node:element-reference"
FINDING_KEY_REF = "handle_return.hpp:Handle_Return<T&>:reference-into-temporary-owner"

# rshape indices = position in LifeDefs.all_rshapes
RS = {n: i for i, n in enumerate(["RValue", "RValueTrivial", "RCValue", "RRef", "RCRef", "RPtr", "RCPtr", "RPtrRef", "RCPtrRef", "RShared", "RSharedRef",
                                  "RSharedCRef", "RUnique", "RBoxed", "RCBoxed", "RBoxedRef", "RBoxedCRef", "RBoxedNumber", "RCBoxedNumber", "RVoid"])}

# Data::m_return_value of a value returned with each shape (LifeDefs.spec_ret)
SPEC_RV = {RS["RValue"]: True, RS["RValueTrivial"]: True, RS["RCValue"]: False, RS["RRef"]: False, RS["RCRef"]: True, RS["RPtr"]: True, RS["RCPtr"]: True,
           RS["RPtrRef"]: True, RS["RCPtrRef"]: True, RS["RShared"]: True, RS["RSharedRef"]: True, RS["RSharedCRef"]: True, RS["RUnique"]: True,
           RS["RBoxed"]: False, RS["RCBoxed"]: False, RS["RBoxedRef"]: False, RS["RBoxedCRef"]: False}

# registered C++ functions that produce a Tracked: name -> (return shape, takes an argument?, makes a new object?)
FACTORIES = {"make_value": "RValue", "make_cvalue": "RCValue", "make_sp": "RShared", "make_up": "RUnique"}
REFFNS = {"ref_of": "RRef", "cref_of": "RCRef", "ptr_of": "RPtr", "cptr_of": "RCPtr", "sp_of": "RShared", "bv_of": "RBoxed", "copy_of": "RValue"}
CXXFNS = {"cxx_ref": "RRef", "cxx_sp": "RShared", "cxx_csp": "RSharedCRef", "cxx_ptr": "RPtr"}
PARAMFNS = ["by_value", "by_ref", "by_cref", "by_ptr", "by_cptr", "by_sp", "by_csp", "by_spref", "by_bv"]


# ------------------------------------------------------------------------------------------------
# paths
# ------------------------------------------------------------------------------------------------
def p_var(d, n): return (0, d, n, ())
def p_tmp(k): return (1, k, 0, ())
def p_par(l, k): return (2, l, k, ())
def p_conv(k): return (3, k, 0, ())
def p_cxx(k): return (4, k, 0, ())
def slot(p, k): return (p[0], p[1], p[2], p[3] + (k,))
def enc(p): return [p[0], p[1], p[2], len(p[3])] + list(p[3])


class Data:
    """the shared Boxed_Value::Data block of a handle: carries the return-value flag"""
    def __init__(self, rv=False):
        self.rv = rv       # False | True | ("s", shape index)


class Struct:
    """python-side shape of an engine object (shared between aliases)"""
    def __init__(self, kind):
        self.kind = kind          # V vector, M map, O dynamic object, F closure, B bound function, W Owner, P map pair
        self.slots = {}           # key -> (slot number, Data, kind, Struct|None)
        self.next = 0
        self.order = []           # keys in order (vectors: list of keys)
        self.body = None          # closures: (param names, body block, capture names)
        self.fn = None            # bound functions: C++ function name

    def add(self, key, data, kind="T", st=None):
        n = self.next
        self.next += 1
        self.slots[key] = (n, data, kind, st)
        self.order.append(key)
        return n


class Var:
    def __init__(self, path, kind, data, st=None, borrowed=False):
        self.path, self.kind, self.data, self.st, self.borrowed = path, kind, data, st, borrowed


class Val:
    def __init__(self, path, kind, data, st=None, borrowed=False):
        self.path, self.kind, self.data, self.st, self.borrowed = path, kind, data, st, borrowed


class Unwind(Exception):
    def __init__(self, what, val=None):
        self.what, self.val = what, val    # 'throw' | 'return' | 'break' | 'continue'


# ------------------------------------------------------------------------------------------------
# the abstract evaluator: program -> operation history
# ------------------------------------------------------------------------------------------------
class Exec:
    def __init__(self, opt):
        self.opt = opt
        self.ops = []
        self.names = []          # what each Live event of the model corresponds to (cp:label / in:fn / end / final)
        self.scopes = [{}]       # name -> Var
        self.depth = 0
        self.plevels = [0]       # depths that own a call_params list
        self.calls = 0
        self.tk = 0
        self.pk = 0
        self.ck = 0
        self.xk = 0
        self.nvar = [0]
        self.funcs = {}          # script functions: name -> (params, body)
        self.kept = []           # what the C++ side keeps: list of cxx paths
        self.cxx_owned = None
        self.flags = {}          # script-level booleans known to the evaluator (global names -> bool)
        self.retslots = []
        self.iters = {}

    # ---- emission
    def emit(self, *xs):
        for x in xs:
            if isinstance(x, tuple):
                self.ops.extend(enc(x))
            else:
                self.ops.append(int(x))

    def tmp(self):
        self.tk += 1
        return p_tmp(self.tk)

    def live(self, name):
        self.emit(12)
        self.names.append(name)

    def lvl(self):
        return self.plevels[-1]

    def call_begin(self):
        self.emit(9, self.lvl())
        self.calls += 1

    def call_end(self):
        self.emit(10, self.lvl())
        self.calls -= 1

    def save(self, v):
        """fpp.save_params: the scope's call_params list gets a copy of the handle"""
        self.pk += 1
        self.emit(1, v.path, p_par(self.lvl(), self.pk))

    def push(self, owns_params=True):
        self.emit(7)
        self.depth += 1
        self.scopes.append({})
        self.nvar.append(0)
        if owns_params:
            self.plevels.append(self.depth)
        return owns_params

    def pop(self, owns_params=True):
        self.emit(8)
        if owns_params:
            assert self.plevels[-1] == self.depth
            self.plevels.pop()
        self.depth -= 1
        self.scopes.pop()
        self.nvar.pop()

    def newvar(self, name, kind, data, st=None, borrowed=False):
        n = self.nvar[-1]
        self.nvar[-1] += 1
        v = Var(p_var(self.depth, n), kind, data, st, borrowed)
        self.scopes[-1][name] = v
        return v

    def lookup(self, name):
        for sc in reversed(self.scopes):
            if name in sc:
                return sc[name]
        raise KeyError(name)

    def rvcode(self, data):
        if data.rv is True:
            return [1]
        if data.rv is False:
            return [0]
        return [2, data.rv[1]]

    def bind(self, v, dst, site="direct"):
        """clone_if_necessary + store (HBind).  A real clone runs the script function clone(x): its guard leaves the source
        handle in the current call_params list (both parsers); its body is scopeless only with the optimizer, and then leaves
        the result handle there as well.  Inside the prelude's push_back (site="push_back") the unoptimised body has its own
        list, so nothing of the clone stays behind; the optimised one is scopeless and saves into the caller's list."""
        # a real clone makes calls (Function_Push_Pop): pending conversion saves move to the current list, and when
        # the call depth was 0 the list is cleared afterwards.  Whether a value is a return value is looked up in the
        # specified flags here; the operation itself (HBind) decides from the flags of the run.
        rv = v.data.rv if isinstance(v.data.rv, bool) else SPEC_RV[v.data.rv[1]]
        bounce = not rv
        if bounce:
            self.call_begin()
        self.emit(21, *self.rvcode(v.data))
        self.emit(v.path, dst)
        ss = sr = None
        if site == "direct":
            self.pk += 1
            ss = p_par(self.lvl(), self.pk)
        if self.opt:
            self.pk += 1
            sr = p_par(self.lvl(), self.pk)
        for x in (ss, sr):
            if x is None:
                self.emit(0)
            else:
                self.emit(1, x)
        if v.path[0] == 1:
            self.emit(5, v.path)       # the Boxed_Value passed to clone_if_necessary dies when it returns
        if bounce:
            self.call_end()
        v.data.rv = False         # clone_if_necessary / reset_return_value: the shared Data block is no longer a temporary

    def clone_saves(self, src, res_path):
        """same bookkeeping for the clone of a container (a new container sharing the element handles)"""
        bounce = True
        if bounce:
            self.call_begin()
        self.save(src)
        if self.opt:
            self.pk += 1
            self.emit(1, res_path, p_par(self.lvl(), self.pk))
        if bounce:
            self.call_end()

    # ---- expressions (result: Val whose handle sits in a temporary)
    def ev(self, e):
        k = e[0]
        return getattr(self, "ev_" + k)(*e[1:])

    def ev_clean(self, e):
        """evaluate e; only the resulting handle survives (the C++ temporaries of the sub-expressions are gone when
        the value is used: they matter when the consumer runs nested statements, e.g. a loop body or a function body)"""
        keep = self.tmp()
        base = self.tk
        v = self.ev(e)
        self.emit(4, v.path, keep)
        self.emit(11, base + 1)
        return Val(keep, v.kind, v.data, v.st, v.borrowed)

    def ev_var(self, name):
        v = self.lookup(name)
        t = self.tmp()
        self.emit(1, v.path, t)
        return Val(t, v.kind, v.data, v.st, v.borrowed)

    def ev_ctor(self, n):
        self.call_begin()
        t = self.tmp()
        self.emit(20, RS["RValue"], 0, t)
        self.call_end()
        return Val(t, "T", Data(("s", RS["RValue"])))

    def ev_factory(self, name, n):
        self.call_begin()
        self.live("in:" + name)
        t = self.tmp()
        self.emit(20, RS[FACTORIES[name]], 0, t)
        self.call_end()
        return Val(t, "T", Data(("s", RS[FACTORIES[name]])))

    def ev_cxx(self, name):
        self.call_begin()
        self.live("in:" + name)
        t = self.tmp()
        self.emit(20, RS[CXXFNS[name]], 1, self.cxx_owned, t)
        self.call_end()
        sh = CXXFNS[name]
        return Val(t, "T", Data(("s", RS[sh])), None, borrowed=sh in ("RRef", "RPtr"))

    def ev_reffn(self, name, arg, saving=True):
        self.call_begin()
        a = self.ev(arg)
        if saving:
            self.save(a)
        self.live("in:" + name)
        t = self.tmp()
        sh = REFFNS[name]
        if name == "copy_of":
            self.emit(6, a.path)
            self.emit(20, RS[sh], 0, t)
        else:
            self.emit(20, RS[sh], 1, a.path, t)
        self.call_end()
        if name == "bv_of":
            return Val(t, a.kind, a.data, a.st, a.borrowed)
        return Val(t, "T", Data(("s", RS[sh])), None, borrowed=sh in ("RRef", "RCRef", "RPtr", "RCPtr") or (name != "copy_of" and a.borrowed))

    def ev_elem(self, cexpr, key):
        """c[key] for a vector (key = index) or a map (key = string) : Array_Call"""
        self.call_begin()
        c = self.ev(cexpr)
        self.save(c)
        t = self.tmp()
        n, data, kind, st = c.st.slots[c.st.order[key] if c.st.kind == "V" else key]
        src = slot(c.path, n)
        if c.st.kind == "M":
            src = slot(src, 0)       # the mapped value inside the pair
        self.emit(1, src, t)
        self.call_end()
        return Val(t, kind, data, st)

    def ev_attr(self, oexpr, name):
        """o.name : Dot_Access on a Dynamic_Object attribute, a pair's second, or the member of an Owner"""
        self.call_begin()
        o = self.ev(oexpr)
        self.save(o)
        t = self.tmp()
        n, data, kind, st = o.st.slots[name]
        if o.st.kind == "W":
            # fun(&Owner::inner): Handle_Return<Tracked &>: a reference to the member
            self.emit(20, RS["RRef"], 1, slot(o.path, n), t)
            self.call_end()
            return Val(t, "T", Data(("s", RS["RRef"])), None, borrowed=True)
        self.emit(1, slot(o.path, n), t)
        self.call_end()
        return Val(t, kind, data, st)

    def ev_vec(self, elems):
        """[e1, e2, ...] : Inline_Array clones every element that is not a return value"""
        t = self.tmp()
        self.emit(0, t, 0)
        st = Struct("V")
        for e in elems:
            v = self.ev(e)
            d = Data(False)
            n = st.add(len(st.order), d, v.kind, v.st)
            self.bind(v, slot(t, n))
        return Val(t, "V", Data(False), st)

    def ev_map(self, items):
        """["k": e, ...] : Inline_Map"""
        t = self.tmp()
        self.emit(0, t, 0)
        st = Struct("M")
        for key, e in items:
            v = self.ev(e)
            d = Data(False)
            n = st.add(key, d, v.kind, v.st)
            self.emit(0, slot(t, n), 0)                 # the pair<const string, Boxed_Value> node
            self.bind(v, slot(slot(t, n), 0))
        return Val(t, "M", Data(False), st)

    def ev_owner(self):
        self.call_begin()
        t = self.tmp()
        self.emit(0, t, 0)                 # the Owner object
        st = Struct("W")
        n = st.add("inner", Data(False))
        self.emit(0, slot(t, n), 1)        # its member
        self.call_end()
        return Val(t, "W", Data(("s", RS["RValue"])), st)

    def ev_dynobj(self):
        self.call_begin()
        t = self.tmp()
        self.emit(0, t, 0)
        self.call_end()
        return Val(t, "O", Data(("s", RS["RValue"])), Struct("O"))

    def ev_lambda(self, caps, params, body):
        """fun[caps](params){ body } : the closure object holds a copy of each captured handle"""
        t = self.tmp()
        self.emit(0, t, 0)
        st = Struct("F")
        st.body = (params, body, caps)
        st.borrowed_caps = {}
        for c in caps:
            v = self.lookup(c)
            n = st.add(c, v.data, v.kind, v.st)
            self.emit(1, v.path, slot(t, n))
            st.borrowed_caps[c] = v.borrowed
        return Val(t, "F", Data(False), st)

    def ev_bind(self, fn, arg):
        """bind(fn, x): a Bound_Function holding a copy of the argument handle"""
        self.call_begin()
        a = self.ev(arg)
        self.save(a)
        t = self.tmp()
        self.emit(0, t, 0)
        st = Struct("B")
        st.fn = fn
        n = st.add("a0", a.data, a.kind, a.st)
        self.emit(1, a.path, slot(t, n))
        self.call_end()
        return Val(t, "B", Data(False), st)

    def ev_callv(self, fname, args):
        """f(args) for a closure held in a variable, used as an expression"""
        return self.do_script_call(("clo", fname), args, want=True)

    def ev_call(self, fname, args):
        """call of a script function (def) returning a value"""
        return self.do_script_call(("def", fname), args, want=True)

    # ---- calls
    def cxx_param_call(self, fn, arg, saving):
        """fn(arg) for the registered by_* functions; returns nothing interesting (an int)"""
        self.call_begin()
        seed = arg[0] == "seed"
        if seed:
            # Seed(n) evaluated, then converted: the converted temporary goes to the conversion saves
            self.call_begin(); self.call_end()              # Seed(n) constructor call
            self.ck += 1
            c = p_conv(self.ck)
            a = None
        else:
            a = self.ev(arg)
            if saving:
                self.save(a)
        self.arg_effect(fn, a, seed)
        self.call_end()

    def arg_effect(self, fn, a, seed=False):
        if seed:
            c = p_conv(self.ck)
            self.emit(0, c, 1)                              # Boxed_Value(f(from)) : a new object, kept in the saves
            src = c
        else:
            src = a.path
        if fn == "by_value":
            t = self.tmp()
            self.emit(3, src, t)                            # the by-value parameter object
            self.live("in:" + fn)
            self.emit(6, t)
            self.emit(5, t)
        else:
            self.live("in:" + fn)
            self.emit(6, src)

    def do_script_call(self, target, args, want, saving=True):
        """Fun_Call of a script function / closure: arguments are evaluated, saved, bound as locals of a new frame"""
        self.call_begin()
        avs = [self.ev_clean(a) for a in args]
        if saving:
            for a in avs:
                self.save(a)
        if target[0] == "def":
            params, body = self.funcs[target[1]]
            caps, fval = [], None
        else:
            fval = self.ev(("var", target[1]))
            params, body, caps = fval.st.body
        ret = self.tmp()                                    # where the returned handle will be (reserved before the body runs)
        base = self.tk
        self.retslots.append(ret)
        self.push(owns_params=False)                        # new_stack: a frame without its own call_params list
        for c in caps:
            n, data, kind, st = fval.st.slots[c]
            v = self.newvar(c, kind, data, st, fval.st.borrowed_caps.get(c, False))
            self.emit(1, slot(fval.path, n), v.path)
        for pn, a in zip(params, avs):
            v = self.newvar(pn, a.kind, a.data, a.st, a.borrowed)
            self.emit(1, a.path, v.path)
        rv = None
        try:
            rv = self.block(body, value=True)
            if rv is not None:
                self.emit(4, rv.path, ret)
        except Unwind as u:
            self.retslots.pop()
            if u.what != "return":
                self.pop(owns_params=False)
                self.emit(11, base + 1)
                self.call_end()
                raise
            rv = u.val                                      # already moved to the reserved slot by st_return
            self.retslots.append(ret)
        self.retslots.pop()
        res = None
        if rv is not None:
            res = Val(ret, rv.kind, rv.data, rv.st, rv.borrowed)
        self.pop(owns_params=False)
        self.emit(11, base + 1)
        for a in avs:
            self.emit(5, a.path)        # the argument vector of the Fun_Call node dies when the node returns
        self.call_end()
        return res

    # ---- statements
    def scoped(self, body):
        if not self.opt:
            return True
        return any(s[0] in ("decl", "refdecl", "declplain", "declcall") for s in body)

    def fun_call_saving(self, body, i, in_cloop):
        """does the statement-level Fun_Call number i of this block save its parameters? (optimizer: Unused_Return)"""
        if not self.opt:
            return True
        if in_cloop and not (len(body) == 1 and not self.scoped(body)):
            return False
        return i == len(body) - 1

    def block(self, body, value=False, in_cloop=False, toplevel=False):
        """{ ... } ; returns the value of the last statement when the caller needs it (function bodies)"""
        sc = (not toplevel) and self.scoped(body)
        if sc:
            self.push()
        res = None
        try:
            for i, s in enumerate(body):
                saving = True if toplevel else self.fun_call_saving(body, i, in_cloop)
                last = value and i == len(body) - 1
                r = self.stmt(s, saving, last)
                if last:
                    res = r
        except Unwind:
            if sc:
                self.pop()
            raise
        if sc:
            self.pop()      # the value of the block (a temporary of the evaluator) outlives the scope
        return res

    FUN_CALL_STMTS = ("cxxcall", "callf", "calld", "keep", "cp", "release", "throw", "fail", "reseat", "expr")

    def stmt(self, s, saving=True, want=False):
        base = self.tk
        try:
            kw = {"saving": saving} if s[0] in self.FUN_CALL_STMTS else {}
            r = getattr(self, "st_" + s[0])(*s[1:], **kw)
        except Unwind:
            self.emit(11, base + 1)
            raise
        if want and r is not None:
            return r            # the statement's temporaries stay until the function call that wants the value ends
        self.emit(11, base + 1)
        return None

    def st_cp(self, label, saving=True):
        self.call_begin()
        self.live("cp:" + label)
        self.call_end()

    def st_decl(self, name, e):
        if not self.opt:
            self.call_begin()                   # unoptimised: Equation(Var_Decl, e) has a Function_Push_Pop; optimised: Assign_Decl has none
            try:
                self.st_decl_(name, e)
            finally:
                self.call_end()
        else:
            self.st_decl_(name, e)

    def st_decl_(self, name, e):
        v = self.ev(e)
        d = Data(False)
        nv = self.newvar(name, v.kind, d, v.st, v.borrowed and v.data.rv is not False)
        if v.kind == "T":
            self.bind(v, nv.path)
            if v.data.rv is False:
                nv.borrowed = False
        elif v.kind in ("V", "M"):
            # clone of a container: a new container whose elements share the handles; a temporary is taken over
            if v.data.rv is not False:
                self.emit(4, v.path, nv.path)
            else:
                self.emit(0, nv.path, 0)
                st = Struct(v.kind)
                for key in v.st.order:
                    n0, data, kind, est = v.st.slots[key]
                    n = st.add(key, data, kind, est)
                    self.emit(1, slot(v.path, n0), slot(nv.path, n))
                nv.st = st
                self.clone_saves(v, nv.path)
        elif v.kind in ("F", "B"):
            self.emit(1, v.path, nv.path)       # function objects are shared_ptr-cloned: same object
        elif v.kind in ("O", "W"):
            if v.data.rv is not False:
                self.emit(4, v.path, nv.path)
            else:
                raise NotImplementedError("copy of object variables is not generated")
        else:
            raise NotImplementedError(v.kind)
        v.data.rv = False

    def st_declplain(self, name):
        """var f;  (an undefined variable, assigned later)"""
        self.newvar(name, "U", Data(False))

    def st_refdecl(self, name, e):
        """auto& r = e : the new variable shares the handle"""
        self.call_begin()                                   # Equation
        v = self.ev(e)
        nv = self.newvar(name, v.kind, Data(False), v.st, v.borrowed)
        self.emit(1, v.path, nv.path)
        self.call_end()

    def st_assign_undef(self, name, e):
        """f = e  where f was declared with `var f;` : clone_if_necessary, then the undefined variable takes the value"""
        self.call_begin()
        v = self.ev(e)
        var = self.lookup(name)
        assert var.kind == "U"
        var.kind, var.st, var.data = v.kind, v.st, Data(False)
        if v.kind == "T":
            self.bind(v, var.path)
        else:
            self.emit(1, v.path, var.path)
        self.call_end()

    def st_assign(self, name, e):
        """x = e for an existing Tracked variable: operator= on the objects, in place"""
        self.call_begin()
        v = self.ev(e)
        var = self.lookup(name)
        # the left-hand side is defined: no clone_if_necessary, `=`(Tracked &, const Tracked &) is called directly
        self.emit(6, var.path)
        self.emit(6, v.path)
        self.call_end()

    def st_touch(self, e, member="get"):
        """e.get() / e.set(1) / e.id() : Dot_Access, saves the object"""
        self.call_begin()
        v = self.ev(e)
        self.save(v)
        self.emit(6, v.path)
        self.call_end()

    def st_cxxcall(self, fn, arg, saving=True):
        self.cxx_param_call(fn, arg, saving)

    def st_declcall(self, name, fn, arg):
        """var r = by_x(arg) : the call is an expression (always saves its parameters); the result is an int"""
        if not self.opt:
            self.call_begin()
        self.cxx_param_call(fn, arg, True)
        self.newvar(name, "I", Data(False))
        if not self.opt:
            self.call_end()

    def st_keep(self, e, saving=True):
        self.call_begin()
        v = self.ev(e)
        if saving:
            self.save(v)
        self.live("in:keep")
        self.xk += 1
        c = p_cxx(self.xk)
        self.emit(1, v.path, c)
        self.kept.append(c)
        self.call_end()

    def st_reseat(self, name, n, saving=True):
        """reseat(x, n) for void reseat(std::shared_ptr<Tracked> &p, int n) { p = std::make_shared<Tracked>(n); }
        The shared_ptr lives in the Data block of the Boxed_Value: every handle that shares the block (here: the variable,
        the argument copy of this call and its saved copy) refers to the new object afterwards.  Generated only where no
        other handle shares the block (top level, variable never captured / bound / pushed by reference)."""
        self.call_begin()
        var = self.lookup(name)
        a = self.ev_var(name)
        sharing = [a.path]
        if saving:
            self.pk += 1
            sp = p_par(self.lvl(), self.pk)
            self.emit(1, a.path, sp)
            sharing.append(sp)
        self.live("in:reseat")
        self.emit(22, var.path)
        for p in sharing:
            self.emit(5, p)
            self.emit(1, var.path, p)
        self.live("in:reseated")
        self.call_end()

    def st_release(self, saving=True):
        self.call_begin()
        for c in self.kept:
            self.emit(5, c)
        self.kept = []
        self.live("in:release_kept")
        self.call_end()

    def st_push(self, cname, e, ref=False):
        """c.push_back(e) (clone unless temporary) / c.push_back_ref(e)"""
        self.call_begin()
        c = self.ev(("var", cname))
        v = self.ev(e)
        self.save(c); self.save(v)
        d = v.data if ref else Data(False)
        n = c.st.add(c.st.next, d, v.kind, v.st)
        if ref or v.kind != "T":
            self.emit(1, v.path, slot(c.path, n))
        else:
            # prelude push_back: a script function; inside, x.is_var_return_value() decides
            self.bind(v, slot(c.path, n), site="push_back")
        self.call_end()

    def st_popback(self, cname):
        self.call_begin()
        c = self.ev(("var", cname))
        self.save(c)
        key = c.st.order.pop()
        n = c.st.slots.pop(key)[0]
        self.emit(5, slot(c.path, n))
        self.call_end()

    def st_clear(self, cname):
        self.call_begin()
        c = self.ev(("var", cname))
        self.save(c)
        for key in list(c.st.order):
            n = c.st.slots.pop(key)[0]
            self.emit(5, slot(c.path, n))
        c.st.order = []
        self.call_end()

    def st_erase(self, cname, key):
        """m.erase("k")"""
        self.call_begin()
        c = self.ev(("var", cname))
        self.save(c)
        n = c.st.slots.pop(key)[0]
        c.st.order.remove(key)
        self.emit(5, slot(c.path, n))
        self.call_end()

    def st_mapset(self, cname, key, e):
        """m["k"] = e"""
        self.call_begin()                                   # Equation
        v = self.ev(e)
        self.call_begin()                                   # Array_Call on the left
        c = self.ev(("var", cname))
        self.save(c)
        fresh = key not in c.st.slots
        if fresh:
            n = c.st.add(key, Data(False), v.kind, v.st)
            self.emit(0, slot(c.path, n), 0)                # a new pair node with an undefined value
        n = c.st.slots[key][0]
        self.call_end()
        dst = slot(slot(c.path, n), 0)
        if fresh:
            self.bind(v, dst)
            v.data.rv = False
        else:
            self.assign_in_place(v, dst)
        self.call_end()

    def st_attrset(self, oname, attr, e):
        """o.attr = e"""
        self.call_begin()
        v = self.ev(e)
        self.call_begin()                                   # Dot_Access on the left
        o = self.ev(("var", oname))
        self.save(o)
        fresh = attr not in o.st.slots
        if fresh:
            o.st.add(attr, Data(False), v.kind, v.st)
        n = o.st.slots[attr][0]
        self.call_end()
        dst = slot(o.path, n)
        if fresh:
            self.bind(v, dst)
            v.data.rv = False
        else:
            self.assign_in_place(v, dst)
        self.call_end()

    def assign_in_place(self, v, dst):
        self.emit(6, dst)
        self.emit(6, v.path)

    def st_callf(self, fname, args, saving=True):
        """f(args) for a closure held in a variable; the value is dropped"""
        self.do_script_call(("clo", fname), args, want=False, saving=saving)

    def st_calld(self, fname, args, saving=True):
        self.do_script_call(("def", fname), args, want=False, saving=saving)

    def st_callbound(self, bname):
        """b() for b = bind(fn, x)"""
        self.call_begin()
        b = self.ev(("var", bname))
        n, data, kind, st = b.st.slots["a0"]
        a = Val(slot(b.path, n), kind, data, st)
        self.arg_effect(b.st.fn, a)
        self.call_end()

    def st_block(self, body):
        self.block(body)

    def st_if(self, flag, body, other):
        self.block(body if self.flags[flag] else other)

    def st_cfor(self, ivar, n, body):
        """for (var i = 0; i < n; ++i) { body }"""
        self.push()
        iv = self.newvar(ivar, "I", Data(False))
        self.emit(0, iv.path, 0)                    # the counter: an int owned by the Boxed_Value of the loop variable
        if not self.opt:
            self.call_begin(); self.call_end()      # unoptimised: the init statement `var i = 0` is an Equation
        try:
            for it in range(n + 1):
                self.emit(15, iv.path, it)          # the value of the counter (the loop is left with i == n unless by break)
                if it == n:
                    break
                self.iters[ivar] = it
                try:
                    self.block(body, in_cloop=True)
                except Unwind as u:
                    if u.what == "continue":
                        continue
                    if u.what == "break":
                        break
                    raise
        finally:
            self.pop()

    # ---- loop counters referred to after their loop (value observations)
    def st_refbind(self, keep, ivar):
        """keep := i  : the variable shares the int of the counter"""
        self.call_begin()
        a = self.ev_var(ivar)
        kv = self.lookup(keep)
        if kv.kind != "U":
            self.emit(5, kv.path)
        kv.kind = "I"
        self.emit(1, a.path, kv.path)
        self.call_end()

    def st_cpush(self, vec, mode, ivar):
        """vs.push_back_ref(i) | vs.push_back(i) | vs.push_back(bind(ident, i)) | vs.push_back(fun[i]() { i })"""
        self.call_begin()
        c = self.ev(("var", vec))
        a = self.ev_var(ivar)
        n = c.st.add(c.st.next, Data(False), "IV", mode)
        dst = slot(c.path, n)
        if mode == "ref":
            self.emit(1, a.path, dst)
        elif mode == "copy":
            self.emit(0, dst, 0)
            self.emit(15, dst, self.iters[ivar])
        else:
            self.emit(0, dst, 0)                    # the Bound_Function / closure object
            self.emit(1, a.path, slot(dst, 0))
        self.call_end()

    def st_checkval(self, label, src):
        """checkval(label, e): the int read through the handle"""
        self.call_begin()
        if src[0] == "var":
            p = self.lookup(src[1]).path
        else:
            c = self.lookup(src[1])
            n, data, kind, mode = c.st.slots[c.st.order[src[2]]]
            p = slot(c.path, n) if mode in ("ref", "copy") else slot(slot(c.path, n), 0)
        self.emit(16, p)
        self.names.append("val:" + label)
        self.call_end()

    def st_breakif(self, ivar, it):
        if self.iters[ivar] == it:
            raise Unwind("break")

    def st_continueif(self, ivar, it):
        if self.iters[ivar] == it:
            raise Unwind("continue")

    def st_rfor(self, name, cexpr, body):
        """for (name : cexpr) { body }"""
        c = self.ev_clean(cexpr)           # range_expression_result: a C++ local of the node, alive during the loop
        keys = list(c.st.order)
        try:
            for it, key in enumerate(keys):
                self.iters[name] = it
                self.push()
                n, data, kind, st = c.st.slots[key]
                if c.st.kind == "V":
                    v = self.newvar(name, kind, data, st)
                    self.emit(1, slot(c.path, n), v.path)              # Boxed_Value(loop_var): a handle copy
                else:
                    pst = Struct("P")
                    pst.add("second", data, kind, st)
                    v = self.newvar(name, "P", Data(False), pst, borrowed=True)
                    self.emit(2, slot(c.path, n), v.path)              # Boxed_Value(std::ref(loop_var)): a reference to the pair
                try:
                    self.block(body)
                except Unwind as u:
                    self.pop()
                    if u.what == "continue":
                        continue
                    if u.what == "break":
                        break
                    raise
                self.pop()
        finally:
            pass

    def st_try(self, body, handler):
        self.push()
        depth0, calls0 = self.depth, self.calls
        try:
            try:
                self.block(body)
            except Unwind as u:
                if u.what != "throw":
                    raise
                self.push()
                self.newvar("e", "I", Data(False))
                try:
                    self.block(handler)
                finally:
                    self.pop()
        finally:
            self.pop()

    def st_throw(self, saving=True):
        self.call_begin()
        self.call_end()
        raise Unwind("throw")

    def st_fail(self, saving=True):
        self.call_begin()
        self.call_end()
        raise Unwind("throw")

    def st_return(self, e):
        if e is None:
            raise Unwind("return", None)
        v = self.ev(e)
        ret = self.retslots[-1]
        self.emit(4, v.path, ret)          # the handle travels in the Return_Value exception
        raise Unwind("return", Val(ret, v.kind, v.data, v.st, v.borrowed))

    def st_expr(self, e, saving=True):
        """an expression statement (a direct call f(..) is a Fun_Call: it saves its parameters unless the optimizer made it
        an Unused_Return_Fun_Call); as the last statement of a function body its value is the value of the body"""
        if e[0] == "reffn":
            return self.ev_reffn(e[1], e[2], saving)
        return self.ev(e)

    def st_eval_boundary(self):
        pass

    # ---- whole program
    def run(self, prog):
        self.cxx_owned = p_cxx(0)
        self.emit(0, self.cxx_owned, 1)            # the object the C++ side creates before the engine exists
        self.flags = dict(prog.get("flags", {}))
        for name, (params, body) in prog.get("defs", {}).items():
            self.funcs[name] = (params, body)
        for seg in prog["segments"]:
            try:
                self.block(seg, toplevel=True)
            except Unwind as u:
                pass            # an uncaught script exception ends the segment; the blocks it left have been unwound
            self.emit(11, 0)
        self.emit(13)
        self.live("end")
        self.emit(14)
        self.live("final")
        return " ".join(str(x) for x in self.ops)


# ------------------------------------------------------------------------------------------------
# program -> script text
# ------------------------------------------------------------------------------------------------
def r_expr(e):
    k = e[0]
    if k == "var": return e[1]
    if k == "ctor": return "Tracked(%d)" % e[1]
    if k == "factory": return "%s(%d)" % (e[1], e[2])
    if k == "cxx": return "%s()" % e[1]
    if k == "reffn": return "%s(%s)" % (e[1], r_expr(e[2]))
    if k == "elem": return "%s[%s]" % (r_expr(e[1]), ('"%s"' % e[2]) if isinstance(e[2], str) else str(e[2]))
    if k == "attr": return "%s.%s" % (r_expr(e[1]), e[2])
    if k == "vec": return "[" + ", ".join(r_expr(x) for x in e[1]) + "]"
    if k == "map": return "[" + ", ".join('"%s": %s' % (kk, r_expr(x)) for kk, x in e[1]) + "]"
    if k == "owner": return "Owner()"
    if k == "dynobj": return "Dynamic_Object()"
    if k == "lambda": return "fun[%s](%s) %s" % (", ".join(e[1]), ", ".join(e[2]), r_block(e[3], 0, inline=True))
    if k == "bind": return "bind(%s, %s)" % (e[1], r_expr(e[2]))
    if k in ("call", "callv"): return "%s(%s)" % (e[1], ", ".join(r_expr(a) for a in e[2]))
    if k == "seed": return "Seed(%d)" % e[1]
    raise ValueError(k)


def r_block(body, ind, inline=False):
    pad = "  " * (ind + 1)
    lines = [pad + r_stmt(s, ind + 1) for s in body]
    if inline:
        return "{ " + " ".join(l.strip() for l in lines) + " }"
    return "{\n" + "\n".join(lines) + "\n" + "  " * ind + "}"


def r_stmt(s, ind=0):
    k = s[0]
    if k == "cp": return 'checkpoint("%s");' % s[1]
    if k == "decl": return "var %s = %s;" % (s[1], r_expr(s[2]))
    if k == "declplain": return "var %s;" % s[1]
    if k == "refdecl": return "auto& %s = %s;" % (s[1], r_expr(s[2]))
    if k in ("assign", "assign_undef"): return "%s = %s;" % (s[1], r_expr(s[2]))
    if k == "touch": return "%s.%s;" % (r_expr(s[1]), {"get": "get()", "set": "set(3)", "id": "id()"}[s[2] if len(s) > 2 else "get"])
    if k == "cxxcall": return "%s(%s);" % (s[1], r_expr(s[2]))
    if k == "declcall": return "var %s = %s(%s);" % (s[1], s[2], r_expr(s[3]))
    if k == "keep": return "keep(%s);" % r_expr(s[1])
    if k == "release": return "release_kept();"
    if k == "reseat": return "reseat(%s, %d);" % (s[1], s[2])
    if k == "refbind": return "%s := %s;" % (s[1], s[2])
    if k == "cpush":
        arg = {"ref": s[3], "copy": s[3], "bind": "bind(ident, %s)" % s[3], "clo": "fun[%s]() { %s }" % (s[3], s[3])}[s[2]]
        return "%s.%s(%s);" % (s[1], "push_back_ref" if s[2] == "ref" else "push_back", arg)
    if k == "checkval":
        src = s[2]
        if src[0] == "var":
            ex = src[1]
        else:
            ex = "%s[%d]" % (src[1], src[2]) + ("()" if src[3] in ("bind", "clo") else "")
        return 'checkval("%s", %s);' % (s[1], ex)
    if k == "push": return "%s.%s(%s);" % (s[1], "push_back_ref" if (len(s) > 3 and s[3]) else "push_back", r_expr(s[2]))
    if k == "popback": return "%s.pop_back();" % s[1]
    if k == "clear": return "%s.clear();" % s[1]
    if k == "erase": return '%s.erase("%s");' % (s[1], s[2])
    if k == "mapset": return '%s["%s"] = %s;' % (s[1], s[2], r_expr(s[3]))
    if k == "attrset": return "%s.%s = %s;" % (s[1], s[2], r_expr(s[3]))
    if k == "callf" or k == "calld": return "%s(%s);" % (s[1], ", ".join(r_expr(a) for a in s[2]))
    if k == "callbound": return "%s();" % s[1]
    if k == "block": return r_block(s[1], ind)
    if k == "if": return "if (%s) %s else %s" % (s[1], r_block(s[2], ind), r_block(s[3], ind))
    if k == "cfor": return "for (var %s = 0; %s < %d; ++%s) %s" % (s[1], s[1], s[2], s[1], r_block(s[3], ind))
    if k == "breakif": return "if (%s == %d) { break; }" % (s[1], s[2])
    if k == "continueif": return "if (%s == %d) { continue; }" % (s[1], s[2])
    if k == "rfor": return "for (%s : %s) %s" % (s[1], r_expr(s[2]), r_block(s[3], ind))
    if k == "try": return "try %s catch(e) %s" % (r_block(s[1], ind), r_block(s[2], ind))
    if k == "throw": return "throw(1);"
    if k == "fail": return "fail_here();"
    if k == "return": return "return %s;" % r_expr(s[1]) if s[1] is not None else "return;"
    if k == "expr": return r_expr(s[1])
    raise ValueError(k)


def render(prog, opt):
    out = []
    if not opt:
        out.append("#NOOPT")
    first = True
    for seg in prog["segments"]:
        if not first:
            out.append("#EVAL")
        if first:
            for name, val in prog.get("flags", {}).items():
                out.append("global %s = %s;" % (name, "true" if val else "false"))
            for name, (params, body) in prog.get("defs", {}).items():
                out.append("def %s(%s) %s" % (name, ", ".join(params), r_block(body, 0)))
        first = False
        for s in seg:
            out.append(r_stmt(s))
    return "\n".join(out) + "\n"


# ------------------------------------------------------------------------------------------------
# running
# ------------------------------------------------------------------------------------------------
def parse_obs(line):
    """harness line -> (count-bearing items [(name, count)], faults [str], errs [str])"""
    items, faults, errs = [], [], []
    if line.startswith("SIG(") or line.startswith("EXIT("):
        return None, [line], []
    for it in line.split(" ; "):
        f = it.split(":")
        if f[0] == "cp":
            items.append(("cp:" + f[1], int(f[2])))
        elif f[0] == "in":
            items.append(("in:" + f[1], int(f[2])))
        elif f[0] in ("end", "final"):
            items.append((f[0], int(f[1])))
        elif f[0] == "val":
            items.append(("val:" + f[1], int(f[2])))
        elif f[0] in ("TOUCH-AFTER-DESTROY", "DOUBLE-DESTROY"):
            faults.append(it)
        elif f[0] == "err":
            errs.append(f[1])
    return items, faults, errs


def lower(prog, opt):
    ex = Exec(opt)
    line = ex.run(prog)
    return line, ex.names


def builds():
    hbin = vlib.cxx_build("h_life", flavor=FLAVOR)
    sbin = vlib.model_build("lifespec", ["theories/LifeSpecRun.vo"])
    return hbin, sbin


def run_impl(hbin, scripts, env=None):
    rc, out, err = vlib.run_lines(hbin, [s.encode().hex() for s in scripts], timeout=3000, env=env or ASAN_ENV)
    if len(out) != len(scripts):
        raise vlib.BuildError("h_life produced %d lines for %d cases\n%s" % (len(out), len(scripts), err[-2000:]))
    return out


def run_model(mbin, lines):
    rc, out, err = vlib.run_lines(mbin, lines, timeout=3000)
    if len(out) != len(lines):
        raise vlib.BuildError("model produced %d lines for %d cases\n%s" % (len(out), len(lines), err[-2000:]))
    return out


# ------------------------------------------------------------------------------------------------
# generator
# ------------------------------------------------------------------------------------------------
class SV:
    """static knowledge about a script variable"""
    def __init__(self, kind, region, sp_ok=True, const=False, borrowed=False):
        self.kind, self.region, self.sp_ok, self.const, self.borrowed = kind, region, sp_ok, const, borrowed
        self.size = 0          # vectors: number of elements
        self.keys = []         # maps: keys; objects: attribute names
        self.caps = []         # closures: captured names
        self.params = 0        # closures: number of Tracked parameters
        self.alias = None      # containers: the SV whose structure is shared (auto& / closure capture)
        self.maybe_rv = False  # function parameters: the argument may have been a temporary
        self.reseat_ok = False # the variable's Data block is shared with no other handle (see Exec.st_reseat)

    def root(self):
        return self.alias.root() if self.alias else self


class Gen:
    """seeded generator of programs; all randomness comes from self.rnd"""
    def __init__(self, rnd, features=None):
        self.rnd = rnd
        self.scopes = [{}]
        self.region = 0
        self.n = 0
        self.cpn = 0
        self.defs = {}
        self.flags = {"flag": True, "nope": False}
        self.features = {}
        self.kept = 0
        self.depth_budget = 3
        self.in_func = False
        self.loopvars = []
        self.probe = False

    # ---- helpers
    def feat(self, f):
        self.features[f] = self.features.get(f, 0) + 1

    def name(self, p):
        self.n += 1
        return "%s%d" % (p, self.n)

    def cp(self):
        self.cpn += 1
        return ("cp", "c%d" % self.cpn)

    def vars(self, pred):
        out = []
        seen = set()
        for sc in reversed(self.scopes):
            for nm, sv in sc.items():
                if nm not in seen and pred(sv):
                    out.append((nm, sv))
                seen.add(nm)
        return out

    def declare(self, nm, sv):
        self.scopes[-1][nm] = sv
        return sv

    def tvars(self, owning=None, sp=None, nonconst=None):
        def pred(sv):
            if sv.kind != "T":
                return False
            if owning is not None and sv.borrowed == owning:
                return False
            if sp and not sv.sp_ok:
                return False
            if nonconst and sv.const:
                return False
            return True
        return self.vars(pred)

    def pick(self, xs):
        return xs[self.rnd.randrange(len(xs))]

    def shares_block(self, e):
        """the expression hands the variable's own Boxed_Value (its Data block) to something that keeps it"""
        if e and e[0] == "var":
            for n, sv in self.vars(lambda s: True):
                if n == e[1]:
                    sv.reseat_ok = False
                    return

    # ---- expressions producing a Tracked handle: (expr, sp_ok, const, borrowed-through, rv)
    def texpr(self, allow_temp=True, need_sp=False, need_nonconst=False, allow_borrowed_vars=True):
        opts = []
        tv = [(n, s) for n, s in self.tvars() if (not need_sp or s.sp_ok) and (not need_nonconst or not s.const) and (allow_borrowed_vars or not s.borrowed)]
        if tv:
            opts += ["var"] * 4
        if allow_temp:
            opts += ["ctor", "ctor", "factory"]
        vecs = self.vars(lambda s: s.kind == "V" and s.root().size > 0)
        if vecs and not need_sp:
            opts.append("elem")
        maps = self.vars(lambda s: s.kind == "M" and s.root().keys)
        if maps and not need_sp:
            opts.append("melem")
        objs = self.vars(lambda s: s.kind == "O" and s.root().keys)
        if objs and not need_sp:
            opts.append("attr")
        if not opts:
            opts = ["ctor"]
        k = self.pick(opts)
        if k == "var":
            n, s = self.pick(tv)
            return ("var", n), s.sp_ok, s.const, s.borrowed
        if k == "ctor":
            self.feat("expr:ctor")
            return ("ctor", self.rnd.randrange(1, 9)), True, False, False
        if k == "factory":
            names = ["make_value", "make_sp", "make_cvalue"] + ([] if need_sp else ["make_up"])
            f = self.pick(names)
            self.feat("expr:" + f)
            return ("factory", f, self.rnd.randrange(1, 9)), f != "make_up", False, False
        if k == "elem":
            n, s = self.pick(vecs)
            self.feat("expr:elem")
            return ("elem", ("var", n), self.rnd.randrange(s.root().size)), False, False, False
        if k == "melem":
            n, s = self.pick(maps)
            self.feat("expr:melem")
            return ("elem", ("var", n), self.pick(s.root().keys)), False, False, False
        n, s = self.pick(objs)
        self.feat("expr:attr")
        return ("attr", ("var", n), self.pick(s.root().keys)), False, False, False

    # ---- statements
    def gen_block(self, budget, kind="plain", loopvar=None):
        """a list of statements; the static scope is pushed/popped here"""
        self.scopes.append({})
        body = []
        n = self.rnd.randrange(1, max(2, budget))
        for _ in range(n):
            body += self.gen_stmt(budget - 1, kind, loopvar)
        if kind != "closure" or self.rnd.random() < 0.7:
            body.append(self.cp())
        self.scopes.pop()
        return body

    def frozen_region(self):
        self.region += 1
        return self.region

    def mutable(self, sv):
        return sv.root().region == self.cur_region

    def gen_stmt(self, budget, kind="plain", loopvar=None):
        r = self.rnd
        choices = [("decl", 10), ("touch", 8), ("cxxcall", 10), ("cp", 6), ("alias", 3), ("borrow", 4), ("declcall", 4), ("assign", 2),
                   ("vec", 5), ("map", 4), ("obj", 3), ("owner", 2), ("keep", 3), ("closure", 4), ("bind", 2), ("calldef", 4), ("collect", 3), ("reseat", 5)]
        if budget > 0 and self.depth_budget > 0:
            choices += [("block", 3), ("if", 2), ("cfor", 3), ("rfor", 4), ("try", 3)]
        if loopvar and kind == "cloop":
            choices += [("breakcont", 8)]
        tot = sum(w for _, w in choices)
        x = r.randrange(tot)
        for k, w in choices:
            if x < w:
                break
            x -= w
        return getattr(self, "g_" + k)(budget, loopvar)

    def g_cp(self, budget, lv):
        return [self.cp()]

    def g_decl(self, budget, lv):
        e, sp, cst, bor = self.texpr()
        nm = self.name("x")
        self.feat("decl")
        # a declaration copies unless the value is a temporary: the variable always owns its object
        spok = not (e[0] == "factory" and e[1] == "make_up")
        if e[0] == "var":
            src = [sv for nm0, sv in self.vars(lambda s: True) if nm0 == e[1]][0]
            if src.maybe_rv:
                spok = src.sp_ok      # a parameter bound to a temporary is taken over, not copied
        sv = self.declare(nm, SV("T", self.cur_region, sp_ok=spok))
        sv.reseat_ok = spok and self.cur_region == 0 and not self.in_func
        return [("decl", nm, e)]

    def g_alias(self, budget, lv):
        e, sp, cst, bor = self.texpr(allow_temp=False, allow_borrowed_vars=False)
        if e[0] == "ctor":
            return self.g_decl(budget, lv)
        nm = self.name("r")
        self.feat("alias")
        self.declare(nm, SV("T", self.cur_region, sp_ok=sp, const=cst))
        return [("refdecl", nm, e)]

    def g_borrow(self, budget, lv):
        """a non-owning variable whose lifetime is nested in its owner's: declared in the owner's scope or an inner one"""
        owners = self.tvars(owning=True)
        owners = [(n, s) for n, s in owners if not getattr(s, "is_alias", False)]
        ows = self.vars(lambda s: s.kind == "W")
        k = self.pick(["ptr_of", "cptr_of", "cref_of", "ref_of", "sp_of", "bv_of", "copy_of"] + (["inner"] if ows else []) + ["cxx"])
        nm = self.name("b")
        if k == "cxx":
            f = self.pick(list(CXXFNS))
            self.feat("cxx:" + f)
            if f == "cxx_ref":
                if r_coin(self.rnd):
                    self.declare(nm, SV("T", self.cur_region))        # var c = cxx_ref(): a copy
                    return [("decl", nm, ("cxx", f))]
                self.declare(nm, SV("T", self.cur_region, sp_ok=False, borrowed=True))
                return [("refdecl", nm, ("cxx", f))]
            self.declare(nm, SV("T", self.cur_region, sp_ok=f != "cxx_ptr", borrowed=f == "cxx_ptr"))
            return [("decl", nm, ("cxx", f))]
        if k == "inner":
            n, s = self.pick(ows)
            self.feat("borrow:member")
            if r_coin(self.rnd):
                self.declare(nm, SV("T", self.cur_region, sp_ok=False, borrowed=True))
                return [("refdecl", nm, ("attr", ("var", n), "inner"))]
            self.declare(nm, SV("T", self.cur_region))
            return [("decl", nm, ("attr", ("var", n), "inner"))]
        if not owners:
            return self.g_decl(budget, lv)
        n, s = self.pick(owners)
        if k not in ("copy_of", "sp_of", "bv_of"):
            s.reseat_ok = False          # a non-owning handle to the object the variable owns now exists
        self.feat("borrow:" + k)
        if k in ("sp_of",) and not s.sp_ok:
            k = "ptr_of"
        if k == "ref_of":
            if s.const:
                k = "cref_of"
            else:
                self.declare(nm, SV("T", self.cur_region, sp_ok=False, borrowed=True))
                return [("refdecl", nm, ("reffn", k, ("var", n)))]
        if k == "ptr_of" and s.const:
            k = "cptr_of"
        if k in ("ptr_of", "cptr_of", "cref_of"):
            self.declare(nm, SV("T", self.cur_region, sp_ok=False, const=k != "ptr_of", borrowed=True))
        elif k == "sp_of":
            self.declare(nm, SV("T", self.cur_region, sp_ok=True, const=s.const))
        elif k == "bv_of":
            # var b = bv_of(x): the Boxed_Value itself comes back; a copy unless x is a parameter bound to a temporary
            self.declare(nm, SV("T", self.cur_region, sp_ok=s.sp_ok if s.maybe_rv else True))
        else:
            self.declare(nm, SV("T", self.cur_region))
        return [("decl", nm, ("reffn", k, ("var", n)))]

    def g_touch(self, budget, lv):
        e, sp, cst, bor = self.texpr(allow_temp=self.rnd.random() < 0.2)
        self.feat("touch")
        m = self.pick(["get", "id"] + ([] if cst else ["set"]))
        return [("touch", e, m)]

    def param_call(self):
        fn = self.pick(PARAMFNS)
        need_sp = fn in ("by_sp", "by_csp", "by_spref")
        need_nc = fn in ("by_ref", "by_ptr", "by_spref")
        if fn in ("by_value", "by_cref", "by_ref") and self.rnd.random() < 0.25:
            self.feat("arg:converted")
            return fn, ("seed", self.rnd.randrange(1, 9))
        e, sp, cst, bor = self.texpr(need_sp=need_sp, need_nonconst=need_nc)
        if e[0] == "factory" and e[1] == "make_up" and need_sp:
            e = ("ctor", 1)
        self.feat("param:" + fn)
        return fn, e

    def g_cxxcall(self, budget, lv):
        fn, e = self.param_call()
        return [("cxxcall", fn, e)]

    def g_declcall(self, budget, lv):
        fn, e = self.param_call()
        nm = self.name("n")
        self.declare(nm, SV("I", self.cur_region))
        self.feat("declcall")
        return [("declcall", nm, fn, e)]

    def g_assign(self, budget, lv):
        tv = [(n, s) for n, s in self.tvars(owning=True, nonconst=True)]
        if not tv:
            return self.g_decl(budget, lv)
        n, s = self.pick(tv)
        e, sp, cst, bor = self.texpr()
        self.feat("assign")
        return [("assign", n, e)]

    def g_reseat(self, budget, lv):
        """reseat(x, n) on a variable whose Data block nothing else shares, followed by uses of x through several
        parameter shapes (const and non-const access paths) and member functions"""
        cands = [(n, s) for n, s in self.tvars(owning=True, sp=True, nonconst=True) if s.reseat_ok and s.region == 0]
        if self.in_func or self.cur_region != 0 or not cands:
            return self.g_decl(budget, lv)
        n, s = self.pick(cands)
        self.feat("reseat")
        out = [("reseat", n, self.rnd.randrange(1, 9))]
        uses = ["by_cref", "by_cptr", "by_value", "by_bv", "by_ref", "by_ptr", "by_sp", "by_csp", "by_spref", "get", "id", "set"]
        self.rnd.shuffle(uses)
        for u in uses[: self.rnd.randrange(2, 6)]:
            self.feat("reseat:then-" + u)
            if u in ("get", "id", "set"):
                out.append(("touch", ("var", n), u))
            elif self.rnd.random() < 0.3:
                nm = self.name("n")
                self.declare(nm, SV("I", self.cur_region))
                out.append(("declcall", nm, u, ("var", n)))
            else:
                out.append(("cxxcall", u, ("var", n)))
        if self.rnd.random() < 0.5:
            out.append(self.cp())
        return out

    def g_keep(self, budget, lv):
        if self.kept and self.rnd.random() < 0.4:
            self.kept = 0
            self.feat("release")
            return [("release",)]
        tv = self.tvars(sp=True)
        self.kept += 1
        self.feat("keep")
        if tv and self.rnd.random() < 0.6:
            return [("keep", ("var", self.pick(tv)[0]))]
        return [("keep", ("factory", "make_sp", self.rnd.randrange(1, 9)))]

    def g_vec(self, budget, lv):
        vecs = self.vars(lambda s: s.kind == "V")
        if not vecs or self.rnd.random() < 0.2:
            nm = self.name("v")
            if vecs and self.rnd.random() < 0.3:
                n0, s0 = self.pick(vecs)
                sv = self.declare(nm, SV("V", self.cur_region))
                sv.size = s0.root().size
                self.feat("vec:copy")
                return [("decl", nm, ("var", n0))]
            k = self.rnd.randrange(0, 4)
            elems = [self.texpr()[0] for _ in range(k)]
            sv = self.declare(nm, SV("V", self.cur_region))
            sv.size = k
            self.feat("vec:literal")
            return [("decl", nm, ("vec", elems))]
        n, s = self.pick(vecs)
        rt = s.root()
        ops = ["use"]
        if self.mutable(s):
            ops += ["push", "push", "pushref"] + (["pop", "clear"] if rt.size else [])
        op = self.pick(ops)
        self.feat("vec:" + op)
        if op == "push":
            e = self.texpr()[0]
            rt.size += 1
            return [("push", n, e)]
        if op == "pushref":
            tv = self.tvars(owning=True)
            if not tv:
                rt.size += 1
                return [("push", n, ("ctor", 2))]
            rt.size += 1
            e = ("var", self.pick(tv)[0])
            self.shares_block(e)
            return [("push", n, e, True)]
        if op == "pop":
            rt.size -= 1
            return [("popback", n)]
        if op == "clear":
            rt.size = 0
            return [("clear", n)]
        if rt.size:
            return [("touch", ("elem", ("var", n), self.rnd.randrange(rt.size)), "get")]
        return [self.cp()]

    def g_map(self, budget, lv):
        maps = self.vars(lambda s: s.kind == "M")
        if not maps or self.rnd.random() < 0.2:
            nm = self.name("m")
            if maps and self.rnd.random() < 0.3:
                n0, s0 = self.pick(maps)
                sv = self.declare(nm, SV("M", self.cur_region))
                sv.keys = list(s0.root().keys)
                self.feat("map:copy")
                return [("decl", nm, ("var", n0))]
            ks = ["k%d" % i for i in range(self.rnd.randrange(1, 3))]
            items = [(k, self.texpr()[0]) for k in ks]
            sv = self.declare(nm, SV("M", self.cur_region))
            sv.keys = list(ks)
            self.feat("map:literal")
            return [("decl", nm, ("map", items))]
        n, s = self.pick(maps)
        rt = s.root()
        ops = ["use"]
        if self.mutable(s):
            ops += ["set", "set"] + (["erase", "clear", "overwrite"] if rt.keys else [])
        op = self.pick(ops)
        self.feat("map:" + op)
        if op == "set":
            k = "k%d" % len(rt.keys) if ("k%d" % len(rt.keys)) not in rt.keys else self.name("q")
            e = self.texpr()[0]
            rt.keys.append(k)
            return [("mapset", n, k, e)]
        if op == "overwrite":
            return [("mapset", n, self.pick(rt.keys), self.texpr()[0])]
        if op == "erase":
            k = self.pick(rt.keys)
            rt.keys.remove(k)
            return [("erase", n, k)]
        if op == "clear":
            rt.keys = []
            return [("clear", n)]
        if rt.keys:
            return [("touch", ("elem", ("var", n), self.pick(rt.keys)), "get")]
        return [self.cp()]

    def g_obj(self, budget, lv):
        objs = self.vars(lambda s: s.kind == "O")
        if not objs or self.rnd.random() < 0.15:
            nm = self.name("o")
            self.declare(nm, SV("O", self.cur_region))
            self.feat("obj:new")
            return [("decl", nm, ("dynobj",))]
        n, s = self.pick(objs)
        rt = s.root()
        if self.mutable(s) and (not rt.keys or self.rnd.random() < 0.6):
            a = "a%d" % len(rt.keys) if self.rnd.random() < 0.7 or not rt.keys else self.pick(rt.keys)
            e = self.texpr()[0]
            if a not in rt.keys:
                rt.keys.append(a)
            self.feat("obj:set")
            return [("attrset", n, a, e)]
        if rt.keys:
            self.feat("obj:use")
            return [("touch", ("attr", ("var", n), self.pick(rt.keys)), "get")]
        return [self.cp()]

    def g_owner(self, budget, lv):
        ows = self.vars(lambda s: s.kind == "W")
        if not ows or self.rnd.random() < 0.2:
            nm = self.name("w")
            self.declare(nm, SV("W", self.cur_region))
            self.feat("owner:new")
            return [("decl", nm, ("owner",))]
        if self.rnd.random() < 0.35:
            self.feat("owner:member-of-temporary")
            return [("touch", ("attr", ("owner",), "inner"), self.pick(["get", "id", "set"]))]
        self.feat("owner:use")
        return [("touch", ("attr", ("var", self.pick(ows)[0]), "inner"), "get")]

    def closure_expr(self, budget, extra_caps=(), pairs=(), noparams=False):
        """fun[caps](params) { body }: captures owning variables (never non-owning ones)"""
        cands = [n for n, s in self.tvars(owning=True)] + [n for n, s in self.vars(lambda s: s.kind in ("V", "M", "O"))]
        self.rnd.shuffle(cands)
        caps = list(extra_caps) + [c for c in cands[: self.rnd.randrange(0, 3)] if c not in extra_caps]
        for c in caps:
            self.shares_block(("var", c))
        nparams = 0 if noparams else self.rnd.randrange(0, 2)
        params = [self.name("p") for _ in range(nparams)]
        saved, saved_region = self.scopes, self.cur_region
        env = {}
        for c in caps:
            s0 = [s for n, s in self.vars(lambda s: True) if n == c][0]
            s1 = SV(s0.kind, -1, s0.sp_ok, s0.const, s0.borrowed)
            s1.alias = s0.root() if s0.kind in ("V", "M", "O") else None
            if s0.kind in ("V", "M", "O", "P"):
                # the structure may change between creation and call: only touch-free uses inside
                s1 = SV("X", -1)
            env[c] = s1
        for p in params:
            env[p] = SV("T", -1, sp_ok=False, const=True)
            env[p].maybe_rv = True
        self.scopes = [env]
        self.cur_region = self.frozen_region()
        self.depth_budget -= 1
        was = self.in_func
        self.in_func = True
        body = [("touch", ("attr", ("var", c), "second"), "get") for c in pairs] + self.gen_block(min(budget, 3), kind="closure")
        self.in_func = was
        self.depth_budget += 1
        self.scopes, self.cur_region = saved, saved_region
        return ("lambda", caps, params, body), caps, nparams

    def g_closure(self, budget, lv):
        fs = self.vars(lambda s: s.kind == "F")
        if fs and self.rnd.random() < 0.65:
            n, s = self.pick(fs)
            self.feat("closure:call")
            args = [self.texpr(allow_borrowed_vars=False)[0] for _ in range(s.params)]
            for a in args:
                self.shares_block(a)
            return [("callf", n, args)]
        extra = ()
        if lv and lv[1] == "V" and self.rnd.random() < 0.7:
            extra = (lv[0],)                      # a loop variable captured by the closure
            self.feat("closure:loopvar")
        e, caps, np = self.closure_expr(budget, extra)
        nm = self.name("f")
        sv = self.declare(nm, SV("F", self.cur_region))
        sv.caps, sv.params = caps, np
        self.feat("closure:new")
        return [("decl", nm, e)]

    def g_bind(self, budget, lv):
        bs = self.vars(lambda s: s.kind == "B")
        if bs and self.rnd.random() < 0.7:
            self.feat("bind:call")
            return [("callbound", self.pick(bs)[0])]
        fn = self.pick(["by_cref", "by_value", "by_ref", "by_sp", "by_cptr"])
        tv = self.tvars(owning=True, sp=fn == "by_sp", nonconst=fn == "by_ref")
        if not tv:
            return self.g_decl(budget, lv)
        nm = self.name("g")
        self.declare(nm, SV("B", self.cur_region))
        self.feat("bind:new")
        e = ("var", self.pick(tv)[0])
        self.shares_block(e)
        return [("decl", nm, ("bind", fn, e))]

    def g_block(self, budget, lv):
        self.feat("block")
        self.depth_budget -= 1
        b = self.gen_block(budget)
        self.depth_budget += 1
        return [("block", b)]

    def in_frozen(self, f):
        saved = self.cur_region
        self.cur_region = self.frozen_region()
        self.depth_budget -= 1
        try:
            return f()
        finally:
            self.depth_budget += 1
            self.cur_region = saved

    def g_if(self, budget, lv):
        self.feat("if")
        fl = self.pick(["flag", "nope"])
        a = self.in_frozen(lambda: self.gen_block(budget))
        b = self.in_frozen(lambda: self.gen_block(budget))
        return [("if", fl, a, b)]

    def g_cfor(self, budget, lv):
        self.feat("cfor")
        iv = self.name("i")
        n = self.rnd.randrange(1, 4)
        body = self.in_frozen(lambda: self.gen_block(budget, kind="cloop", loopvar=(iv, "I", n)))
        return [("cfor", iv, n, body)]

    def g_breakcont(self, budget, lv):
        iv, _, n = lv
        self.feat("break/continue")
        if self.rnd.random() < 0.5:
            return [("breakif", iv, self.rnd.randrange(n))]
        return [("continueif", iv, self.rnd.randrange(n))]

    def g_rfor(self, budget, lv):
        vecs = self.vars(lambda s: s.kind == "V")
        maps = self.vars(lambda s: s.kind == "M")
        k = self.pick(["vec"] * (2 if vecs else 0) + ["map"] * (2 if maps else 0) + ["tvec", "tmap"])
        ev = self.name("e")
        self.feat("rfor:" + k)
        if k == "vec":
            ce = ("var", self.pick(vecs)[0])
        elif k == "map":
            ce = ("var", self.pick(maps)[0])
        elif k == "tvec":
            ce = ("vec", [self.texpr()[0] for _ in range(self.rnd.randrange(1, 3))])
        else:
            ce = ("map", [("k%d" % i, self.texpr()[0]) for i in range(self.rnd.randrange(1, 3))])
        ismap = k in ("map", "tmap")

        def body():
            self.scopes.append({})
            if ismap:
                sv = self.declare(ev, SV("P", self.cur_region))
            else:
                self.declare(ev, SV("T", self.cur_region, sp_ok=False))
            b = []
            if ismap:
                b.append(("touch", ("attr", ("var", ev), "second"), "get"))
            b += self.gen_block(budget, kind="rloop", loopvar=(ev, "M" if ismap else "V", 0))
            self.scopes.pop()
            return b
        b = self.in_frozen(body)
        return [("rfor", ev, ce, b)]

    def g_try(self, budget, lv):
        self.feat("try")

        def body():
            self.scopes.append({})
            pre = []
            for _ in range(self.rnd.randrange(0, 3)):
                pre += self.gen_stmt(0)
            thrower = self.pick([("throw",), ("fail",)])
            how = self.rnd.randrange(3)
            if how == 0:
                b = pre + [thrower, self.cp()]
            elif how == 1:
                self.scopes.append({})
                inner = []
                for _ in range(self.rnd.randrange(0, 3)):
                    inner += self.gen_stmt(0)
                self.scopes.pop()
                b = pre + [("block", inner + [self.cp(), thrower])] + [self.cp()]
            else:
                b = pre + [self.cp()]          # no exception
            self.scopes.pop()
            self.feat("try:" + ["throws", "throws-from-inner-block", "no-exception"][how])
            return b
        a = self.in_frozen(body)
        h = self.in_frozen(lambda: self.gen_block(1))
        return [("try", a, h)]

    def g_collect(self, budget, lv):
        """closures that outlive the scope they were made in: pushed into a collector vector declared at the outermost level,
        called later through a ranged-for over the collector"""
        cols = self.vars(lambda s: s.kind == "C")
        if not cols:
            return self.g_closure(budget, lv)
        n, s = self.pick(cols)
        extra = ()
        if lv and lv[1] == "V":
            extra = (lv[0],)
            self.feat("collect:loopvar")
        elif lv and lv[1] == "M" and self.probe:
            extra = (lv[0],)
            self.feat("collect:map-loopvar(known finding probe)")
        e, caps, np = self.closure_expr(budget, extra, pairs=[lv[0]] if (lv and lv[1] == "M" and self.probe) else [], noparams=True)
        self.feat("collect:push")
        return [("push", n, e, True)]

    def make_def(self):
        """def fN(params) { body; return ... }"""
        nm = "fn%d" % (len(self.defs) + 1)
        nparams = self.rnd.randrange(0, 3)
        params = [self.name("t") for _ in range(nparams)]
        saved, saved_region = self.scopes, self.cur_region
        env = {p: SV("T", -1, sp_ok=False, const=True) for p in params}
        for p in params:
            env[p].maybe_rv = True
        self.scopes = [env, {}]
        self.cur_region = self.frozen_region()
        was = self.in_func
        self.in_func = True
        body = []
        for _ in range(self.rnd.randrange(1, 5)):
            body += self.gen_stmt(2)
        body.append(self.cp())
        locs = [n for n, s in self.scopes[-1].items() if s.kind == "T" and not s.borrowed]
        vls = [n for n, s in self.scopes[-1].items() if s.kind == "V"]
        how = self.pick(["none", "param", "local", "fresh", "expr", "vec"])
        ret = None
        if how == "param" and params:
            body.append(("return", ("var", self.pick(params)))); ret = "T"
        elif how == "local" and locs:
            body.append(("return", ("var", self.pick(locs)))); ret = "T"
        elif how == "fresh":
            body.append(("return", ("ctor", 7))); ret = "T"
        elif how == "expr" and (locs or params):
            body.append(("expr", ("var", self.pick(locs + params)))); ret = "T"
        elif how == "vec" and vls:
            v = self.pick(vls)
            body.append(("return", ("var", v))); ret = ("V", self.scopes[-1][v].root().size)
        self.in_func = was
        self.scopes, self.cur_region = saved, saved_region
        self.defs[nm] = (params, body)
        self.defret = getattr(self, "defret", {})
        self.defret[nm] = ret
        self.feat("def:returns-" + (how if ret else "nothing"))
        return nm

    def g_calldef(self, budget, lv):
        if self.in_func or (len(self.defs) >= 3 and not self.defs):
            return self.g_decl(budget, lv)
        if len(self.defs) < 3 and (not self.defs or self.rnd.random() < 0.4):
            nm = self.make_def()
        else:
            nm = self.pick(list(self.defs))
        params, body = self.defs[nm]
        args = [self.texpr(allow_borrowed_vars=False)[0] for _ in params]
        for a in args:
            self.shares_block(a)
        ret = self.defret[nm]
        self.feat("def:call")
        if ret == "T" and self.rnd.random() < 0.7:
            v = self.name("x")
            if self.rnd.random() < 0.3:
                self.declare(v, SV("T", self.cur_region, sp_ok=False))
                return [("refdecl", v, ("call", nm, args))]
            self.declare(v, SV("T", self.cur_region, sp_ok=False))
            return [("decl", v, ("call", nm, args))]
        if isinstance(ret, tuple) and self.rnd.random() < 0.7:
            v = self.name("v")
            sv = self.declare(v, SV("V", self.cur_region))
            sv.size = ret[1]
            return [("decl", v, ("call", nm, args))]
        return [("calld", nm, args)]

    # ---- whole programs
    def program(self, nseg=None):
        self.cur_region = 0
        segs = []
        nseg = nseg or self.rnd.randrange(1, 3)
        for si in range(nseg):
            seg = []
            if si == 0 and self.rnd.random() < 0.6:
                self.declare("fs", SV("C", 0))
                seg.append(("decl", "fs", ("vec", [])))
            for _ in range(self.rnd.randrange(5, 14)):
                seg += self.gen_stmt(3)
            seg.append(self.cp())
            if "fs" in self.scopes[0] and (si == nseg - 1 or self.rnd.random() < 0.5):
                g = self.name("g")
                seg.append(("rfor", g, ("var", "fs"), [("callf", g, [])]))
                seg.append(("clear", "fs"))
                seg.append(self.cp())
            segs.append(seg)
        return {"flags": dict(self.flags), "defs": dict(self.defs), "segments": segs}


def r_coin(rnd):
    return rnd.random() < 0.5


# ------------------------------------------------------------------------------------------------
# known-finding probes (the only generated programs that leave the `covered` discipline)
# ------------------------------------------------------------------------------------------------
def probe_program(rnd):
    """ranged-for over a map binds the loop variable by std::ref to the pair; a closure captures it and is called
    after (unsafe variants) or before (safe twins) the map is gone"""
    g = Gen(rnd)
    g.cur_region = 0
    pre = []
    for _ in range(rnd.randrange(0, 3)):
        pre += g.gen_stmt(1)
    variant = rnd.choice(["temp-map", "inner-block", "cleared", "erased", "safe-drain-inside", "safe-map-outlives"])
    items = [("k%d" % i, g.texpr()[0]) for i in range(rnd.randrange(1, 3))]
    cap = ("push", "fs", ("lambda", ["p"], [], [("touch", ("attr", ("var", "p"), "second"), "get"), g.cp()]), True)
    drain = [("rfor", "g", ("var", "fs"), [("callf", "g", [])]), ("clear", "fs"), g.cp()]
    loop_t = ("rfor", "p", ("map", items), [("touch", ("attr", ("var", "p"), "second"), "id"), cap])
    loop_v = ("rfor", "p", ("var", "pm"), [("touch", ("attr", ("var", "p"), "second"), "id"), cap])
    seg = [("decl", "fs", ("vec", []))] + pre
    if variant == "temp-map":
        seg += [loop_t, g.cp()] + drain
    elif variant == "inner-block":
        seg += [("block", [("decl", "pm", ("map", items)), loop_v, g.cp()]), g.cp()] + drain
    elif variant == "cleared":
        seg += [("decl", "pm", ("map", items)), loop_v, ("clear", "pm"), g.cp()] + drain
    elif variant == "erased":
        seg += [("decl", "pm", ("map", items)), loop_v, ("erase", "pm", items[-1][0]), g.cp()] + drain
    elif variant == "safe-drain-inside":
        seg += [("block", [("decl", "pm", ("map", items)), loop_v, g.cp()] + drain), g.cp()]
    else:
        seg += [("decl", "pm", ("map", items)), loop_v, g.cp()] + drain
    return {"flags": dict(g.flags), "defs": dict(g.defs), "segments": [seg], "probe": variant}


# ------------------------------------------------------------------------------------------------
# loop counters referred to after their loop (value observations)
# ------------------------------------------------------------------------------------------------
def counter_program(rnd):
    """counting loops whose variable escapes: bound by reference to an outer variable (keep := i), pushed by reference,
    bound as an argument (bind(ident, i)), captured by a closure made in the body or in a nested counting loop; the values
    read through the escaped handles after (and during) the loops are observations"""
    g = Gen(rnd)
    g.cur_region = 0
    seg = []
    for _ in range(rnd.randrange(0, 3)):
        seg += g.gen_stmt(1)
    defs = {}
    labels = [0]

    def lab():
        labels[0] += 1
        return "v%d" % labels[0]
    nloops = rnd.randrange(1, 4)
    uses_bind = False
    for li in range(nloops):
        iv, n = g.name("i"), rnd.randrange(1, 5)
        kind = rnd.choice(["keep", "ref", "bind", "clo", "nested-clo", "copy", "mixed"])
        body, after = [], []
        kinds = [kind] if kind != "mixed" else rnd.sample(["keep", "ref", "bind", "clo", "copy"], 3)
        for k in kinds:
            if k == "keep":
                kv = g.name("keep")
                seg.append(("declplain", kv))
                body.append(("refbind", kv, iv))
                if rnd.random() < 0.4:
                    body.append(("checkval", lab(), ("var", kv)))
                after.append(("checkval", lab(), ("var", kv)))
            elif k == "nested-clo":
                vs, jv, m = g.name("fs"), g.name("j"), rnd.randrange(1, 3)
                seg.append(("decl", vs, ("vec", [])))
                body.append(("cfor", jv, m, [("cpush", vs, "clo", iv)] + ([g.cp()] if rnd.random() < 0.3 else [])))
                cnt = m * n
                after += [("checkval", lab(), ("velem", vs, rnd.randrange(cnt), "clo")) for _ in range(rnd.randrange(1, 3))]
            else:
                vs = g.name("cs")
                seg.append(("decl", vs, ("vec", [])))
                body.append(("cpush", vs, k, iv))
                uses_bind = uses_bind or k == "bind"
                after += [("checkval", lab(), ("velem", vs, rnd.randrange(n), k)) for _ in range(rnd.randrange(1, 3))]
        brk = None
        if rnd.random() < 0.3 and kind != "nested-clo" and n > 1:
            brk = rnd.randrange(1, n)
            body.append(("breakif", iv, brk))
            # elements pushed before the break only
            after = [a for a in after if a[2][0] == "var" or a[2][2] <= brk]
        if rnd.random() < 0.3:
            body.append(g.cp())
        seg.append(("cfor", iv, n, body))
        if rnd.random() < 0.4:
            seg += g.gen_stmt(0)
        seg += after
    seg.append(g.cp())
    if uses_bind:
        defs["ident"] = (["x"], [("return", ("var", "x"))])
    return {"flags": dict(g.flags), "defs": dict(g.defs, **defs), "segments": [seg], "family": "counter"}


# ------------------------------------------------------------------------------------------------
# functions whose last statement returns a reference into a temporary argument
# ------------------------------------------------------------------------------------------------
def pick_program(rnd):
    """def pick() { pass(<temporary>) } where pass returns a reference/pointer into its argument, and the caller uses the
    result within the same statement.  With the optimizer the body is scopeless and the last call saves its argument in the
    caller's call_params list: the temporary lives until the caller's outermost call ends (specification: no fault).
    When the body has its own scope (a declaration in it, or the unoptimised parser) the list dies with the body and the
    result dangles: the specification run itself reports the use after destruction, and a fault of the implementation is
    the known finding handle_return.hpp:Handle_Return<T&>:reference-into-temporary-owner."""
    g = Gen(rnd)
    g.cur_region = 0
    seg = []
    for _ in range(rnd.randrange(0, 3)):
        seg += g.gen_stmt(1)
    defs = {}
    variant = rnd.choice(["def", "def", "lambda", "def-with-decl", "def-param", "nonlast"])
    fn = rnd.choice(["ref_of", "cref_of", "ptr_of", "cptr_of"])
    temp = rnd.choice([("ctor", rnd.randrange(1, 9)), ("factory", "make_value", 3), ("factory", "make_sp", 4)])
    const = fn in ("cref_of", "cptr_of")
    consumers = ["by_cref", "by_cptr", "by_value", "by_bv"] + ([] if const else ["by_ref", "by_ptr"])
    name = "pk"
    pre = [g.cp()] if rnd.random() < 0.5 else []
    if variant == "lambda":
        seg.append(("decl", name, ("lambda", [], [], pre + [("expr", ("reffn", fn, temp))])))
        callx = ("callv", name, [])
    elif variant == "def-with-decl":
        defs[name] = ([], [("decl", "d0", ("ctor", 1))] + pre + [("expr", ("reffn", fn, temp))])
        callx = ("call", name, [])
    elif variant == "def-param":
        defs[name] = (["t0"], pre + [("expr", ("reffn", fn, ("var", "t0")))])
        callx = ("call", name, [temp])
    elif variant == "nonlast":
        defs[name] = ([], [("expr", ("reffn", fn, temp)), g.cp(), ("expr", ("reffn", fn, temp)), g.cp()])
        callx = None
    else:
        defs[name] = ([], pre + [("expr", ("reffn", fn, temp))])
        callx = ("call", name, [])

    def use():
        if callx is None:
            return [("calld", name, [])]
        k = rnd.choice(["call", "call", "declcall", "touch"] + (["copy"] if fn == "ref_of" else []))
        if k == "call":
            return [("cxxcall", rnd.choice(consumers), callx)]
        if k == "declcall":
            return [("declcall", g.name("n"), rnd.choice(consumers), callx)]
        if k == "copy":
            return [("decl", g.name("c"), callx)]
        return [("touch", callx, rnd.choice(["get", "id"] + ([] if const else ["set"])))]
    uses = []
    for _ in range(rnd.randrange(1, 4)):
        uses += use()
    if rnd.random() < 0.5 and variant != "lambda":
        # the caller is itself a script function: its scope's list holds the temporary
        defs["caller"] = ([], uses + [g.cp()])
        seg += [("calld", "caller", []), g.cp()]
    else:
        seg += uses + [g.cp()]
    return {"flags": dict(g.flags), "defs": dict(g.defs, **defs), "segments": [seg], "probe": "pick:" + variant, "family": "pick"}


# ------------------------------------------------------------------------------------------------
# the check
# ------------------------------------------------------------------------------------------------
def corpus_programs():
    out = []
    p = os.path.join(vlib.ROOT, "corpus", "C11.txt")
    if not os.path.exists(p):
        return out
    for l in open(p):
        l = l.strip()
        if not l or l.startswith("#"):
            continue
        out.append(tuplify(json.loads(l)))
    return out


def tuplify(x):
    """JSON lists back to the tuples the evaluator expects (statements/expressions are tuples, bodies are lists)"""
    if isinstance(x, dict):
        return {k: tuplify(v) for k, v in x.items()}
    if isinstance(x, list):
        if x and isinstance(x[0], str) and x[0] in STMT_KINDS | EXPR_KINDS:
            return tuple(tuplify_arg(x[0], i, a) for i, a in enumerate(x))
        return [tuplify(a) for a in x]
    return x


STMT_KINDS = {"refbind", "cpush", "checkval", "reseat", "cp", "decl", "declplain", "refdecl", "assign", "assign_undef", "touch", "cxxcall", "declcall", "keep", "release", "push", "popback", "clear",
              "erase", "mapset", "attrset", "callf", "calld", "callbound", "block", "if", "cfor", "breakif", "continueif", "rfor", "try", "throw", "fail",
              "return", "expr"}
EXPR_KINDS = {"callv", "velem", "var", "ctor", "factory", "cxx", "reffn", "elem", "attr", "vec", "map", "owner", "dynobj", "lambda", "bind", "call", "seed"}


def tuplify_arg(kind, i, a):
    if i == 0:
        return a
    if kind == "map" and i == 1:
        return [(k, tuplify(e)) for k, e in a]
    if kind == "lambda" and i in (1, 2):
        return list(a)
    return tuplify(a)


def make_cases(tier, seed, part="all"):
    rnd0 = random.Random(seed * 7919 + 11)
    nprog = {"quick": 450, "thorough": 3000}[tier]
    nprobe = {"quick": 30, "thorough": 200}[tier]
    progs = []
    if part in ("all", "corpus"):
        for p in corpus_programs():
            progs.append(("corpus", p, None))
    if part == "corpus":
        nprog = nprobe = 0
    if part == "generated":
        pass
    for i in range(nprog):
        rnd = random.Random(rnd0.getrandbits(48))
        g = Gen(rnd)
        progs.append(("gen", g.program(), g.features))
    for i in range(nprobe):
        rnd = random.Random(rnd0.getrandbits(48))
        progs.append(("probe", probe_program(rnd), None))
    for i in range(nprobe):
        rnd = random.Random(rnd0.getrandbits(48))
        progs.append(("pick", pick_program(rnd), None))
    for i in range(nprobe * 2):
        rnd = random.Random(rnd0.getrandbits(48))
        progs.append(("counter", counter_program(rnd), None))
    cases = []
    for origin, prog, feats in progs:
        for opt in (True, False):
            script = render(prog, opt)
            line, names = lower(prog, opt)
            cases.append({"origin": origin, "opt": opt, "prog": prog, "script": script, "ops": line, "names": names, "features": feats})
    return cases


def chunked_parallel(fn, items, nchunks):
    """run fn over interleaved slices of items in parallel; results come back in the order of items"""
    from concurrent.futures import ThreadPoolExecutor
    n = max(1, min(nchunks, len(items)))
    chunks = [items[i::n] for i in range(n)]
    with ThreadPoolExecutor(max_workers=n) as ex:
        res = list(ex.map(fn, chunks))
    out = [None] * len(items)
    for i, r in enumerate(res):
        out[i::n] = r
    return out


def judge(c, case, impl, spec, mech):
    """classification of one case; returns a tag for the distribution"""
    items, faults, errs = parse_obs(impl)
    st = spec.split()
    spec_counts = [t if t.isdigit() else t[1:] for t in st if t.isdigit() or (t[0] == "V" and t[1:].isdigit())]
    spec_uaf = "UAF" in st
    info = {"script": case["script"], "optimizer": case["opt"], "ops": case["ops"], "impl": impl if len(impl) < 4000 else impl[:4000] + "...",
            "spec": spec, "format": "script = ChaiScript text fed (hex) to harness/h_life; ops = the same program as LifeIO operation history"}
    if not spec_uaf and any(t.startswith("BAD") or t in ("PARSE", "FAULT") for t in st):
        c.disagree("life: the generated operation history is ill-formed for the machine", info, impl, spec)
        return "ill-formed"
    if mech is not None and mech != spec:
        c.disagree("life: mechanism run (ownership tables regenerated from the source) differs from the specification run", info, mech, spec)
    crashed = items is None
    if spec_uaf:
        # the program leaves the side condition of C11_no_use_after_free_if_covered: only the known-finding probes do
        if not case["prog"].get("probe"):
            c.disagree("life: a generated program outside the probes leaves the covered discipline", info, impl, spec)
            return "uncovered"
        if crashed or faults:
            if str(case["prog"]["probe"]).startswith("pick:"):
                c.fail("a reference returned by a C++ function into its temporary argument outlives the call_params list that held the temporary: "
                       + (faults[0] if faults else "sanitizer abort"), info, finding_key=FINDING_KEY_REF)
                return "probe:fault(known finding: reference into temporary)"
            c.fail("ranged-for element reference captured by a closure outlives the container: " + (faults[0] if faults else "sanitizer abort"), info, finding_key=FINDING_KEY)
            return "probe:fault(known finding)"
        return "probe:no-fault-observed"
    if crashed:
        c.fail("the process died (sanitizer report / signal) on a program whose every non-owning handle is covered by an owner: " + faults[0], info)
        return "crash"
    if faults:
        c.fail("an instrumented object was used or destroyed after its destruction: " + faults[0], info)
        return "touch-after-destroy"
    if errs:
        # an exception the generator did not plan (a validity rule of the generator is too weak): not a lifetime
        # observation; the case is discarded and counted (the check fails if this becomes frequent)
        c.extra.setdefault("discarded_script_errors", []).append({"script": case["script"], "impl": impl[:600]})
        return "discarded:script-error"
    got = [(n, str(k)) for n, k in items]
    exp = list(zip(case["names"], spec_counts))
    if [n for n, _ in got] != [n for n, _ in exp] or len(spec_counts) != len(case["names"]):
        c.disagree("life: the program took a different path than the generator planned", info, impl, spec)
        return "path"
    for (n, a), (_, b) in zip(got, exp):
        if a != b and n.startswith("val:"):
            c.fail("the value read through a handle is not the last value of the object it refers to (%s: implementation %s, specification %s): "
                   "the referred object is gone or is not the one the script value owns" % (n, a, b), info)
            return "value"
        if a != b:
            more = int(a) > int(b)
            where = "after the engine was destroyed" if n in ("end", "final") else "at " + n
            c.fail(("objects alive although their last referrer is gone" if more else "objects destroyed while still referred to")
                   + " (%s: implementation %s, specification %s)" % (where, a, b), info)
            return "count"
    return "agree"


# ------------------------------------------------------------------------------------------------
# shrinking a failing program (statements are removed while the same kind of failure persists)
# ------------------------------------------------------------------------------------------------
BODY_FIELDS = {"block": [1], "if": [2, 3], "cfor": [3], "rfor": [3], "try": [1, 2]}


def stmt_lists(prog):
    """every statement list of the program, as (getter path) objects that can be mutated in place"""
    out = []

    def walk(body):
        out.append(body)
        for s in body:
            for f in BODY_FIELDS.get(s[0], []):
                walk(s[f])
    for seg in prog["segments"]:
        walk(seg)
    for name, d in prog.get("defs", {}).items():
        walk(d[1])
    return out


def copy_prog(x):
    if isinstance(x, dict):
        return {k: copy_prog(v) for k, v in x.items()}
    if isinstance(x, list):
        return [copy_prog(v) for v in x]
    if isinstance(x, tuple):
        return tuple(copy_prog(v) for v in x)
    return x


def shrink(case, tag, hbin, sbin, budget=120):
    """greedy one-statement-at-a-time reduction; returns a case with the same verdict tag"""
    best = case

    def verdict(prog):
        try:
            script = render(prog, best["opt"])
            line, names = lower(prog, best["opt"])
        except Exception:
            return None, None
        impl = run_impl(hbin, [script], BULK_ENV)[0]
        spec = run_model(sbin, [line])[0]
        cand = dict(best, prog=prog, script=script, ops=line, names=names)
        scratch = vlib.Check("C11", "shrink", 0)
        return judge(scratch, cand, impl, spec, None), cand

    progress = True
    while progress and budget > 0:
        progress = False
        nlists = len(stmt_lists(best["prog"]))
        for li in range(nlists):
            i = 0
            while budget > 0:
                lists = stmt_lists(best["prog"])
                if li >= len(lists) or i >= len(lists[li]):
                    break
                prog = copy_prog(best["prog"])
                l2 = stmt_lists(prog)[li]
                del l2[i]
                if not l2 and li > 0:
                    i += 1
                    continue
                budget -= 1
                t, cand = verdict(prog)
                if t == tag:
                    best = cand
                    progress = True
                else:
                    i += 1
    for name in list(best["prog"].get("defs", {})):          # script functions that are no longer needed
        if budget <= 0:
            break
        prog = copy_prog(best["prog"])
        del prog["defs"][name]
        budget -= 1
        t, cand = verdict(prog)
        if t == tag:
            best = cand
    return best


def nontrivial(case):
    return case["script"].count("checkpoint(") >= 2 and ("Tracked(" in case["script"] or "make_" in case["script"])


def warm():
    vlib.cxx_build("h_life", flavor=FLAVOR)
    vlib.model_build("lifespec", ["theories/LifeSpecRun.vo"])
    vlib.model_build("life", ["theories/LifeRun.vo"])


def check(tier, seed):
    c = vlib.Check("C11", tier, seed)
    c.cov["rule"] = ("case = (program, parser variant); programs are generated from a seeded grammar over the instrumented class Tracked: declarations by copy / "
                     "reference / every registered return shape, every parameter shape (value, &, const&, *, const*, shared_ptr, const shared_ptr&, Boxed_Value), "
                     "converted temporaries, vectors, maps, Dynamic_Object attributes, a C++ object with an instrumented member, lambdas with captures, bind, "
                     "script functions (parameters, returns by value / parameter / local / expression / container), blocks, if, for with break/continue, ranged-for "
                     "over named and temporary vectors and maps, try/catch with script and C++ exceptions thrown from nested blocks, C++-held shared_ptrs, several "
                     "eval() calls; each program runs with the optimising and the unoptimised parser; non-trivial = at least two checkpoints and at least one "
                     "instrumented object created; distinct = distinct (script, variant) pairs")
    c.assumptions = ["the rendering of a program as machine operations (tools/p_C11.py, class Exec: where the evaluator keeps Boxed_Value handles) is validated by this "
                     "comparison itself: every count it predicts is compared with the implementation's on every run",
                     "observation points are checkpoints, entries of registered C++ functions, engine destruction and release of the C++ side's handles; destructor "
                     "order inside one C++ full-expression, allocator reuse and other threads' Thread_Storage are not modelled",
                     "translator tools/translate/t_Ownership.py (shape recogniser over boxed_value.hpp, handle_return.hpp, proxy_constructors.hpp, type_conversions.hpp, "
                     "chaiscript_eval.hpp, chaiscript_prelude.hpp, proxy_functions_detail.hpp)",
                     "extraction: ExtrOcamlBasic + ExtrOcamlString, no Extract Constant; OCaml driver does line I/O only",
                     "ASan + UBSan build of the harness, detect_stack_use_after_return=1; leak detection is replaced by the instance registry (live count after engine destruction)"]
    c.prove("Properties_C11", translators=["Ownership"])
    hbin = vlib.cxx_build("h_life", flavor=FLAVOR)
    sbin = vlib.model_build("lifespec", ["theories/LifeSpecRun.vo"])
    try:
        mbin = vlib.model_build("life", ["theories/LifeRun.vo"])
    except vlib.BuildError as ex:
        mbin = None
        c.broken_ties.append(("correspondence", "life: the mechanism model no longer builds from the regenerated ownership tables", str(ex)[-1500:]))
    nchunks = max(2, min(5, vlib.NCPU // 3))      # sanitizer processes do not scale beyond a few per machine here
    cases, impl, spec, mech = [], [], [], []
    for part in ("corpus", "generated"):
        # the regression corpus runs first; when it already exhibits failing inputs the generated programs are skipped
        batch = make_cases(tier, seed, part)
        cases += batch
        impl += chunked_parallel(lambda ch: run_impl(hbin, [x["script"] for x in ch], BULK_ENV), batch, nchunks)
        spec += run_model(sbin, [x["ops"] for x in batch])
        mech += run_model(mbin, [x["ops"] for x in batch]) if mbin else [None] * len(batch)
        if part == "corpus":
            probe = vlib.Check("C11", tier, seed)
            for case, i, s, m in zip(batch, impl, spec, mech):
                judge(probe, case, i, s, m)
            if len(probe.failures) >= 2:
                c.extra["generated_programs_skipped"] = "the regression corpus already fails on %d programs" % len(probe.failures)
                break
    seen = set()
    shrunk = False
    for case, i, s, m in zip(cases, impl, spec, mech):
        c.cov["evaluations"] += 1
        nfail = len(c.failures)
        tag = judge(c, case, i, s, m)
        if len(c.failures) > nfail and not shrunk:
            # the first failing input is reduced so that the replay shows a small script
            shrunk = True
            try:
                small = shrink(case, tag, hbin, sbin)
                if small is not case:
                    f = c.failures.pop()
                    scratch = vlib.Check("C11", "shrink", 0)
                    judge(scratch, small, run_impl(hbin, [small["script"]], BULK_ENV)[0], run_model(sbin, [small["ops"]])[0], None)
                    f2 = scratch.failures[0]
                    f2["case"]["reduced_from"] = f["case"]["script"]
                    c.failures.append(f2)
            except Exception as ex:       # shrinking is a convenience; the unreduced input stays
                vlib.log("shrink failed: %r" % ex)
        c.dist["origin:" + case["origin"]] = c.dist.get("origin:" + case["origin"], 0) + 1
        c.dist["verdict:" + tag] = c.dist.get("verdict:" + tag, 0) + 1
        c.dist["parser:" + ("optimised" if case["opt"] else "unoptimised")] = c.dist.get("parser:" + ("optimised" if case["opt"] else "unoptimised"), 0) + 1
        if case["prog"].get("probe"):
            k = "probe:" + case["prog"]["probe"]
            c.dist[k] = c.dist.get(k, 0) + 1
        if case["features"] and case["opt"]:
            for f, n in case["features"].items():
                c.dist["feature:" + f] = c.dist.get("feature:" + f, 0) + n
        if nontrivial(case):
            seen.add((case["script"], case["opt"]))
    nd = len(c.extra.get("discarded_script_errors", []))
    if nd > max(3, len(cases) // 200):
        c.disagree("life: too many generated programs raise unplanned script exceptions", {"n": nd, "first": c.extra["discarded_script_errors"][0]}, "", "")
    if nd:
        c.extra["discarded_script_errors"] = c.extra["discarded_script_errors"][:3] + [{"n": nd}]
    c.cov["distinct_nontrivial"] = len(seen)
    c.cov["programs"] = len(cases) // 2
    c.cov["traces_validated_against_impl"] = len(cases)
    c.cov["disagreements_checked"] = len(cases)
    c.extra["checkpoints_compared"] = sum(len(x["names"]) for x in cases)
    for k in (0, len(cases) // 3, len(cases) // 2 + 1, len(cases) - 1):
        c.sample({"script": cases[k]["script"], "ops": cases[k]["ops"], "impl": " ; ".join(x for x in impl[k].split(" ; ") if not x.startswith("t:")),
                  "model_spec": spec[k], "model_mechanism": mech[k]})
    return c.finish()


def replay(path):
    r = json.load(open(os.path.join(vlib.ROOT, path) if not os.path.isabs(path) else path))
    if r.get("kind") != "failing-input":
        print("tie-broken replay: the following no longer check:", json.dumps(r.get("no_longer_checks"), indent=1)[:6000])
        return 1
    info = r["failure"]["case"]
    hbin = vlib.cxx_build("h_life", flavor=FLAVOR)
    sbin = vlib.model_build("lifespec", ["theories/LifeSpecRun.vo"])
    rc, out, err = vlib.run_lines(hbin, [info["script"].encode().hex()], env=ASAN_ENV, timeout=600)
    spec = run_model(sbin, [info["ops"]])[0]
    print("what:", r["failure"]["what"])
    print("script (%s parser):\n%s" % ("optimising" if info["optimizer"] else "unoptimised", info["script"]))
    print("impl :", out[0] if out else "<none>")
    print("spec :", spec)
    if err.strip():
        print("stderr (sanitizer / harness):\n" + err[-3500:])
    items, faults, errs = parse_obs(out[0]) if out else (None, ["<none>"], [])
    counts = [t if t.isdigit() else t[1:] for t in spec.split() if t.isdigit() or (t[0] == "V" and t[1:].isdigit())]
    bad = items is None or bool(faults) or [str(k) for _, k in items] != counts
    print("REPRODUCED" if bad else "not reproduced")
    return 1 if bad else 0
