"""C15 — get_state / set_state restore the global environment exactly.
proof: Properties_C15 (dictionary specification; mechanism = three function tables over shared overload vectors, simulation
       proved for every history; the description of add_function / get_state / set_state is regenerated from the source).
tie:   translator t_EngineState (every run) + histories executed on a real engine (h_engine) diffed step by step with the
       extracted mechanism model (m_engine).
oracle: the extracted dictionary specification (m_enginespec, independent of gen/) against the implementation."""
import json, os, random, re, shutil, sys, tempfile
import vlib

FN_DYN = ["f0", "f1", "f2", "m0"]
FN_CPP = ["f0", "f1", "c0"]
FN_MEM = ["m0", "m1", "f2"]
CLASSES = ["C0", "C1"]
PROBE_FN = ["f0", "f1", "f2", "c0", "m0", "m1", "C0", "C1", "mf0"]
GLOBALS = ["g0", "g1", "g2"]
TYPES = ["T0", "T1"]
PROBE_T = TYPES + ["MT0"]
PROBE_G = GLOBALS + [t + "_type" for t in PROBE_T]
LOCALS = ["l0", "l1"]
FILES = ["a", "b", "c"]
MODS = ["vm0", "vm1"]
# content of the two loadable modules of harness/h_engine_mod.cpp (kind k: k mod 10 int parameters)
MODULES = "%vm0 t MT0 2 | %vm0 c mf0 10 9001 | %vm0 c f0 11 9002 | %vm0 c f1 10 9003 | %vm1 t T0 3 | %vm1 c c0 12 9004"
HEADER = "N %s | V %s | T %s | L %s | %s" % (" ".join(PROBE_FN), " ".join(PROBE_G), " ".join(PROBE_T), " ".join(LOCALS), MODULES)


class Gen:
    def __init__(self, rnd, maxlen):
        self.r, self.maxlen, self.site = rnd, maxlen, 0

    def sid(self):
        self.site += 1
        return self.site

    def d(self, name=None):
        r = self.r
        ar = r.choice([0, 1, 1, 1, 2])
        g = "-" if ar == 0 else r.choice(["-", "-", "1", "2"])
        return "d %s %d %s %d" % (name or r.choice(FN_DYN), ar, g, self.sid())

    def cpp(self):
        return "c %s %d %d" % (self.r.choice(FN_CPP), self.r.choice([0, 1, 1, 2]), self.sid())

    def member(self, cls=None):
        r = self.r
        cls = cls or r.choice(CLASSES)
        k = r.choice(["ka", "km", "km", "kc"])
        if k == "ka":
            return "ka %s %s %d" % (cls, r.choice(FN_MEM), self.sid())
        if k == "km":
            return "km %s %s %d %d" % (cls, r.choice(FN_MEM), r.choice([1, 1, 2]), self.sid())
        return "kc %s %d %d" % (cls, r.choice([0, 1, 1, 2]), self.sid())

    def script_stmt(self):
        r = self.r
        x = r.random()
        if x < 0.45:
            return self.d()
        if x < 0.65:
            return self.member()
        if x < 0.85:
            return "G %s %d" % (r.choice(PROBE_G if r.random() < 0.15 else GLOBALS), r.randrange(100))
        return "a %s %d" % (r.choice(PROBE_G if r.random() < 0.15 else GLOBALS), r.randrange(100))

    def class_block(self):
        cls = self.r.choice(CLASSES)
        return [self.member(cls) for _ in range(self.r.randrange(2, 5))]

    def history(self):
        r = self.r
        self.site = 0
        segs = [HEADER]
        for f in FILES:
            n = r.randrange(0, 4)
            if n == 0:
                segs.append("@" + f)
            for _ in range(n):
                segs.append("@%s %s" % (f, self.script_stmt()))
        n = r.randrange(4, self.maxlen + 1)
        steps, nsnap, since = [], 0, []
        while len(steps) < n:
            x = r.random()
            if x < 0.24:
                st = [self.d()]
            elif x < 0.34:
                st = [self.cpp()]
            elif x < 0.41:
                st = self.class_block()
            elif x < 0.47:
                st = [self.script_stmt() for _ in range(r.randrange(2, 4))]
            elif x < 0.52:
                st = [self.member()]
            elif x < 0.64:
                k = r.choice(["G", "g", "s", "a", "a"])
                pool = PROBE_G if r.random() < 0.15 else GLOBALS
                st = ["%s %s %d" % (k, r.choice(pool), r.randrange(100))]
            elif x < 0.70:
                st = ["t %s %d" % (r.choice(TYPES), r.randrange(4))]
            elif x < 0.73:
                st = ["l %s %d" % (r.choice(LOCALS), r.randrange(100))]
            elif x < 0.81:
                st = ["u " + r.choice(FILES + (["zz"] if r.random() < 0.1 else []))]
            elif x < 0.85:
                st = ["m " + r.choice(MODS)]
            elif x < 0.92 or nsnap == 0:
                st = ["S"]
                nsnap += 1
            else:
                st = ["R %d" % r.randrange(nsnap)]
                steps.append(st)
                # re-add something that was added since: same shape, new function object
                if since and r.random() < 0.6:
                    old = r.choice(since).split()
                    if old[0] in ("d", "c", "ka", "km", "kc"):
                        old[-1] = str(self.sid())
                    steps.append([" ".join(old)])
                continue
            steps.append(st)
            since += [s for s in st if s.split()[0] in ("d", "c", "ka", "km", "kc", "g", "t")]
        if nsnap and not any(s[0].startswith("R ") for s in steps):
            steps.append(["R %d" % r.randrange(nsnap)])
            steps.append([self.d()])
        for st in steps:
            segs.append(st[0])
            for s in st[1:]:
                segs.append("+ " + s)
        return " | ".join(segs)


def gen_cases(tier, seed):
    rnd = random.Random(seed * 104729 + 15)
    n = {"quick": 400, "thorough": 4000}[tier]
    g = Gen(rnd, 25)
    return [g.history() for _ in range(n)]


ID = re.compile(r"#\d+(?:\.\d+)?")
ERR = re.compile(r"ERR\((?!file\)|snap\))[^)]*\)")


def canon(line):
    m = {}

    def ren(x):
        k = x.group(0)
        if k not in m:
            m[k] = "#%d" % len(m)
        return m[k]
    return ERR.sub("ERR", ID.sub(ren, line))


def first_diff(a, b):
    sa, sb = a.split(" || "), b.split(" || ")
    for i, (x, y) in enumerate(zip(sa, sb)):
        if x != y:
            fa, fb = x.split(" "), y.split(" ")
            j = next((k for k, (p, q) in enumerate(zip(fa, fb)) if p != q), min(len(fa), len(fb)))
            return {"step": i, "impl": " ".join(fa[max(0, j - 6):j + 6]), "model": " ".join(fb[max(0, j - 6):j + 6])}
    return {"step": min(len(sa), len(sb)), "impl": "%d steps" % len(sa), "model": "%d steps" % len(sb)}


def steps_of(case):
    """(prelude segments, list of steps each a list of segments)"""
    segs = case.split(" | ")
    pre, steps = [], []
    for s in segs:
        w = s.split(" ")[0]
        if w in ("N", "V", "T", "L") or w[0] in "@%":  # prelude
            pre.append(s)
        elif w == "+":
            steps[-1].append(s)
        else:
            steps.append([s])
    return pre, steps


def join_case(pre, steps):
    return " | ".join(pre + [s for st in steps for s in st])


def build_module():
    """the shared object with the two loadable modules, against the current headers (cached)"""
    src = os.path.join(vlib.ROOT, "harness", "h_engine_mod.cpp")
    flags = ["-std=c++20", "-w", "-O0", "-fPIC", "-shared", "-D" + vlib.GUARD, "-I" + os.path.join(vlib.REPO, "include"), "-I" + os.path.join(vlib.ROOT, "harness")]
    key = vlib.sha(vlib.include_hash(), vlib.read(src, "rb"), vlib.read(os.path.join(vlib.ROOT, "harness", "h_engine_types.hpp"), "rb"), " ".join(flags))[:24]
    out = os.path.join(vlib.BUILD, "obj", key + ".so")
    if not os.path.exists(out):
        os.makedirs(os.path.dirname(out), exist_ok=True)
        rc, o, e = vlib.run(["g++"] + flags + [src, "-o", out + ".tmp%d" % os.getpid()], timeout=900)
        if rc != 0:
            raise vlib.BuildError("module build failed: " + e.decode(errors="replace")[-3000:])
        os.replace(out + ".tmp%d" % os.getpid(), out)
    return out


class Runner:
    def __init__(self, scratch):
        self.scratch = scratch
        so = build_module()
        for m in MODS:
            shutil.copy(so, os.path.join(scratch, m + ".so"))
        self.hbin = vlib.cxx_build("h_engine")
        self.sbin = vlib.model_build("enginespec", ["theories/EngineSpecRun.vo"])
        try:
            self.mbin = vlib.model_build("engine", ["theories/EngineRun.vo"])
            self.merr = None
        except (vlib.BuildError, RuntimeError) as ex:
            self.mbin, self.merr = None, str(ex)[-1500:]

    def impl(self, cases):
        rc, out, err = vlib.run_lines(self.hbin, cases, timeout=3000, args=[self.scratch])
        if len(out) != len(cases):
            raise vlib.BuildError("h_engine produced %d lines for %d cases\n%s" % (len(out), len(cases), err[-2000:]))
        return out

    def model(self, binp, cases):
        rc, out, err = vlib.run_lines(binp, cases, timeout=3000)
        if len(out) != len(cases):
            raise vlib.BuildError("model produced %d lines for %d cases\n%s" % (len(out), len(cases), err[-2000:]))
        return out

    def violates(self, case):
        i = self.impl([case])[0]
        s = self.model(self.sbin, [case])[0]
        return canon(i) != canon(s), i, s


def shrink(rn, case, budget=80):
    pre, steps = steps_of(case)
    bad, i, s = rn.violates(case)
    if not bad:
        return case
    k = first_diff(canon(i), canon(s))["step"]
    steps = steps[:k + 1]
    cur = join_case(pre, steps)
    j = len(steps) - 2
    while j >= 0 and budget > 0:
        if steps[j][0].split(" ")[0] != "S":     # removing a get_state would renumber the snapshots
            cand = steps[:j] + steps[j + 1:]
            budget -= 1
            c2 = join_case(pre, cand)
            if rn.violates(c2)[0]:
                steps, cur = cand, c2
        j -= 1
    return cur


def warm():
    build_module()
    vlib.cxx_build("h_engine")
    vlib.model_build("enginespec", ["theories/EngineSpecRun.vo"])
    vlib.model_build("engine", ["theories/EngineRun.vo"])


def check(tier, seed):
    c = vlib.Check("C15", tier, seed)
    c.cov["rule"] = ("case = one history (<= 25 steps) over {script def / overload with arities 0-2 and guards, C++ function of 3 callable kinds, class "
                     "block / out-of-class member, multi-statement script, global decl / add_global / set_global / assignment, add type, local, use(file) of 3 "
                     "generated files, load_module of 2 modules, get_state, set_state(any earlier snapshot)}; after every step the live tables are read through four independent routes "
                     "and every snapshot taken so far is dumped; non-trivial = the history restores a snapshot after at least one successful addition made "
                     "since that snapshot; distinct = distinct history lines")
    c.assumptions = ["the model of a function's identity is (definition site, evaluation); the harness identifies Proxy_Function objects by address (kept alive), "
                     "both are renamed by order of first appearance before diffing",
                     "translator tools/translate/t_EngineState.py (shape recogniser over dispatchkit.hpp, chaiscript_engine.hpp, quick_flat_map.hpp)",
                     "loadable modules: the content of harness/h_engine_mod.cpp is mirrored by hand in the `%vm0/%vm1` prelude of every history (tools/p_C15.py MODULES)",
                     "extraction: ExtrOcamlBasic + ExtrOcamlString, no Extract Constant; OCaml driver does line I/O only"]
    c.prove("Properties_C15", translators=["EngineState"])
    scratch = tempfile.mkdtemp(prefix="verif_c15_", dir="/tmp")
    try:
        rn = Runner(scratch)
        if rn.mbin is None:
            c.broken_ties.append(("correspondence", "engine: the mechanism model no longer builds from the regenerated description", rn.merr))
        corpus = [l.strip() for l in open(os.path.join(vlib.ROOT, "corpus", "C15.txt")) if l.strip() and not l.startswith("#")]
        cases = corpus + gen_cases(tier, seed)
        impl = rn.impl(cases)
        spec = rn.model(rn.sbin, cases)
        mech = rn.model(rn.mbin, cases) if rn.mbin else [None] * len(cases)
        nontrivial, ndis, nfail = set(), 0, 0
        for case, i, s, m in zip(cases, impl, spec, mech):
            c.cov["evaluations"] += 1
            pre, steps = steps_of(case)
            for st in steps:
                k = st[0].split(" ")[0]
                k = "script" if len(st) > 1 else k
                c.dist[k] = c.dist.get(k, 0) + 1
            c.dist["steps"] = c.dist.get("steps", 0) + len(steps)
            ci = canon(i)
            outs = [x.split(" ;", 1)[0] for x in ci.split(" || ")]
            for o in outs:
                c.dist["outcome:" + o] = c.dist.get("outcome:" + o, 0) + 1
            # non-trivial: a successful addition after a get_state that is later restored
            added, seen = False, False
            for st, o in zip(steps, outs):
                k = st[0].split(" ")[0]
                if k == "S":
                    seen = True
                elif k == "R" and seen and added and o == "OK":
                    nontrivial.add(case)
                elif seen and o == "OK" and k in ("d", "c", "ka", "km", "kc", "g", "G", "s", "t", "u", "m"):
                    added = True
            if m is not None and ci != canon(m):
                ndis += 1
                if ndis <= 10:
                    c.disagree("engine", case, first_diff(ci, canon(m)), "mechanism model (regenerated description) differs from the implementation")
            if i.startswith("SIG(") or i.startswith("EXIT(") or ci != canon(s):
                nfail += 1
                if nfail <= 3:
                    small = shrink(rn, case)
                    bad, i2, s2 = rn.violates(small)
                    d = first_diff(canon(i2), canon(s2)) if bad else first_diff(ci, canon(s))
                    c.fail("the environment observed on the real engine differs from the dictionary specification",
                           {"case": small if bad else case, "first_difference": d, "original_case": case,
                            "format": "see harness/h_engine.cpp header; steps separated by ' | ', '+' continues a script"})
                else:
                    c.fail("the environment observed on the real engine differs from the dictionary specification", {"case": case})
        c.cov["distinct_nontrivial"] = len(nontrivial)
        c.cov["programs"] = len(cases)
        c.cov["traces_validated_against_impl"] = len(cases)
        c.cov["disagreements_checked"] = len(cases) if rn.mbin else 0
        for k in (0, len(corpus) + 3, len(cases) // 2):
            if k < len(cases):
                c.sample({"case": cases[k], "impl_last_step": canon(impl[k]).split(" || ")[-1][:600]}, limit=3)
        return c.finish()
    finally:
        shutil.rmtree(scratch, ignore_errors=True)


def replay(path):
    r = json.load(open(os.path.join(vlib.ROOT, path) if not os.path.isabs(path) else path))
    if r.get("kind") != "failing-input":
        print("tie-broken replay: the following no longer check:", json.dumps(r.get("no_longer_checks"), indent=1)[:3000])
        return 1
    case = r["failure"]["case"]["case"]
    scratch = tempfile.mkdtemp(prefix="verif_c15_", dir="/tmp")
    try:
        rn = Runner(scratch)
        bad, i, s = rn.violates(case)
        print("history:", case)
        if bad:
            print("first difference:", json.dumps(first_diff(canon(i), canon(s)), indent=1))
        print("REPRODUCED" if bad else "not reproduced")
        return 1 if bad else 0
    finally:
        shutil.rmtree(scratch, ignore_errors=True)
