"""C16 — Literals denote the values and types they denote in C++.
proof:  Properties_C16 (+ Properties_Lex) over the ladders / keyword tables / alphabets regenerated from the source.
tie:    translators (every run) + correspondence  h_parse (real parser, single-literal inputs) <-> m_lex (extracted LexRun:
        the ported scanners over the regenerated tables).
oracle: the implementation's observation against m_lexspec (extracted CxxLiteral specification, independent of gen/)."""
import itertools, json, os, random, re, subprocess, sys, tempfile
import vlib

FNAME = "46"
GRAMMAR_WORDS = {"def", "fun", "while", "for", "if", "else", "auto", "return", "break", "class", "attr", "var", "global", "GLOBAL", "try", "catch",
                 "finally", "switch", "case", "default", "continue"}
WORDS = ["true", "false", "Infinity", "NaN", "__LINE__", "__FILE__", "__FUNC__", "__CLASS__", "_"]
RESERVED = ["def", "fun", "while", "for", "if", "else", "&&", "||", ",", "auto", "return", "break", "true", "false", "class", "attr", "var", "global",
            "GLOBAL", "_", "__LINE__", "__FILE__", "__FUNC__", "__CLASS__"]
WITNESSES = {"njMQdv": "true", "nKXl50": "__LINE__", "njdmKm": "var", "aDBSwt": "def", "obMbbe": "NaN"}
FLOAT_TOL_ULP = 8          # oracle: |impl - correctly rounded| in ulps (a TEST, see C16_float_value_partial)
MODEL_POW_ULP = 4          # tie: spellings with an exponent go through libm's pow, which the model replaces by the correctly rounded power


def hx(b):
    if isinstance(b, str):
        b = b.encode("latin-1")
    return b.hex() if b else "-"


# ------------------------------------------------------------------ generators
def int_cases():
    vals = {0, 1}
    for k in (7, 8, 15, 16, 31, 32, 63, 64):
        vals |= {2 ** k - 1, 2 ** k, 2 ** k + 1}
    us, ls = ["u", "U"], ["l", "L", "ll", "LL"]
    sfx = [""] + us + ls + [a + b for a in us for b in ls] + [b + a for a in us for b in ls]     # the 23 C++ spellings
    odd = ["lL", "Ll", "uu", "lul", "lll", "ulu"]                                                 # not C++: model vs implementation only
    out = []
    for v in sorted(vals):
        spell = [("%d" % v), ("0%o" % v) if v else "00", "0x%x" % v, "0X%X" % v, "0b" + bin(v)[2:], "0B" + bin(v)[2:]]
        for s in spell:
            for x in sfx + odd:
                out.append("lit " + hx(s + x))
    return out


def float_cases(rnd, n):
    out = []
    rng = {"f": (-36, 38), "": (-306, 308), "l": (-4930, 4932)}
    for i in range(n):
        sf = rnd.choice(["", "", "", "f", "F", "l", "L"])
        nd = rnd.choice([1, 1, 2, 3, 5, 8, 12, 15, 16, 17, 19, 20]) if rnd.random() < 0.93 else rnd.randint(21, 40)
        ni = rnd.randint(0, nd)
        ds = "".join(rnd.choice("0123456789") for _ in range(nd))
        if rnd.random() < 0.8 and ds[0] == "0":
            ds = rnd.choice("123456789") + ds[1:]
        ip, fr = ds[:ni], ds[ni:]
        if rnd.random() < 0.08:
            fr = "0" * rnd.randint(1, 6)
        style = rnd.random()
        ex = ""
        if style < 0.55 or not fr:
            lo, hi = rng[sf.lower()]
            if rnd.random() < 0.85:
                mag = rnd.randint(lo, hi) if rnd.random() < 0.5 else rnd.choice([lo, lo + 1, hi - 1, hi, 0, 1, -1, 10, 22, 23, 27, 28, -10, -22, -23, -27, -28])
                e = mag - len(ip.lstrip("0"))
            else:
                e = rnd.choice([0, 39, 309, -38, -308, 4933, -4932, 5000, -5000, 320, -330])
            ex = rnd.choice("eE") + (rnd.choice(["", "+"]) if e >= 0 else "-") + str(abs(e))
        text = ip + ("." + fr if fr else "") + ex + sf
        if not fr and not ex:
            text = ip + ".0" + sf
        out.append("lit " + hx(text))
    # the family C16_float_value_partial speaks about, at the precision boundaries
    for v in (0, 1, 9, 10, 2 ** 24 - 1, 2 ** 24, 2 ** 24 + 1, 2 ** 53 - 1, 2 ** 53, 2 ** 53 + 1, 2 ** 64 - 1, 2 ** 64, 2 ** 64 + 1, 999999999999999, 123456789012345678):
        for z in ("0", "000"):
            for s in ("", "f", "L"):
                out.append("lit " + hx("%d.%s%s" % (v, z, s)))
    return out


ESC_ALPHA = ["\\", "x", "u", "U", "0", "7", "8", "a", "f", "g", '"', "'", "$", "{", "}"]


def string_cases(rnd, tier):
    out = []
    full = 4 if tier == "thorough" else 3
    contents = [""]
    for n in range(1, full + 1):
        contents += ["".join(t) for t in itertools.product(ESC_ALPHA, repeat=n)]
    nsample = 60000 if tier == "thorough" else 2500
    for _ in range(nsample):
        contents.append("".join(rnd.choice(ESC_ALPHA) for _ in range(rnd.choice([full + 1, 5, 5, 6, 8]))))
    # unicode / octal / hex boundaries, plain bytes
    for cp in (0, 0x7f, 0x80, 0x7ff, 0x800, 0xd7ff, 0xd800, 0xdbff, 0xdfff, 0xe000, 0xffff):
        contents += ["\\u%04x" % cp, "\\u%04X" % cp, "\\U%08x" % cp, "\\u%03x" % (cp & 0xfff), "\\u%04xz" % cp]
    for cp in (0x10000, 0x10ffff, 0x110000, 0x1fffff, 0x200000, 0x7fffffff, 0x80000000, 0xffffffff):
        contents += ["\\U%08x" % cp, "\\U%07x" % (cp >> 4), "\\U%08xA" % cp]
    contents += ["\\%o" % v for v in (0, 7, 8, 63, 64, 255, 256, 377, 511)] + ["\\377", "\\400", "\\777", "\\1234", "\\08", "\\x", "\\xg", "\\x0", "\\x00", "\\x000",
                                                                                 "\\xfF", "\\xFf1", "\\a\\b\\f\\n\\r\\t\\v\\?\\'\\\"\\\\\\$", "\\e", "\\N", "\\ ", "a;b", "a\\;b", "$", "$$", "a$", "${", "$}", "\\${x}", "$\\{x}",
                                                                                 "${x}", "a${x}b${y}c", "${\"}\"}", "${1}${2}", "${}", "$ {x}", "}{", "a\nb", "a\r\nb", "\\\n", "\t"]
    for b in range(1, 256):
        if b not in (34, 39, 92, 10, 13):
            contents.append(chr(b))
    contents += ["a" + chr(b) + "b" for b in (0x80, 0xc3, 0xff)] + ["\xc3\xa9", "\\u00e9\xc3\xa9"]
    for c in contents:
        out.append("lit " + hx('"' + c + '"'))
        out.append("lit " + hx("'" + c + "'"))
    return out


def ident_cases(rnd, extra_collisions=()):
    ids = set(WORDS) | set(WITNESSES) | set(extra_collisions)
    for w in WORDS + RESERVED:
        if not re.fullmatch(r"[A-Za-z_][A-Za-z0-9_]*", w):
            continue
        ids |= {w + "x", "x" + w, w + "_", "_" + w, w[:-1], w[1:], w.upper(), w.lower(), w.capitalize(), w + w, w[:1] + w, w + "0"}
    for _ in range(300):
        ids.add(rnd.choice("abcXYZ_") + "".join(rnd.choice("abcxyzABC019_") for _ in range(rnd.randint(0, 9))))
    ids = sorted(i for i in ids if re.fullmatch(r"[A-Za-z_][A-Za-z0-9_]*", i))
    out = []
    for i in ids:
        out.append("lit " + hx(i))
        out.append("idv 4 " + hx("var " + i))
    return out


COLLIDE_C = r"""
#include <stdio.h>
#include <stdlib.h>
#include <stdint.h>
#include <string.h>
/* meet in the middle over 6-character identifiers: forward 3 characters from the offset basis, backward 3 from every target */
static const char FIRST[] = "abcdefghijklmnopqrstuvwxyzABCDEFGHIJKLMNOPQRSTUVWXYZ_";
static const char REST[] = "abcdefghijklmnopqrstuvwxyzABCDEFGHIJKLMNOPQRSTUVWXYZ_0123456789";
typedef struct { uint32_t h; char s[3]; } ent;
static int cmp(const void *a, const void *b) { uint32_t x = ((const ent *)a)->h, y = ((const ent *)b)->h; return x < y ? -1 : x > y; }
static uint32_t inv(uint32_t p) { uint32_t x = p; for (int i = 0; i < 5; i++) x *= 2 - p * x; return x; }
int main(int argc, char **argv) {
  uint32_t basis = strtoul(argv[1], 0, 10), prime = strtoul(argv[2], 0, 10), pinv = inv(prime);
  size_t nf = strlen(FIRST), nr = strlen(REST), n = 0;
  ent *tab = malloc(sizeof(ent) * nf * nr * nr);
  for (size_t a = 0; a < nf; a++) for (size_t b = 0; b < nr; b++) for (size_t c = 0; c < nr; c++) {
    uint32_t h = basis; h = (h ^ (uint32_t)FIRST[a]) * prime; h = (h ^ (uint32_t)REST[b]) * prime; h = (h ^ (uint32_t)REST[c]) * prime;
    tab[n].h = h; tab[n].s[0] = FIRST[a]; tab[n].s[1] = REST[b]; tab[n].s[2] = REST[c]; n++; }
  qsort(tab, n, sizeof(ent), cmp);
  for (int t = 3; t < argc; t++) {
    uint32_t target = strtoul(argv[t], 0, 10); int found = 0;
    for (size_t d = 0; d < nr && found < 3; d++) for (size_t e = 0; e < nr && found < 3; e++) for (size_t f = 0; f < nr && found < 3; f++) {
      uint32_t h = target; h = (h * pinv) ^ (uint32_t)REST[f]; h = (h * pinv) ^ (uint32_t)REST[e]; h = (h * pinv) ^ (uint32_t)REST[d];
      ent key; key.h = h; ent *r = bsearch(&key, tab, n, sizeof(ent), cmp);
      if (r) { printf("%u %c%c%c%c%c%c\n", target, r->s[0], r->s[1], r->s[2], REST[d], REST[e], REST[f]); found++; } } }
  return 0; }
"""


def collision_search(mbin):
    """fresh FNV-1a collisions with the keyword / reserved spellings, found now with the constants of the current source"""
    words = sorted(set(WORDS + RESERVED))
    _, hashes, _ = vlib.run_lines(mbin, ["fnv " + hx(w) for w in words] + ["fnv -"])
    basis = int(hashes[-1])
    _, one, _ = vlib.run_lines(mbin, ["fnv 00"])
    prime = int(one[0]) * pow(basis, -1, 2 ** 32) % 2 ** 32          # fnv("\0") = (basis ^ 0) * prime
    d = tempfile.mkdtemp(prefix="c16coll")
    open(os.path.join(d, "c.c"), "w").write(COLLIDE_C)
    vlib.run(["gcc", "-O2", "-o", os.path.join(d, "c"), os.path.join(d, "c.c")], check=True)
    rc, out, err = vlib.run([os.path.join(d, "c"), str(basis), str(prime)] + [h for h in hashes[:-1]], timeout=600)
    found = {}
    byhash = {int(h): w for w, h in zip(words, hashes[:-1])}
    for line in out.decode().split("\n"):
        if line.strip():
            h, ident = line.split()
            if ident != byhash[int(h)]:
                found[ident] = byhash[int(h)]
    return found, basis, prime


# ------------------------------------------------------------------ comparing observations
NODE = re.compile(r"^OK \( File t=- l=(\d+:\d+)-(\d+:\d+) (\( (Constant|Id) t=(\S+) l=(\d+:\d+)-(\d+:\d+)(?: k=(\S+))? \)) \)$")
FLT = re.compile(r"c,(float|double|ldouble):f(32|64|80):([0-9a-f]+|nan)")


def fbits_key(cls, bits):
    """monotone integer key of a non-negative IEEE bit pattern (for ulp distances)"""
    if bits == "nan":
        return None
    v = int(bits, 16)
    w = {"32": 32, "64": 64, "80": 80}[cls]
    if v >> (w - 1):
        return -(v & ((1 << (w - 1)) - 1))
    return v


def ulps(cls, a, b):
    ka, kb = fbits_key(cls, a), fbits_key(cls, b)
    if ka is None or kb is None:
        return 0 if a == b else None
    return abs(ka - kb)


def has_exponent(text):
    t = text.lower().rstrip("fl")
    return "e" in t


def compare(case, impl, model):
    """implementation observation vs the mechanism model's; returns (agree, what was compared)"""
    if model.startswith("CRASH") or model.startswith("OUTOFFUEL") or model.startswith("BADCASE"):
        return False, "model-crash"
    cmd = case.split()[0]
    text = vlib.unhex(case.split()[-1]).decode("latin-1")
    if cmd == "idv":
        if model.startswith("ERR("):
            return impl == model, "idv-error"
        m = re.match(r"ID rem=(\d+) (\(.*\))$", model)
        if m and m.group(1) == "0":
            return impl.startswith("OK ") and m.group(2) in impl, "idv-node"
        return True, "idv-skipped"
    if text in GRAMMAR_WORDS:
        return True, "grammar-word-skipped"
    if model.startswith("OK ") or model.startswith("ERR("):
        if impl == model:
            return True, "exact"
        mi, mm = NODE.match(impl), NODE.match(model)
        if mi and mm and mi.group(8) and mm.group(8) and has_exponent(text):
            fi, fm = FLT.match(mi.group(8)), FLT.match(mm.group(8))
            if fi and fm and fi.group(1) == fm.group(1) and mi.group(3).replace(mi.group(8), "") == mm.group(3).replace(mm.group(8), ""):
                d = ulps(fi.group(2), fi.group(3), fm.group(3))
                return (d is not None and d <= MODEL_POW_ULP), "float-pow"
        return False, "exact"
    if model.startswith("PARTIAL"):
        node = model.split(" ", 2)[2]
        if impl.startswith("OK "):
            if has_exponent(text) and FLT.search(node):
                return True, "partial-skipped"
            return node in impl, "partial-node"
        return True, "partial-skipped"
    if model.startswith("INTERP"):
        f = model.split(" ")
        segs, fin = f[2], " ".join(f[3:])
        if fin.startswith("ERR("):
            return impl.startswith("ERR("), "interp-error"
        if not impl.startswith("OK "):
            return True, "interp-skipped"      # the text inside ${...} did not parse: the grammar layer's business
        if f[1] != "rem=0":
            return True, "interp-skipped"
        loc = re.match(r"OK \( File t=- l=(\S+) ", impl).group(1)
        lits = re.findall(r"\( Constant t=(\S+) l=%s k=c,string:(\S+) \)" % re.escape(loc), impl)
        want = [s.split(":")[0] for s in segs.split(",")] + [fin[4:]]
        got = [a for a, b in lits if a == b]
        return got == want, "interp-segments"
    return True, "notok-skipped"


WORD_KIND = {"true": "c,bool:bool:1", "false": "c,bool:bool:0", "Infinity": "c,double:f64:7ff0000000000000", "NaN": "c,double:f64:nan",
             "__LINE__": "c,int:i32:1", "__FILE__": "c,string:" + FNAME, "__FUNC__": "c,string:" + hx("NOT_IN_FUNCTION"),
             "__CLASS__": "c,string:" + hx("NOT_IN_CLASS"), "placeholder": "m,placeholder"}
ICLS = {"int": "i32", "uint": "u32", "long": "i64", "ulong": "u64", "llong": "i64", "ullong": "u64"}


def satisfies(case, impl, spec):
    """does the implementation's observation satisfy what the specification demands of this spelling?  (ok, why)"""
    if impl.startswith("SIG(") or impl.startswith("EXIT("):
        return False, "the process died"
    f = spec.split()
    cmd = case.split()[0]
    texthex = case.split()[-1]
    text = vlib.unhex(texthex).decode("latin-1")
    m = NODE.match(impl)
    if f[0] in ("NOSPEC", "TOOBIG", "BADCASE"):
        return True, ""
    if f[0] == "ERROR":
        return impl.startswith("ERR(eval_error)"), "an ill-formed escape sequence must be rejected with eval_error"
    if cmd == "idv":
        if f[0] == "RESERVED":
            return impl.startswith("ERR(eval_error)"), "a reserved word must be refused as a variable name"
        if f[0] == "NAME":
            return impl.startswith("OK ") and ("( Id t=%s " % f[1]) in impl, "an identifier that is not a reserved word must be declarable"
        return True, ""
    if f[0] == "NAME":
        if text in GRAMMAR_WORDS:
            return True, ""
        return bool(m) and m.group(4) == "Id" and m.group(5) == f[1], "an identifier that is not a word literal must be an ordinary name"
    if not m or m.group(4) != "Constant":
        return False, "the literal must evaluate to one constant"
    kind = m.group(8)
    if f[0] == "INT":
        return m.group(5) == texthex and kind == "c,%s:%s:%s" % (f[1], ICLS[f[1]], f[2]), "integer literal: first fitting type of the C++ sequence, exact value"
    if f[0] == "STR":
        return kind == "c,string:" + f[1], "string literal: the bytes C++ escape decoding yields"
    if f[0] == "CHR":
        return kind == "c,char:i8:" + f[1], "character literal: exactly the one decoded char"
    if f[0] == "WORD":
        return kind == WORD_KIND[f[1]], "word literal recognised by its spelling"
    if f[0] == "FLT":
        fi = FLT.match(kind or "")
        if not fi or fi.group(1) != f[1]:
            return False, "floating literal: the suffix picks float / double / long double"
        d = ulps(fi.group(2), fi.group(3), f[2])
        return (d is not None and d <= FLOAT_TOL_ULP), "floating literal: within %d ulp of the correctly rounded value (a test)" % FLOAT_TOL_ULP
    return True, ""


FLOAT_RE = re.compile(r"(\d*)(?:\.(\d*))?(?:[eE]([+-]?\d+))?([fFlL]?)")
POW_RANGE = {"f": (-37, 38), "": (-307, 308), "l": (-4931, 4932)}      # decimal exponents e with 10^e a normal number of the type


def float_shape(text):
    m = FLOAT_RE.fullmatch(text)
    if not m:
        return None
    ip, fr, ex, sf = m.group(1) or "", m.group(2) or "", int(m.group(3) or 0), m.group(4).lower()
    digits = (ip + fr).lstrip("0")
    mag = None
    if digits:
        mag = (len(ip.lstrip("0")) + ex) if ip.lstrip("0") else (ex - (len(fr) - len(fr.lstrip("0"))))
    return len(ip + fr), mag, ex, sf


def float_in_scope(text):
    """the property speaks of spellings across the normal range (here: <= 20 significant digits, value zero or normal)"""
    sh = float_shape(text)
    if sh is None:
        return False
    nd, mag, ex, sf = sh
    if nd > 20 or abs(ex) > 4931:      # beyond that 10^e is not a normal long double (the power is formed in long double)
        return False
    if mag is None:
        return True
    lo, hi = POW_RANGE[sf]
    return lo + 1 < mag <= hi


# ------------------------------------------------------------------ the check
def par_lines(binp, lines, chunk=400):
    """run_lines over chunks in parallel (the extracted models do big-integer arithmetic on unary/binary numbers)"""
    from concurrent.futures import ThreadPoolExecutor
    parts = [lines[i:i + chunk] for i in range(0, len(lines), chunk)]
    with ThreadPoolExecutor(max_workers=vlib.NCPU) as ex:
        res = list(ex.map(lambda p: vlib.run_lines(binp, p, timeout=3000), parts))
    out, err = [], ""
    for p, (rc, o, e) in zip(parts, res):
        if len(o) != len(p):
            o = o + ["MISSING"] * (len(p) - len(o))
            err += e
        out += o
    return 0, out, err


def run(c, cases, hbin, mbin, sbin):
    impl_in = ["raw " + l.split()[-1] for l in cases]
    rc, impl, err = vlib.run_lines(hbin, impl_in, timeout=3000)
    rc3, specs, err3 = par_lines(sbin, cases)
    if mbin:
        rc2, model, err2 = par_lines(mbin, cases)
    else:
        model, err2 = [None] * len(cases), ""
    if len(impl) != len(cases) or len(model) != len(cases) or len(specs) != len(cases):
        raise vlib.BuildError("harness/model produced %d/%d/%d lines for %d cases\n%s\n%s\n%s" % (len(impl), len(model), len(specs), len(cases), err[-1500:], err2[-1500:], err3[-1500:]))
    ndis = nfail = 0
    seen = set()
    for case, i, mo, sp in zip(cases, impl, model, specs):
        c.cov["evaluations"] += 1
        kind = sp.split()[0]
        c.dist["spec:" + kind] = c.dist.get("spec:" + kind, 0) + 1
        text = vlib.unhex(case.split()[-1]).decode("latin-1")
        if mo is not None:
            ok, what = compare(case, i, mo)
            c.dist["tie:" + what] = c.dist.get("tie:" + what, 0) + 1
            if not what.endswith("skipped"):
                c.cov["traces_validated_against_impl"] += 1
            if not ok:
                ndis += 1
                if ndis <= 20:
                    c.disagree("lex", {"case": case, "text": text}, i, mo)
        judged = kind not in ("NOSPEC", "TOOBIG", "BADCASE")
        if kind == "FLT" and not float_in_scope(text):
            judged = False
            c.dist["float-out-of-range-not-judged"] = c.dist.get("float-out-of-range-not-judged", 0) + 1
        if judged or i.startswith("SIG(") or i.startswith("EXIT("):
            ok, why = satisfies(case, i, sp)
            if case not in seen:
                seen.add(case)
            if not ok:
                nfail += 1
                if nfail <= 40:
                    c.fail(why, {"case": case, "text": text, "impl": i, "spec": sp,
                                 "format": "lit <hex input> | idv <offset> <hex input>; impl = harness/h_parse.cpp dump; spec = LexSpecRun"})
    c.cov["distinct_nontrivial"] += len(seen)
    c.cov["disagreements_checked"] += len(cases)
    return impl, model, specs


def gen_cases(tier, seed, extra=()):
    rnd = random.Random(seed * 104729 + 16)
    cases = int_cases()
    cases += float_cases(rnd, 20000 if tier == "thorough" else 3000)
    cases += string_cases(rnd, tier)
    cases += ident_cases(rnd, extra)
    return cases


def read_corpus():
    out = []
    for l in open(os.path.join(vlib.ROOT, "corpus", "C16.txt")):
        l = l.rstrip("\n")
        if not l.strip() or l.startswith("#"):
            continue
        cmd, _, rest = l.partition(" ")
        if cmd == "text":                      # text <python string literal>
            out.append("lit " + hx(eval(rest)))
        elif cmd == "decl":
            out.append("idv 4 " + hx("var " + eval(rest)))
        else:
            out.append(l)
    return out


def builds():
    hbin = vlib.cxx_build("h_parse")
    sbin = vlib.model_build("lexspec", ["theories/LexSpecRun.vo"])
    return hbin, sbin


def warm():
    builds()
    vlib.model_build("lex", ["theories/LexRun.vo"])


def check(tier, seed):
    c = vlib.Check("C16", tier, seed)
    c.cov["rule"] = ("cases = single-literal inputs: integers = 6 base spellings x 29 suffix spellings x {0,1,2^k-1,2^k,2^k+1 : k in 7,8,15,16,31,32,63,64} (exhaustive); "
                     "floats = seeded spellings digits[.digits][e[+-]digits][f|F|l|L] plus the exact family of C16_float_value_partial; strings/chars = every content over "
                     "the 15-symbol escape alphabet up to length 3 (quick) / 4 (thorough) inside \"...\" and '...' plus seeded longer ones, escape boundary values, all plain bytes; "
                     "identifiers = word literals, reserved words, near-misses, FNV collision witnesses (thorough: fresh meet-in-the-middle search), each alone and after `var`. "
                     "non-trivial = the specification assigns the spelling a meaning (not NOSPEC/TOOBIG) so the implementation is judged; distinct = distinct input lines")
    c.assumptions = ["LP64 x86-64 (int 32, long = long long 64 bits, x87 long double); the input buffer is shorter than 2^31 bytes (Position::line/col are C++ int)",
                     "hand port of the scanners in LexDefs.v (validated against the compiled parser by this correspondence, not proved against the C++ standard); "
                     "std::stoll/stoull/stoul modelled per [string.conversions]/strtoll",
                     "std::pow in parse_num<T> is libm: the model uses the correctly rounded power; spellings with an exponent are compared within %d ulp, "
                     "the oracle for every floating literal is a %d-ulp tolerance TEST against the correctly rounded decimal value" % (MODEL_POW_ULP, FLOAT_TOL_ULP),
                     "C16_escape/C16_char are stated for the Char_Parser loop over the bytes between the quotes; that Quoted_String_/Single_Quoted_String_ delimit exactly those bytes "
                     "is tied by correspondence, not proved",
                     "translators tools/translate/t_IntLadder.py, t_Keywords.py (shape recognisers over chaiscript_parser.hpp, chaiscript_common.hpp, utility/hash.hpp)",
                     "C16_float_value_partial alone depends on the axioms of Coq's real numbers (through Flocq 4.1): ClassicalDedekindReals.sig_forall_dec, sig_not_dec, "
                     "FunctionalExtensionality.functional_extensionality_dep, Classical_Prop.classic",
                     "extraction: ExtrOcamlBasic + ExtrOcamlString, no Extract Constant; OCaml driver does line I/O only"]
    ok16 = c.prove("Properties_C16", model_targets=["props/Properties_Lex.vo"], translators=["IntLadder", "Keywords"])
    okl, textl, _ = vlib.coq_make(["props/Properties_Lex.vo"], translators=["IntLadder", "Keywords"])
    thms16 = list(c.cov.get("theorems", []))
    thmsl = vlib.theorems_in("Properties_Lex")
    c.cov["theorems"] = thms16 + thmsl
    c.cov["obligations"] = len(thms16) + len(thmsl)
    c.cov["discharged"] = (len(thms16) if ok16 else 0) + (len(thmsl) if okl["props/Properties_Lex.vo"] else 0)
    if not okl["props/Properties_Lex.vo"]:
        errs = re.findall(r'File "\./([^"]+)", line (\d+).*?\n(Error:.*?)(?=\n\S*make|\nFile|\Z)', textl, re.S)
        c.broken_ties.append(("proof", "Properties/Properties_Lex", str(errs[0] if errs else textl[-800:])[:700]))
    else:
        axl, closedl = vlib.assumptions_of("Properties_Lex")
        c.cov["trusted_base"] = list(c.cov["trusted_base"]) + ["Properties_Lex: " + ("axioms " + ", ".join(axl) if axl else "closed under the global context (%d reports)" % closedl)]
    hbin, sbin = builds()
    try:
        mbin = vlib.model_build("lex", ["theories/LexRun.vo"])
    except vlib.BuildError as ex:
        mbin = None
        c.broken_ties.append(("correspondence", "lex: the mechanism model no longer builds from the regenerated tables", str(ex)[-1500:]))
    extra = {}
    if mbin:
        # the committed witnesses must still collide under today's hash constants (otherwise they prove nothing)
        ws = sorted(WITNESSES)
        _, hs, _ = vlib.run_lines(mbin, ["fnv " + hx(w) for w in ws] + ["fnv " + hx(WITNESSES[w]) for w in ws])
        stale = [w for k, w in enumerate(ws) if hs[k] != hs[len(ws) + k]]
        c.extra["collision_witnesses"] = {"committed": WITNESSES, "stale_under_current_hash": stale}
        if tier == "thorough":
            extra, basis, prime = collision_search(mbin)
            c.extra["collision_witnesses"]["fresh_search"] = {"found": len(extra), "examples": dict(list(sorted(extra.items()))[:12]),
                                                               "offset_basis": basis, "prime": prime, "space": "6-character identifiers, meet in the middle"}
    corpus = read_corpus()
    cases = corpus + gen_cases(tier, seed, extra)
    impl, model, specs = run(c, cases, hbin, mbin, sbin)
    for k in (0, len(corpus) + 1234, len(cases) // 2, len(cases) - 40, len(cases) - 7):
        k = min(max(k, 0), len(cases) - 1)
        c.sample({"case": cases[k], "text": vlib.unhex(cases[k].split()[-1]).decode("latin-1"), "impl": impl[k], "model_mechanism": model[k], "model_spec": specs[k]})
    return c.finish()


def replay(path):
    r = json.load(open(os.path.join(vlib.ROOT, path) if not os.path.isabs(path) else path))
    hbin, sbin = builds()
    if r.get("kind") != "failing-input":
        print("tie-broken replay: the following no longer check:", json.dumps(r.get("no_longer_checks"), indent=1)[:3000])
        return 1
    case = r["failure"]["case"]["case"]
    _, i, _ = vlib.run_lines(hbin, ["raw " + case.split()[-1]])
    _, s, _ = vlib.run_lines(sbin, [case])
    print("case:", case, "\ntext:", repr(vlib.unhex(case.split()[-1]).decode("latin-1")), "\nimpl:", i[0], "\nspec:", s[0])
    ok, why = satisfies(case, i[0], s[0])
    print("REPRODUCED: " + why if not ok else "not reproduced")
    return 0 if ok else 1
