"""MANIFEST.setup_cmd: build everything the checks need from files on disk only."""
import glob, importlib, os, sys
import vlib


def main():
    bad = vlib.axiom_gate()
    if bad:
        print("axiom gate failed:\n" + "\n".join(bad))
        return 1
    # all Coq files (translators run first)
    vlib.run_translators()
    vlib.coq_project()
    targets = [os.path.relpath(p, vlib.COQ)[:-2] + ".vo" for d in ("theories", "gen", "props") for p in sorted(glob.glob(os.path.join(vlib.COQ, d, "*.v")))]
    import json
    claimed = [c["property_id"] for c in json.load(open(os.path.join(vlib.ROOT, "MANIFEST.json")))["checks"]]
    ok, text, tr = vlib.coq_make(targets, timeout=3000)
    failed = [t for t in ok if not ok[t]]
    rc = 0
    if failed:
        # files of checks that are not (yet) claimed in MANIFEST.json do not fail the setup; each claimed check rebuilds and
        # reports its own proof obligations anyway
        mine = [t for t in failed if t.startswith("props/") and any(("_" + c + ".") in t for c in claimed)]
        print("Coq build failed for", failed, "\n", text[-4000:])
        if mine:
            rc = 1
    # per-property warm-up hooks (harness + model binaries)
    for f in sorted(glob.glob(os.path.join(vlib.ROOT, "tools", "p_C*.py"))):
        if os.path.basename(f)[2:-3] not in claimed:
            continue
        m = importlib.import_module(os.path.basename(f)[:-3])
        if hasattr(m, "warm"):
            try:
                m.warm()
            except Exception as ex:
                print("warm-up failed for", f, ex)
                rc = 1
    print("setup ok" if rc == 0 else "setup finished with errors")
    return rc
