#!/usr/bin/env python3
"""Regenerates MANIFEST.json from the per-property metadata below (run by hand after editing)."""
import json, os, subprocess
ROOT = os.path.dirname(os.path.dirname(os.path.abspath(__file__)))

CLAIMED = {
    "C05": {
        "category": "proof",
        "text": "Coq theorems (Properties_C05.v: C05_value, C05_no_trap, C05_no_spurious_error, C05_unary, C05_types, C05_routes) over the opcode/guard/section "
                "tables, the type ladder, to_operator and opers_arithmetic_pod, all regenerated from boxed_number.hpp, chaiscript_algebraic.hpp and bootstrap.hpp on every run: "
                "for all operand values of all eleven Common_Types every case of Boxed_Number::go yields the C++ operator's result or the demanded arithmetic_error and never traps. "
                "The model's C++ arithmetic (integer conversions, SpecFloat binary32/64/x87-80) is tied to the compiled code by a 65k-case matrix over 8 routes x 32 operators x 18x18 types.",
        "design_ref": "DESIGN.md §6 C05",
        "note": "Trusted: Coq kernel + vm_compute; translator t_NumTables.py (shape recogniser); hand transcription of C++ arithmetic in NumDefs.v (validated by the matrix, "
                "not proved against the C++ standard); LP64/x86-64 data model asserted at run time; extraction (ExtrOcamlBasic, ExtrOcamlString). No axioms (Print Assumptions: closed).",
        "technique": "Coq proof over source-regenerated tables + extracted-model differential matrix",
    },
    "C17": {
        "category": "proof",
        "text": "37 Coq theorems (Properties_C17.v), one per prelude algorithm, for ALL input lists and callbacks (induction, unbounded): the Gallina transcription of each "
                "script-level function (for_each, map, filter, foldl, reduce, sum, product, any_of, all_of, contains, find, take(_while), drop(_while), zip(_with), concat, join, "
                "reverse, retro, generate_range, min, max, even, odd, trim family, to_string of containers/pairs) returns its functional specification, leaves its inputs "
                "unmodified and calls the callback once per element in order (early exit visible). The transcription G_Prelude.v is regenerated from the ChaiScript text in "
                "chaiscript_prelude.hpp on every run by a statement-level translator, and tied to the running engine by a 15.8k-case (quick) / 126k-case (thorough) three-way "
                "correspondence: real engine vs extracted mechanism model vs extracted specification.",
        "design_ref": "DESIGN.md §6 C17",
        "note": "Trusted: Coq kernel; translator t_Prelude.py (statement forms it accepts; parameter typing supplied by hand; new/clone/range/back_inserter/lt/gt/string::find* pinned as "
                "text); the range monad of PreludeDefs.v as the meaning of range()/front/pop_front/push_back; extraction. Not covered: maps as containers, throwing or mutating "
                "callbacks, aliasing of two arguments. No axioms.",
        "technique": "Coq proof over source-regenerated Gallina + extracted-model correspondence",
    },
    "C03": {
        "category": "translation_validation",
        "text": "Conformance to a reference interpreter: the Coq evaluator (Eval.v: two-level Boxed_Value store, scopes/frames, dispatch by arity, declared parameter types and guard, "
                "script-defined classes with attributes, constructor overloads, methods, attributes created on the spot, functions held in attributes and object copies, maps, exceptions as "
                "outcomes; specification arithmetic of NumDefs) run on the unoptimised tree is the reference; every generated program's stdout, result value/type and error outcome from the "
                "real default engine must equal the reference's. Laws of the reference are proved in Properties_C03.v for every sub-term evaluator (hence every fuel): short-circuit, if, "
                "break/continue/return, block and function scoping, a parameter typed with a class accepts exactly the objects of that class (C03_class_typed_parameter), a method is not "
                "entered with another class's object or a non-object (C03_method_refuses_other_classes), a constructor answers the object made for it (C03_constructor_answers_its_object), "
                "an attribute read answers the attribute's own Boxed_Value (C03_attribute_identity), an attribute created on the spot is the one later reads answer (C03_attribute_created_once). Nothing is claimed about programs that were not generated.",
        "design_ref": "DESIGN.md §6 C03, §11.2",
        "note": "The reference covers ints/bools/strings/vectors/maps, blocks, if, loops with break/continue, switch, functions with typed parameters/guards/recursion, lambdas with captures, "
                "references vs copies, try/catch/finally, script classes; programs outside it (to_string/== of objects, const objects, methods named like engine functions, overloads whose "
                "order depends on type_info::before, ...) are counted and not judged. Trusted: tree dump/reader (round-trip tied), generator, canonicaliser.",
        "technique": "translation validation against an extracted Coq reference interpreter + Coq laws of that interpreter",
    },
    "C13": {
        "category": "proof",
        "text": "Coq theorems (Properties_C13.v) over the lock/field-access table of Dispatch_Engine, Type_Conversions and ChaiScript_Basic regenerated from the headers on every run "
                "(t_Locks.py): C13_lockset (generic, induction over all interleavings respecting exclusive/shared/recursive mutex semantics) + C13_lockset_instance (vm_compute: every "
                "public member function keeps each shared field inside its mutex, exclusively for writes; exempt atomic/per-thread fields are part of the statement), "
                "C13_section_exclusive/C13_registration_sections, C13_retained and C13_visible (every interleaving of registration sections), C13_use_once (m_use_mutex held across "
                "eval_file). Tie: translator + sequential histories vs the extracted state-transformer model. PARTIAL by nature: races below the critical-section abstraction "
                "(Boxed_Value::Data flags, m_loc atomics, thread_local maps, shared_ptr control blocks, libstdc++) and solo-equality of thread results are only stress-tested under "
                "ThreadSanitizer (T=2..16, injected yields) and labelled stress evidence, not proof.",
        "design_ref": "DESIGN.md §6 C13",
        "note": "Trusted: Coq kernel+vm_compute; t_Locks.py text recogniser (textual order stands for all paths; `_int` helpers analysed at call sites; constructors single-threaded; "
                "CHAISCRIPT_VERIF build checked to have identical locks/shared accesses); one exclusive section = one atomic transformer; abstract engine state tied to the real tables "
                "only by sequential histories; extraction; gcc-12 TSan and the schedules it happens to see. No axioms.",
        "technique": "Coq lockset/interleaving proofs over a source-regenerated lock table + extracted-model differential + ThreadSanitizer stress",
    },
    "C12": {
        "category": "proof",
        "text": "Coq theorems (Properties_C12.v: C12_guarded, C12_functional, C12_table_complete, C12_find_meaning, C12_sequences) over the wrapper table regenerated on every run from "
                "bootstrap_stl.hpp, chaiscript_stdlib.hpp and the prelude (115 rows: Vector, List, string, Map, Pair, Bidir_Range types; wrapper kind, forwarded argument order, exact "
                "guard comparison, std:: operation). For all container states and arguments no wrapper leaves a std:: precondition unchecked (UB is an explicit outcome of the model) "
                "and each equals its list-function specification; by induction over operation sequences of any length, with range views kept only across const observers, no step is "
                "UB and the invariant holds. The model's std:: semantics are tied to libstdc++ by step-by-step sequence correspondence under ASan+UBSan+_GLIBCXX_ASSERTIONS.",
        "design_ref": "DESIGN.md §6 C12",
        "note": "Trusted: Coq kernel + vm_compute; translator t_StlWrappers.py; hand transcription of std:: preconditions/effects in ContDefs.v (validated by the correspondence, not proved "
                "against the C++ standard); Boxed_Value aliasing of elements and overload choice between C++ and prelude functions are outside the model; modify-while-viewed is a "
                "non-judged corpus entry; List is harness-instantiated. No axioms.",
        "technique": "Coq proof over source-regenerated wrapper table + extracted-model differential sequences under sanitizers",
    },
    "C16": {
        "category": "proof",
        "text": "Coq theorems (Properties_C16.v: C16_int, C16_int_buildInt, C16_escape, C16_char, C16_escape_plain, C16_float_type, C16_float_value_partial, C16_keywords, C16_reserved, "
                "C16_hash_only_refuted; Properties_Lex.v: lexer_safe for every scanner) over a line-by-line Gallina port of the parser's lexical layer, with buildInt/buildFloat's suffix "
                "scans and type ladders, Id()'s keyword guard list and hash-switch labels, Name_Validator's lists, the FNV-1a constants and the 12 alphabets regenerated from "
                "chaiscript_parser.hpp / chaiscript_common.hpp / utility/hash.hpp on every run: every well-formed integer literal gets the first fitting type of its [lex.icon] "
                "sequence and its exact value from Num(); the Char_Parser loop equals an independent C++ escape decoder (errors exactly where the literal is ill-formed); word literals "
                "and reserved words are recognised by spelling only (a hash-only recogniser is refuted by computed FNV collisions); the float suffix picks the type; integer-valued "
                "D.0 spellings are exact. Tie: 21k (quick) / 255k (thorough) single-literal correspondence with the compiled parser; oracle = extracted C++ specification.",
        "design_ref": "DESIGN.md §6 C16",
        "note": "Partial: float VALUES beyond the exact family are not proved (C16_float_value_partial); they are covered by bit-exact correspondence for exponent-free spellings and an "
                "8-ulp tolerance TEST against the correctly rounded value (std::pow is libm; the model uses the correctly rounded power). Trusted: Coq kernel + vm_compute; translators "
                "t_IntLadder.py/t_Keywords.py; hand port in LexDefs.v (validated by correspondence); LP64/x87; extraction. Axioms: none except, for C16_float_value_partial only, Coq's "
                "real-number axioms through Flocq (ClassicalDedekindReals.sig_forall_dec, sig_not_dec, Classical_Prop.classic, functional_extensionality_dep).",
        "technique": "Coq proof over source-regenerated tables + ported scanners; extracted-model/spec differential testing of the real parser",
    },
    "C06": {
        "category": "proof",
        "text": "Coq theorems (Properties_C06.v: C06_sound, C06_sound_registered, C06_single_entry, C06_exact_preferred, C06_arity_none, C06_cast_out, C06_call_out, C06_registration, "
                "C06_attr_null, and since session 3 C06_no_internal_exception (neither a registered call nor boxed_cast ends in the internal bad_any_cast), "
                "C06_order_ignores_return_types (stable_sort commutes with any reassignment of return types; dispatch is invariant), C06_nonconst_twin_first (f(T&)/f(const T&) in either "
                "registration order), C06_const_never_mutable, C06_reseat_history (after any number of re-seats through shared_ptr<T>& every boxed_cast form sees the last object)) over ports of boxed_cast, call_func, Param_Types, Attribute_Access, compare_type_to_param, filter, dispatch, dispatch_with_conversions, "
                "function_less_than + stable_sort, for all overload lists, registration orders, argument tuples and conversion tables; the Cast_Helper_Inner/verify_type rules, "
                "boxed_cast control flow, arity check and retry classes are regenerated from the source on every run (t_CastRules.py) and must satisfy rules_ok by computation. Tie: "
                "23k (quick) / 204k+ (thorough, part under ASan) cases of a 75-signature catalogue (incl. const/non-const twins with differing return types, two-parameter twins, "
                "conversion sources next to catch-alls) and re-seat histories (H lines: 1-3 re-seats then a call or a cast-out in all 11 forms) diffed against the extracted model; the "
                "translator emits the function_less_than start index, the Sentinel's refreshed pointers and the up-conversion catch class as rules; oracle = extracted specification.",
        "design_ref": "DESIGN.md §6 C06",
        "note": "Hypotheses: callee bodies never throw bad_boxed_cast/arity_error/guard_error (known caveat of dispatch); env_ok; func_wf. exact_preferred is proved as 'what is entered is "
                "exact' (the 'an exact overload is entered' half is oracle-only). Trusted: translator shape recogniser, catalogue environment mirrored in DispatchSpecRun.v "
                "(validated by the correspondence), type_info::before ranks as input, extraction. No axioms.",
        "technique": "Coq proof over source-regenerated cast/dispatch rules + extracted-model differential dispatch matrix",
    },
    "C07": {
        "category": "proof",
        "text": "Coq theorems (Properties_C07.v: C07_cast_guard, C07_cast_guard_boxed_cast, C07_grant, C07_const_propagates, C07_immutable) over the regenerated cast rules and guards "
                "(t_CastRules.py, t_ConstRules.py: Equation/Prefix guards, Boxed_Number in-place pointer, Data::operator=, Handle_Return, stdlib wrapper forms): for every program of "
                "aliasing routes and mutation attempts a const object keeps its value and every attempt ends in an error (or runs on a converted temporary). Tie: 31k/99k cases (type x "
                "const source kind x route chain <=2 x mutator, plus control sources) diffed against the extracted model; oracle = extracted const_verdict on C++-side before/after values. Since session 3 also: the host entry points (the four const_var overloads and var), the registration functions (add/add_global/add_global_const/set_global), the way add_function boxes a function object and every function registered under an assignment-like name in bootstrap.hpp are regenerated as tables and proved: C07_const_entry_points, C07_entry_points_meet_spec, C07_function_objects_const, C07_const_registration, C07_shared_const_immutable (after sharing l through a const_* entry point no program changes l, by induction, no bounds), C07_assign_functions_reject_const. Correspondence: 61k cases (ways of sharing x registrations x mutators in operator and function spelling, const function values x every assignment spelling x ten routes) with the C++ object read back from C++.",
        "design_ref": "DESIGN.md §6 C07",
        "note": "Assumes const-correct C++ callees (no const_cast). Two known findings (const container elements are mutable; an attempt on a converted temporary raises no error) are "
                "keyed in known_findings.json. No axioms.",
        "technique": "Coq proof over source-regenerated rules + extracted-model differential const matrix",
    },
    "C09": {
        "category": "proof",
        "text": "Coq theorems (Properties_C09.v: C09_shape, C09_shape_every_node, C09_persistence, C09_scoped_leaves_nothing, C09_call_leaves_nothing) over the evaluator model "
                "(Eval.v: every node's semantics is a program over 18 primitive effects and the combinators Handle/Scoped/Framed/InCall/Loop/Ev): for every tree, state, fuel and outcome "
                "(value, return, break/continue, script throw, any C++ exception incl. injected callback faults, eval_error) the stack shape (scopes per frame, saved-parameter lists, "
                "call depth) is restored, existing bindings are kept in place, only the innermost scope may gain bindings, and nothing declared inside a scoped construct or a call "
                "survives it — proved once by induction on programs (EvalMeta.v). Tie + oracle: fault enumeration on the real engine (each callback invocation x 5 exception kinds) "
                "with the CHAISCRIPT_VERIF shape hook, probe script and locals, compared fault by fault with the extracted model.",
        "design_ref": "DESIGN.md §6 C09",
        "note": "Theorems are about the model; the implementation is tied by differential fault enumeration on the modelled subset. Conversion_Saves is not in the model: that component of "
                "the shape is judged on the implementation only. Trusted: Coq kernel, tree dump/reader, generator, hooks H2. No axioms.",
        "technique": "Coq proof by induction over effect programs + differential fault enumeration with a shape hook",
    },
    "C10": {
        "category": "proof",
        "text": "Coq theorems (Properties_C10.v): C10_try_refines_spec — the evaluator model's Try node (port of the repaired Try_AST_Node) satisfies the inference-rule specification "
                "TrySpec for every sub-term evaluator, tree and state (first accepting clause wins and later ones are not looked at, at most one catch block runs, an exception no "
                "clause accepts continues as the same exception, finally runs exactly once on every path incl. return/break/continue and throwing catch blocks, non-std C++ exceptions "
                "are seen by no clause); brackets (call frames, scopes) intercept nothing; sequencing stops at the throw point. Tie + oracle: 900 (quick) / 12k (thorough) generated "
                "nests x thrown kinds x frames x callback faults; the oracle is the extracted reference evaluator.",
        "design_ref": "DESIGN.md §6 C10",
        "note": "Clause acceptance for C++ exception classes follows a hand-written base-class table (exception, runtime_error, logic_error, out_of_range, eval_error, arithmetic_error) "
                "validated by the correspondence. bind(), for_each/map callbacks, Dynamic_Object payloads and exception_specification at the C++ boundary are outside the modelled "
                "subset. No axioms.",
        "technique": "Coq refinement proof of the Try node against an inference-rule specification + extracted-model differential testing",
    },
    "C04": {
        "category": "proof",
        "text": "Coq theorems (Properties_C04.v): C04_innermost (the by-name search returns the first entry with the name in the innermost scope of the current frame that has it), "
                "C04_hint_codec (the distance/slot packing is lossless), C04_valid_hit_transparent (a cached lookup whose hint still describes what a by-name search finds returns "
                "the same Boxed_Value and changes only the hint table) — and C04_refuted: the full statement is FALSE of the faithful model and of the code (witness evaluated in Coq: "
                "g(false); g(true) returns 100 with the cache, 1 without). The stale-hint behaviour is a recorded known finding keyed by call site; the check attributes a cache-visible "
                "difference to it only when the faithful model (hints on) reproduces the cached run and the model without the mechanism reproduces the bypassed run; any other "
                "difference, and any departure of the bypassed engine from the innermost-binding reference, is a violation.",
        "design_ref": "DESIGN.md §6 C04",
        "note": "Hook H1 (CHAISCRIPT_VERIF: Dispatch_Engine::verif_ignore_hints). eval() texts are pre-parsed by the implementation's parser. use(), globals and attribute-held lambdas are "
                "outside the modelled subset; function-position hints (validated by name in the code) are not modelled. No axioms.",
        "technique": "Coq proof of the lookup lemmas + computed refutation witness; two-mode differential testing with model-based finding attribution",
    },
    "C15": {
        "category": "proof",
        "text": "Coq theorems (Properties_C15.v: C15_tables_in_step, C15_simulation, C15_restore, C15_added_gone, C15_readd, C15_readd_fresh, C15_snapshot_stable, C15_snapshot_is_env, "
                "C15_locals_untouched, C15_no_dangling, C15_hints_safe, C15_fields_complete, C15_cow) for ALL histories over {add_function (def, C++, class members), globals, add type, "
                "scripts, use(file), load_module, get_state, set_state(any snapshot)}: the mechanism (three function tables over shared overload vectors; add_function's known-name "
                "branch, the State field lists and QuickFlatMap's hint guard regenerated from the source on every run) simulates a dictionary specification, so set_state restores "
                "exactly the environment of get_state time, what was added is gone and can be added again, saved states never change. Tied by 400/4000 generated histories executed on "
                "a real engine and diffed after every step with the extracted mechanism model; oracle = extracted dictionary spec.",
        "design_ref": "DESIGN.md §6 C15",
        "note": "Trusted: Coq kernel + vm_compute; translator t_EngineState.py; hand-written operation semantics in EngineDefs.v (validated step by step against the engine); function "
                "identity = Proxy_Function address renamed by first appearance; extraction. No axioms.",
        "technique": "Coq simulation proof over a source-regenerated mechanism description + extracted-model differential testing of histories",
    },
    "C19": {
        "category": "proof",
        "text": "Coq theorems (Properties_C19.v: C19_load, C19_load_ops, C19_eval_file, C19_use_once, C19_use_search_order, C19_missing): skip_bom/load_file, as the ordered list of ifstream "
                "operations regenerated from chaiscript_engine.hpp and interpreted over a model of std::ifstream (read/seekg/clear/tellg, fail and eof bits), return for every content of "
                "every length exactly the bytes minus at most one leading EF BB BF; use()'s body (regenerated) never evaluates a path again once it is in m_used_files, evaluates the "
                "first existing candidate in search-path order, and reports the name it was given when nothing is found, for all histories with nested use / eval_file / errors. Tied by "
                "~1300 load cases on the real load_file (all lengths 0..64 x BOM variants x CRLF x shebang x NULs), ~830 eval_file(path) vs eval(bytes) comparisons and 300 histories.",
        "design_ref": "DESIGN.md §6 C19",
        "note": "Trusted: Coq kernel + vm_compute; translator t_LoadFile.py; hand transcription of libstdc++ ifstream semantics in FilesDefs.v (validated by the load matrix incl. the 1-2 "
                "byte failed-read path); shebang/parse behaviour is covered by the eval_file==eval differential only. No axioms.",
        "technique": "Coq proof over source-regenerated operation lists + extracted-model differential on real files and histories",
    },
    "C14": {
        "category": "proof",
        "text": "Coq theorems (Properties_C14.v: C14_isolated, C14_matches_spec, C14_isolated_any_sound_policy, C14_key_policy, C14_state_is_per_engine, C14_refuted_by_address): with the "
                "key policy extracted from class Thread_Storage on every run (every accessor and the destructor key the thread_local map by m_id, initialised from a static atomic "
                "counter => ByFreshId), for every history of create / eval on thread t / destroy on thread t over any number of engines, threads and reused addresses, what an engine "
                "observes is a function of the operations applied to it alone; with keys = addresses a vm_compute history has the second engine read the first one's locals. Tied by "
                "400/4000 histories on real engines (3 long-lived worker threads, engines placement-constructed in a 3-slot arena so addresses are reused) diffed with the extracted "
                "model, plus single-engine replays on the implementation itself.",
        "design_ref": "DESIGN.md §6 C14",
        "note": "Trusted: Coq kernel + vm_compute; translator t_ThreadStorage.py; one Thread_Storage per engine in the model (the engine has three with the same mechanism); commands are "
                "serialised by the driver (true concurrency is C13); tables are record fields of the engine (isolation by construction, checked through the member/static scan). No axioms.",
        "technique": "Coq noninterference proof parametrised by a source-extracted key policy + extracted-model differential on a deterministic multi-thread driver",
    },
    "C08": {
        "category": "proof",
        "text": "Coq theorems (Properties_C08.v): C08_const_discipline — every effect program (hence every node of every tree, every depth, every call history) leaves all frozen objects of the "
                "heap bit-identical (M3: induction over programs, `keeps`/`cinv`); C08_constant_never_changes — the object a Constant node hands out is the same object with the same value "
                "at every later evaluation, whatever ran in between; C08_fresh_constant_is_frozen; C08_optimizer_keeps_constants_const — every one of the nine optimizer passes and the "
                "bottom-up driver maps trees whose Constant nodes all hold const values to such trees (incl. folded &&/||, folded conversions, For_Loop/If/Block rewrites). Tie: every "
                "generated program is evaluated k times on one engine; outputs must repeat, the syntax tree dumped after evaluation must equal the tree dumped before (values, types, const "
                "flags of every Constant), the optimised tree must satisfy the theorem's premise (all Constant values const), and model and implementation must agree on every observation.",
        "design_ref": "DESIGN.md §6 C08",
        "note": "Modelled, not verified: Boxed_Value const flag enforcement lives in boxed_cast/assignable checks (ported by hand into the heap primitives PAssign/PWrite/PAlias and validated by the "
                "correspondence); C++ functions registered by an embedder that const_cast are outside the model. No axioms.",
        "technique": "Coq invariant proof by induction over effect programs + optimizer pass lemmas + tree-before/after dump and repeated-evaluation differential",
    },
    "C18": {
        "category": "proof",
        "text": "C18_total/C18_total_no_stuck/C18_depth_bound: for every byte string from_json returns a value or one of its three runtime_errors; the port never runs out of fuel, never wraps a "
                "size_t, every read is at()/substr() with OutOfRange explicit, nesting <= 512. C18_escape_roundtrip (all byte strings), C18_int_roundtrip (all int64, INT64_MIN via explicit wrap). "
                "C18_roundtrip: from_json(to_json(v)) = v for all trees of int64/bool/string/null/vector/string-keyed map (maps as std::map order, ints numerically, height <= 512 = Depth_Guard). "
                "C18_idempotent for texts without floating-point numbers. PARTIAL: doubles (value and %f text) are outside the model; the 1e-6 tolerance clause is only tested.",
        "design_ref": "DESIGN.md §6 C18",
        "note": "tie = correspondence every run: h_json (ASan+UBSan, signed-overflow check off because parse_num<int64_t> relies on wrap-around) vs extracted JsonRun on ~10.5k (quick) / ~590k "
                "(thorough) texts and trees incl. deep nesting to 1e5/1e6; oracle = extracted JsonSpecRun. Known finding: non-finite doubles (1e999) do not survive to_json. No axioms.",
        "technique": "Coq 8.16 proof over a hand port (JsonDefs.v) + extracted-model/implementation correspondence + extracted specification oracle",
    },
    "C02": {
        "category": "translation_validation",
        "text": "Per-program validation with a Coq-extracted evaluator and optimizer, plus theorems about the optimizer model. For every generated program (optimizer-directed grammar: constant "
                "expressions incl. division by zero and ternaries, constant conditions, declaration-free blocks, canonical/near-miss for loops with captured or assigned counters, trailing "
                "returns, unused results, conversions) the implementation is run with and without the optimizer: stdout, value+type, error class+reason and the harness callback count must be "
                "equal. Tie: the Coq optimizer (nine passes + bottom-up driver, pass order regenerated from the source) applied to the implementation's unoptimised tree must equal the "
                "implementation's optimised tree node for node, and the Coq evaluator must reproduce the implementation on both trees. Theorems (Properties_C02.v, all trees): Return is the "
                "identity, Partial_Fold yields the same effect program, a folded binary constant holds exactly the runtime operator's value and nothing is folded when the operator traps, If picks "
                "the branch eval_if would take, Dead_Code keeps the last child and all non-constant children in order, passes only touch their own node kind, constants stay const. The general "
                "semantic-preservation theorem (for all programs at once) is NOT proved; it needs location-renaming equivariance of the evaluator (DESIGN.md, stage M4).",
        "design_ref": "DESIGN.md §6 C02",
        "note": "Known finding: Constant_Fold folds int(c)/long(c)/… into a shared const constant (attributed by switching that one branch off in the model's optimizer). Constant arithmetic whose "
                "C++ result is undefined (signed overflow, oversized shifts) is folded by the implementation to whatever its compiler produced: those trees are counted and not compared. "
                "C++-visible effects are observed through one int callback and stdout only. No axioms.",
        "technique": "translation validation against Coq-extracted optimizer and evaluator models + Coq theorems about the optimizer passes",
    },
    "C11": {
        "category": "proof",
        "text": "Machine-checked (Coq 8.16, no axioms) reference-counting machine of objects with identity, owning/non-owning handles and referrers (scope variables, temporaries, call_params, "
                "conversion saves, C++-held shared_ptrs, slots of containers/attributes/captures/bound arguments): for ALL operation histories each object is destroyed at most once and exactly once "
                "by engine destruction unless on a cycle, its counter equals the number of owning referrers, it is alive while one exists and destroyed in the very step that removes the last; no use "
                "after destruction provided every non-owning handle is covered by an owner (semantic condition `covered` and syntactic scope discipline `disciplined_run`), with the unconditional "
                "statement refuted by the ranged-for map-pair route (known finding). The ownership routes (Object_Data::get, Handle_Return, constructor/clone/conversion/var-decl) are regenerated "
                "from the source on every run and proved equal to the specification (creation routes owning, only pointer/reference shapes non-owning). Tie: every run compares ~1000 (quick) / "
                "~6400 (thorough) generated programs over an instrumented class, under ASan+UBSan with both parsers, against the extracted machine at every checkpoint, C++ function entry, engine "
                "destruction and C++ release.",
        "design_ref": "DESIGN.md §6 C11, §11",
        "note": "Observation points are checkpoints / C++ function entries / engine end; destructor order inside one C++ full-expression, allocator reuse and other threads' Thread_Storage are not "
                "modelled. The script->operation rendering (tools/p_C11.py Exec: where the evaluator keeps handles, incl. call_params per scope, clone guard saves, Unused_Return, rv flag in the "
                "shared Data) is trusted only through the per-run comparison. Known findings: ranged-for element reference; references obtained through a C++ API from a temporary owner at top "
                "level; a C++ function returning its `const shared_ptr<T>&` parameter (both outside the generated grammar, recorded from the builder's probes).",
        "technique": "Coq proof over a hand-written model + translator-regenerated tables (t_Ownership) + extracted-model/implementation correspondence with sanitizer oracle",
    },
    "C01": {
        "category": "proof",
        "text": "For every byte string, the model of ChaiScript_Parser::parse (28 mutually recursive grammar functions over the lexer model, operator/keyword/depth tables regenerated from the "
                "source on every run) terminates (C01_terminates: one induction on the call-depth fuel; every continuing loop iteration consumes a byte), never crashes (C01_safe: no read or "
                "decrement outside the buffer, match stack, operator table or a node's children, no node-constructor assertion, no foreign exception), keeps the chain of nested grammar calls "
                "within the 512-level Depth_Counter and reports excess as an error (C01_depth_*), and accounts for the whole input: a successful parse is a File node with the cursor at the end "
                "or the Noop node of a trivia-only input (C01_accounts, for ALL inputs incl. those beginning with `#!`: C01_shebang_line proves the shebang loop skips exactly that line), with "
                "exactly the root left on the match stack (C01_no_leaked_nodes). An eval_error carries no position (escape-sequence errors of the Char_Parser) or the line of a cursor position "
                "inside the caller's buffer, nested `${...}` parses included (C01_error_position). The file name passed to parse() influences only stored file-name fields and `__FILE__` "
                "constants; errors are identical and the two runs are in lock step (C01_fname_independent). Tie: ~44k (quick) / ~140k (thorough) inputs per run, ASan/UBSan parser vs extracted "
                "model, tree for tree; oracle independent of the model (trivia automaton, end position, expected file name).",
        "design_ref": "DESIGN.md §6 C01, §11",
        "note": "Hand port of the grammar layer (ParserDefs.v), tied by the correspondence only. C01_error_position covers the line, not the column (needs the C20 decrement side conditions along "
                "error paths). Escape-sequence errors (octal out of range, incomplete hex, unicode) are thrown by the one-argument eval_error and carry position 0:0. The amount of work is exponential "
                "in inline-container nesting (known finding) and left-deep chains are not depth-limited (known finding: the tree overflows the native stack when destroyed/evaluated). No axioms.",
        "technique": "Coq proofs over a hand-ported grammar + source-regenerated tables + extracted-model/implementation correspondence under sanitizers",
    },
    "C20": {
        "category": "proof",
        "text": "Parser side: Position ++/-- keep (line, col) equal to their definition from the byte index at every use site incl. the two decrements of Dot_Fun_Array (C20_inc, C20_dec, "
                "C20_dec_sites); an Id token records the coordinates of its first byte, build_match gives a node the start of its first child (or the current position), the current file name "
                "and all children, and these invariants hold in every reachable parser state (C20_node_start_partial; the tree-wide composition is not proved). Evaluator side: the wrapper "
                "AST_Node_Impl::eval appends exactly the node being left to an eval_error's call stack and changes nothing else (C20_wrapper_appends_the_node), hence for every tree, state and "
                "depth the stack lists the active constructs innermost first (C20_call_stack_innermost_first), and an unresolvable identifier yields an error whose only entry is the identifier's "
                "own position (C20_unresolved_identifier_points_at_itself). Tie + oracle: 704 / 6004 generated multi-file, multi-line programs with one injected fault, optimizer on and off: "
                "call_stack[0] and every call-site entry must equal generator ground truth (coordinates computed by the extracted specification); full tree equality model vs implementation on "
                "every chunk; whole call stacks (kind, line, col of every entry) of generated failing programs compared with the Coq evaluator.",
        "design_ref": "DESIGN.md §6 C20, §11",
        "note": "The tree-wide induction composing the three node-start facts is missing (label _partial). File names in call stacks are compared on the implementation against ground truth; the "
                "evaluator model is single-file. No axioms.",
        "technique": "Coq proofs (lexer position arithmetic, build_match rule, evaluator trace wrapper) + ground-truth correspondence + extracted-evaluator call-stack comparison",
    },
}
PENDING_REASON = "check not built yet in this round (work in progress; see DESIGN.md §6 for the planned Coq model and tie)"
ALL = ["C%02d" % i for i in range(1, 21)]


def main():
    commits = subprocess.run(["git", "-C", "/repo", "log", "--format=%h %s", "d534dae..HEAD"], capture_output=True, text=True).stdout.strip().split("\n")
    hook_commits = [c.split()[0] for c in commits if c and not c.split(" ", 1)[1].startswith("fix:")]
    man = {
        "version": 1,
        "setup_cmd": "./check setup",
        "hooks": {
            "guard": "CHAISCRIPT_VERIF",
            "enable": "harness programs are compiled by tools/vlib.py with -DCHAISCRIPT_VERIF -I/repo/include (header-only library; no separate build of /repo is needed)",
            "baseline_off_cmd": "cmake --build /repo/_build -j16 && ctest --test-dir /repo/_build -j8 --timeout 900",
            "source_commits": hook_commits,
            "add_only": True,
        },
        "engines": [{"name": "ChaiV", "path": "coq/", "serves_properties": sorted(CLAIMED), "kind_free_text": "Coq 8.16.1 development: hand-written models + tables regenerated from the source + extracted executable models diffed against a C++ harness"}],
        "checks": [],
        "not_applicable": [],
        "notes": "One entry point: ./check <id> --tier quick|thorough. See DESIGN.md.",
    }
    for p in ALL:
        if p in CLAIMED:
            m = CLAIMED[p]
            man["checks"].append({
                "property_id": p,
                "quick_cmd": "./check %s --tier quick" % p,
                "thorough_cmd": "./check %s --tier thorough" % p,
                "evidence_file": "evidence/%s.json" % p,
                "replay_cmd_template": "./check %s --replay {path}" % p,
                "engine": "ChaiV",
                "level_claimed": {"category": m["category"], "text": m["text"], "design_ref": m["design_ref"]},
                "level_note": m["note"],
                "technique": m["technique"],
            })
        else:
            man["not_applicable"].append({"property_id": p, "reason": PENDING.get(p, PENDING_REASON)})
    with open(os.path.join(ROOT, "MANIFEST.json"), "w") as f:
        json.dump(man, f, indent=1)
    print("MANIFEST.json: %d checks, %d not_applicable" % (len(man["checks"]), len(man["not_applicable"])))


PENDING = {}
if __name__ == "__main__":
    main()
