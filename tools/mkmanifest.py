#!/usr/bin/env python3
"""Regenerates MANIFEST.json from the per-property metadata below (run by hand after editing)."""
import json, os, subprocess
ROOT = os.path.dirname(os.path.dirname(os.path.abspath(__file__)))

CLAIMED = {
    "C05": {
        "category": "proof",
        "text": "Coq theorems (Properties_C05.v: C05_value, C05_no_trap, C05_no_spurious_error, C05_unary, C05_types, C05_routes) over the opcode/guard/section "
                "tables, the type ladder, to_operator and opers_arithmetic_pod, all regenerated from boxed_number.hpp, chaiscript_algebraic.hpp and bootstrap.hpp on every run: "
                "for all operand values of all eleven Common_Types every case of Boxed_Number::go yields the C++ operator's result or the demanded arithmetic_error and never traps. "
                "The model's C++ arithmetic (integer conversions, SpecFloat binary32/64/x87-80) is tied to the compiled code by a 65k-case matrix over 8 routes x 32 operators x 18x18 types.",
        "design_ref": "DESIGN.md §6 C05",
        "note": "Trusted: Coq kernel + vm_compute; translator t_NumTables.py (shape recogniser); hand transcription of C++ arithmetic in NumDefs.v (validated by the matrix, "
                "not proved against the C++ standard); LP64/x86-64 data model asserted at run time; extraction (ExtrOcamlBasic, ExtrOcamlString). No axioms (Print Assumptions: closed).",
        "technique": "Coq proof over source-regenerated tables + extracted-model differential matrix",
    },
}
PENDING_REASON = "check not built yet in this round (work in progress; see DESIGN.md §6 for the planned Coq model and tie)"
ALL = ["C%02d" % i for i in range(1, 21)]


def main():
    commits = subprocess.run(["git", "-C", "/repo", "log", "--format=%h %s", "d534dae..HEAD"], capture_output=True, text=True).stdout.strip().split("\n")
    hook_commits = [c.split()[0] for c in commits if c and not c.split(" ", 1)[1].startswith("fix:")]
    man = {
        "version": 1,
        "setup_cmd": "./check setup",
        "hooks": {
            "guard": "CHAISCRIPT_VERIF",
            "enable": "harness programs are compiled by tools/vlib.py with -DCHAISCRIPT_VERIF -I/repo/include (header-only library; no separate build of /repo is needed)",
            "baseline_off_cmd": "cmake --build /repo/_build -j16 && ctest --test-dir /repo/_build -j8 --timeout 900",
            "source_commits": hook_commits,
            "add_only": True,
        },
        "engines": [{"name": "ChaiV", "path": "coq/", "serves_properties": sorted(CLAIMED), "kind_free_text": "Coq 8.16.1 development: hand-written models + tables regenerated from the source + extracted executable models diffed against a C++ harness"}],
        "checks": [],
        "not_applicable": [],
        "notes": "One entry point: ./check <id> --tier quick|thorough. See DESIGN.md.",
    }
    for p in ALL:
        if p in CLAIMED:
            m = CLAIMED[p]
            man["checks"].append({
                "property_id": p,
                "quick_cmd": "./check %s --tier quick" % p,
                "thorough_cmd": "./check %s --tier thorough" % p,
                "evidence_file": "evidence/%s.json" % p,
                "replay_cmd_template": "./check %s --replay {path}" % p,
                "engine": "ChaiV",
                "level_claimed": {"category": m["category"], "text": m["text"], "design_ref": m["design_ref"]},
                "level_note": m["note"],
                "technique": m["technique"],
            })
        else:
            man["not_applicable"].append({"property_id": p, "reason": PENDING.get(p, PENDING_REASON)})
    with open(os.path.join(ROOT, "MANIFEST.json"), "w") as f:
        json.dump(man, f, indent=1)
    print("MANIFEST.json: %d checks, %d not_applicable" % (len(man["checks"]), len(man["not_applicable"])))


PENDING = {}
if __name__ == "__main__":
    main()
