"""C08 — evaluating code does not change the code: re-evaluation is deterministic.
proof:  Properties_C08 (const discipline of the evaluator model: objects reachable only through const Boxed_Values never
        change; a constant created const is frozen for ever; the optimizer model creates const constants only).
tie:    evaluator model (shared constant cells) ⇄ implementation on programs that call functions repeatedly; the premise
        `consts_const` is evaluated on the implementation's own tree dumps.
oracle: on the implementation alone — (a) the tree dumped after evaluation equals the tree dumped before (constants,
        literals, structure); (b) the same function called k>=3 times with equal arguments in an equal environment,
        interleaved with other calls, returns equal results and prints equal output; (c) the same parsed tree evaluated
        repeatedly through eval(AST_Node) gives the same stdout and result each time."""
import json, random
import vlib, evalcheck as E

LITS = {
    "int": ["1", "7", "(1 + 2)", "(-5)", "(10 / 2)", "0", "2", "0x10", "0b11", "07", "5u", "3l"],
    "bool": ["true", "false", "(true && false)", "(false || true)", "(1 < 2)"],
    "string": ['"ab"', '""', '("a" + "b")', 'to_string(3)'],
    "vec": ["[1, 2]", "[]", "[1 + 1, 2 * 3]", '["x", "y"]', "[[1], [2, 3]]"],
    "nvec": ["[1, 2]", "[0, 0, 0]", "[1 + 1, 2 * 3]", "[1, 2, -3]", "[7]", "[5, 6, 7, 8]"],
    # arithmetic constructors of a literal: at run time a fresh temporary per evaluation (some are folded by the optimizer)
    "conv": ["int(5)", "long(7)", "size_t(3)", "uint8_t(200)", "long_long(7)", "unsigned_int(3)", "int64_t(5)", "uint16_t(9)", "unsigned_long(4)", "int8_t(6)"],
}
MUT = {
    "int": ["%s += 1", "%s *= 2", "++%s", "%s = 9", "%s -= 3"],
    "bool": ["%s = !%s", "%s = false"],
    "string": ['%s += "x"', '%s = "z"'],
    "vec": ["%s.push_back(4)", "if (!%s.empty()) { %s[0] = 8 }", "if (!%s.empty()) { %s.pop_back() }", "%s = [5]"],
    "nvec": ["%s.push_back(4)", "if (!%s.empty()) { %s[0] = 8 }",
            # not idempotent: a change that reaches a cell shared between evaluations shows up as a different value next time
            "if (!%s.empty()) { %s[0] += 1 }", "if (!%s.empty()) { ++%s[0] }", "if (!%s.empty()) { %s[0] *= 2 }", "for (x : %s) { x += 1 }", "if (%s.size() > 1) { %s[1] -= 3 }"],
    "conv": ["%s += 1", "%s /= 2", "++%s", "%s *= 3", "%s -= 1"],
}


def fmt(m, v):
    return m.replace("%s", v)


class G:
    def __init__(self, rnd):
        self.r = rnd
        self.n = 0
        self.stats = {}

    def note(self, k):
        self.stats[k] = self.stats.get(k, 0) + 1

    def fresh(self, p="v"):
        self.n += 1
        return "%s%d" % (p, self.n)

    def route(self, t, lit):
        """bind a literal through an escape route, mutate what was obtained, return (statements, value expression)"""
        r = self.r
        v = self.fresh()
        k = r.choice(["var", "auto", "ref", "refassign", "param", "return", "capture", "push_back", "member", "direct"])
        self.note("route:" + k)
        self.note("literal:" + t)
        mut = fmt(r.choice(MUT[t]), v)
        if k == "var":
            return ["var %s = %s" % (v, lit), mut], v
        if k == "auto":
            return ["auto %s = %s" % (v, lit), mut], v
        if k == "ref":
            # binding a reference to a literal: the mutation must fail (const) or hit a temporary, never the tree
            return ["auto &%s = %s" % (v, lit), "try { %s } catch(e) { print(\"refused\") }" % mut], v
        if k == "refassign":
            return ["var %s; %s := %s" % (v, v, lit), "try { %s } catch(e) { print(\"refused\") }" % mut], v
        if k == "param":
            f = self.fresh("pf")
            self.defs.append("def %s(%s) { try { %s } catch(e) { print(\"refused\") }; %s }" % (f, v, mut, v))
            return [], "%s(%s)" % (f, lit)
        if k == "return":
            f = self.fresh("rf")
            self.defs.append("def %s() { return %s }" % (f, lit))
            return ["var %s = %s()" % (v, f), mut], v
        if k == "capture":
            w = self.fresh()
            return ["var %s = %s" % (w, lit), "var l%s = fun[%s]() { %s; %s }" % (v, w, fmt(r.choice(MUT[t]), w), w)], "l%s()" % v
        if k == "push_back":
            return ["var %s = []" % v, "%s.push_back(%s)" % (v, lit), "if (!%s.empty()) { try { %s } catch(e) { print(\"refused\") } }" % (v, fmt(r.choice(MUT[t]), v + "[0]") if t not in ("vec", "nvec") else "%s[0].push_back(1)" % v)], v
        if k == "member" and t in ("vec", "nvec", "string"):
            return [], "%s.size()" % lit
        return ["try { %s } catch(e) { print(\"refused\") }" % fmt(r.choice(MUT[t]), "(" + lit + ")")] if t == "int" else [], lit

    def function(self, name):
        r = self.r
        self.defs = []
        stmts, vals = [], []
        for _ in range(r.randint(1, 4)):
            t = r.choice(list(LITS))
            st, val = self.route(t, r.choice(LITS[t]))
            stmts += st
            vals.append(val)
        if r.random() < 0.4:
            i = self.fresh("i")
            stmts.append("for (var %s = 0; %s < 2; ++%s) { %s }" % (i, i, i, "; ".join(self.route("int", r.choice(LITS["int"]))[0] or ["print(%s)" % i])))
            self.note("loop")
        body = "; ".join(stmts + ["print(%s)" % v for v in vals])
        return self.defs, "def %s() { %s; 0 }" % (name, body)

    def polymorphic(self):
        """one loop / one counting loop evaluated again with another kind of range or from another activation: a node that remembers
        something about its first evaluation shows up as a different answer for an equal call"""
        r = self.r
        k = self.fresh("p")
        defs, names = [], []
        if r.random() < 0.6:
            self.note("ranged-for over different kinds of range")
            defs.append("def sp%s(rg) { var s = \"\"; for (x : rg) { s += to_string(x) + \".\" }; s }" % k)
            for arg in r.sample(['"abc"', "[1, 2, 3]", '["k": 7]', '""', "[]", "range([4, 5])"], r.randint(2, 4)):
                n = self.fresh("fn")
                defs.append("def %s() { print(sp%s(%s)); 0 }" % (n, k, arg))
                names.append(n)
        else:
            self.note("counting loop re-entered")
            defs.append("def wk%s(d) { var s = \"\"; for (var i = 0; i < 3; ++i) { s += to_string(i); if (d > 0) { s += wk%s(d - 1) } }; s }" % (k, k))
            defs.append("def fg%s(n) { for (var i = 0; i < 10; ++i) { if (i >= n) { return i } }; -1 }" % k)
            for body in ("print(wk%s(%d))" % (k, r.randint(1, 2)),
                         # a value handed out by one evaluation must not change when the same code is evaluated again
                         "var a := fg%s(3); var a0 = to_string(a); var b := fg%s(7); print(\"stable:\" + to_string(a0 == to_string(a))); print(a + b)" % (k, k),
                         "var f; for (var i = 0; i < 3; ++i) { f = fun[i]() { i } }; print(f())"):
                n = self.fresh("fn")
                defs.append("def %s() { %s; 0 }" % (n, body))
                names.append(n)
        return defs, names

    def program(self):
        r = self.r
        nf = r.randint(1, 3)
        defs, names = [], []
        if r.random() < 0.25:
            d, nm = self.polymorphic()
            defs += d
            names += nm
        for _ in range(nf):
            name = self.fresh("fn")
            d, f = self.function(name)
            defs += d + [f]
            names.append(name)
        calls = []
        for _ in range(r.randint(3, 6)):
            calls.append(r.choice(names))
        for n in names:
            while calls.count(n) < 3:
                calls.insert(r.randint(0, len(calls)), n)
        prog = "; ".join(defs + ['print("<%s>"); %s()' % (c, c) for c in calls] + ['print("<end>")'])
        return prog, names


def gen(tier, seed):
    rnd = random.Random(seed * 613 + 8)
    n = {"quick": 500, "thorough": 8000}[tier]
    progs, stats = [], {}
    for _ in range(n):
        g = G(rnd)
        p, _ = g.program()
        progs.append(p)
        for k, v in g.stats.items():
            stats[k] = stats.get(k, 0) + v
    return progs, stats


def warm():
    E.warm()


def call_segments(out_hex):
    """stdout -> {function name: [output of each of its calls]}"""
    try:
        text = bytes.fromhex(out_hex).decode("latin-1") if out_hex != "-" else ""
    except ValueError:
        return {}
    segs = {}
    cur = None
    for line in text.split("\n"):
        if line.startswith("<") and line.endswith(">"):
            cur = line[1:-1]
            if cur != "end":
                segs.setdefault(cur, []).append([])
            continue
        if cur and cur != "end":
            segs[cur][-1].append(line)
    return segs


def judge(c, progs, source):
    opt = E.run_impl(progs, "opt", extra=("tree2",))
    idx = [i for i in range(len(progs)) if "tree" in opt[i]]
    mech = E.run_model("mech", [opt[i]["tree"] for i in idx])
    consts = E.run_optimizer_model(["CONSTS " + opt[i]["tree"] for i in idx])
    seen = set()
    for k, i in enumerate(idx):
        c.cov["evaluations"] += 1
        r = opt[i]
        tree2 = r["raw"].split(" || TREE2 ")[1] if " || TREE2 " in r["raw"] else None
        # (a) the tree is unchanged by its evaluation
        if tree2 is not None and tree2 != r["tree"]:
            c.fail("the syntax tree dumped after evaluation differs from the tree dumped before", {"program": progs[i], "source": source})
        # (a') a value obtained from an earlier evaluation of a piece of code is not changed by evaluating that code again
        try:
            if "stable:false" in (bytes.fromhex(r["out"]).decode("latin-1") if r["out"] != "-" else ""):
                c.fail("a value obtained from one evaluation of a loop changed when the same loop was evaluated again", {"program": progs[i], "source": source})
        except ValueError:
            pass
        # (b) equal calls give equal results
        segs = call_segments(r["out"])
        for fn, outs in segs.items():
            if len(outs) >= 2:
                seen.add((progs[i], fn))
                if any(o != outs[0] for o in outs[1:]):
                    c.fail("a function called again with equal arguments in an equal environment printed different output",
                           {"program": progs[i], "function": fn, "outputs": outs[:4], "source": source})
        # premise of the theorems, on the implementation's own tree
        if consts[k] is not None and consts[k] != "ALLCONST":
            c.disagree("premise consts_const", progs[i], "tree contains a non-const Constant node", consts[k])
        # tie
        if mech[k] is not None:
            mout, mres = E.split_model(mech[k])
            if mout is None or mres.startswith("UNSUP") or mres.startswith("FUEL"):
                c.dist["unsupported_by_model"] = c.dist.get("unsupported_by_model", 0) + 1
            else:
                c.cov["traces_validated_against_impl"] += 1
                if E.canon_obs(mout, mres) != E.canon_obs(r["out"], r["res"]):
                    c.disagree("eval(opt tree)", progs[i], E.canon_obs(r["out"], r["res"]), E.canon_obs(mout, mres))
    c.cov["distinct_nontrivial"] += len(seen)
    return opt


def judge_repeat(c, tier, seed):
    """eval(AST_Node) of one parsed tree, repeatedly: literal-building code at top level inside a block"""
    rnd = random.Random(seed * 97 + 88)
    n = {"quick": 150, "thorough": 2000}[tier]
    progs = []
    for _ in range(n):
        g = G(rnd)
        g.defs = []
        stmts, vals = [], []
        for _ in range(rnd.randint(1, 4)):
            t = rnd.choice(list(LITS))
            k = rnd.choice(["var", "auto", "ref", "push_back", "direct"])
            v = g.fresh()
            lit = rnd.choice(LITS[t])
            if k in ("var", "auto"):
                stmts += ["%s %s = %s" % (k, v, lit), fmt(rnd.choice(MUT[t]), v)]; vals.append(v)
            elif k == "ref":
                stmts += ["auto &%s = %s" % (v, lit), "try { %s } catch(e) { print(\"refused\") }" % fmt(rnd.choice(MUT[t]), v)]; vals.append(v)
            elif k == "push_back":
                stmts += ["var %s = []" % v, "%s.push_back(%s)" % (v, lit)]; vals.append("%s.size()" % v)
            else:
                vals.append(lit)
        progs.append("{ " + "; ".join(stmts + ["print(%s)" % x for x in vals]) + " }")
    res = E.run_impl(progs, "opt", extra=("repeat=3", "tree2"))
    for p, r in zip(progs, res):
        if "tree" not in r:
            continue
        c.cov["evaluations"] += 1
        c.dist["repeat-eval"] = c.dist.get("repeat-eval", 0) + 1
        try:
            text = bytes.fromhex(r["out"]).decode("latin-1") if r["out"] != "-" else ""
        except ValueError:
            continue
        parts = text.split("\x1e")[:3]
        if len(parts) == 3 and not (parts[0] == parts[1] == parts[2]):
            c.fail("the same parsed tree evaluated three times through eval(AST_Node) printed different output", {"program": p, "outputs": parts})
        tree2 = r["raw"].split(" || TREE2 ")[1] if " || TREE2 " in r["raw"] else None
        if tree2 is not None and tree2 != r["tree"]:
            c.fail("the syntax tree dumped after three evaluations differs from the tree dumped before", {"program": p})


def check(tier, seed):
    c = vlib.Check("C08", tier, seed)
    c.cov["rule"] = ("functions whose bodies build values from literals of every kind (int, bool, string, inline vectors; plain and constant-folded spellings) through every escape route "
                     "(var, auto, reference, :=, parameter, return, capture, push_back, member call, direct) and mutate what they obtained; each function is called >= 3 times "
                     "interleaved with the others; plus blocks evaluated three times through eval(AST_Node); non-trivial = a (program, function) with >= 2 calls; distinct = that pair")
    c.assumptions = ["a literal reached through a reference may refuse the mutation (const) or accept it on a temporary; either way the next call must see the literal again",
                     "tree equality is judged on the canonical dump of harness/astdump.hpp (kinds, texts, locations, constant values and const flags)"]
    c.prove("Properties_C08", translators=["NumTables", "OptOrder"])
    if E.bins().get("mech") is None:
        c.broken_ties.append(("correspondence", "eval: mechanism model does not build", E.bins().get("mech_err")))
    corpus = E.corpus("C08.txt")
    judge(c, corpus, "corpus")
    progs, stats = gen(tier, seed)
    opt = judge(c, progs, "generated")
    judge_repeat(c, tier, seed)
    c.dist.update(stats)
    for k in (0, len(progs) // 2):
        c.sample({"program": progs[k][:600], "stdout_hex": opt[k].get("out", "")[:160]})
    return c.finish()


def replay(path):
    r = json.load(open(path))
    if r.get("kind") != "failing-input":
        print(json.dumps(r, indent=1)[:3000]); return 1
    case = r["failure"]["case"]
    c = vlib.Check("C08", "quick", 0)
    judge(c, [case["program"]], "replay")
    print("REPRODUCED" if c.failures else "not reproduced", json.dumps(c.failures[:1], indent=1))
    return 1 if c.failures else 0
