"""C10 — exceptions are delivered, not lost or altered.
proof: Properties_C10 (the Try node of the evaluator model refines the inference-rule specification TrySpec; brackets
       and sequencing do not intercept or continue past a throw).
tie:   evaluator model (mechanism arithmetic) ⇄ implementation on generated try/catch/finally nests.
oracle: the reference evaluator (specification arithmetic, unoptimised tree) — whose Try satisfies TrySpec by the
        theorem — decides trace (stdout markers printed by try/catch/finally blocks), result and what leaves eval."""
import json, random
import vlib, evalcheck as E

THROWN = [("throw(%d)", "int"), ('throw("s%d")', "string"), ("throw(true)", "bool"), ("print(1 / 0)", "arithmetic_error"), ("var tv%d = [1]; print(tv%d[7])", "out_of_range"),
          ("undefined_name_%d", "eval_error"), ("nofun%d(1)", "eval_error"), ("print(cb(%d))", "callback")]
CLAUSE_TYPES = ["", "", "int ", "string ", "bool ", "arithmetic_error ", "runtime_error ", "eval_error ", "out_of_range ", "logic_error ", "exception "]
FAULTS = ["", "", "fault=1:runtime_error", "fault=1:out_of_range", "fault=1:boxed", "fault=1:eval_error", "fault=1:foreign", "fault=2:runtime_error"]


class G:
    def __init__(self, rnd):
        self.r = rnd
        self.n = 0
        self.funcs = []
        self.stats = {}

    def note(self, k):
        self.stats[k] = self.stats.get(k, 0) + 1

    def mark(self):
        self.n += 1
        return 'print("m%d")' % self.n

    def thrower(self):
        r = self.r
        t, kind = r.choice(THROWN)
        self.n += 1
        self.note("thrown:" + kind)
        return t.replace("%d", str(self.n))

    def frame(self, stmt):
        """deliver the statement through a call frame of some kind"""
        r = self.r
        k = r.random()
        self.n += 1
        if k < 0.35:
            return stmt
        if k < 0.55:
            f = "tf%d" % self.n
            self.funcs.append("def %s() { %s; %s }" % (f, self.mark(), stmt))
            self.note("frame:def")
            return "%s()" % f
        if k < 0.7:
            self.note("frame:lambda")
            return "var lf%d = fun() { %s; %s }; lf%d()" % (self.n, self.mark(), stmt, self.n)
        if k < 0.8:
            f = "tg%d" % self.n
            self.funcs.append("def %s(x) { %s; %s }" % (f, self.mark(), stmt))
            self.note("frame:method-call")
            return "5.%s()" % f
        if k < 0.9:
            f = "th%d" % self.n
            g = "ti%d" % self.n
            self.funcs.append("def %s() { %s }" % (f, stmt))
            self.funcs.append("def %s() { %s; %s(); %s }" % (g, self.mark(), f, self.mark()))
            self.note("frame:two-deep")
            return "%s()" % g
        if k < 0.93 and len(getattr(self, "ops_used", [])) < 4:
            # the statement runs inside an operator function defined by the script and reached through operator syntax
            self.ops_used = getattr(self, "ops_used", [])
            cand = [("-", "string", "string", '"x" - "y"'), ("*", "string", "string", '"x" * "y"'), ("/", "string", "string", '"x" / "y"'),
                    ("-", "Vector", "Vector", "[1] - [2]"), ("*", "Vector", "string", '[1] * "y"'), ("%", "string", "string", '"x" % "y"')]
            cand = [x for x in cand if x[:3] not in self.ops_used]
            if cand:
                op, ta, tb, use = r.choice(cand)
                self.ops_used.append((op, ta, tb))
                self.funcs.append("def `%s`(%s a, %s b) { %s; %s; 0 }" % (op, ta, tb, self.mark(), stmt))
                self.note("frame:operator")
                return "var ur%d = %s" % (self.n, use)
        if k < 0.96:
            # the statement runs while a function guard is evaluated (dispatch asks the guard before entering the body)
            f = "tq%d" % self.n
            h = "tr%d" % self.n
            self.funcs.append("def %s(x) { %s; %s; true }" % (h, self.mark(), stmt))
            self.funcs.append("def %s(x) : %s(x) { %s }" % (f, h, self.mark()))
            if r.random() < 0.5:
                self.funcs.append("def %s(x) { %s }" % (f, self.mark()))
                self.note("frame:guard-overloaded")
            else:
                self.note("frame:guard")
            return "%s(1)" % f
        self.note("frame:loop")
        return "for (var fi%d = 0; fi%d < 2; ++fi%d) { %s; %s }" % (self.n, self.n, self.n, self.mark(), stmt)

    def block(self, depth, may_throw=True):
        r = self.r
        parts = [self.mark()]
        if may_throw and r.random() < 0.75:
            parts.append(self.frame(self.thrower()))
        if depth > 0 and r.random() < 0.45:
            parts.insert(r.randint(0, len(parts)), self.try_stmt(depth - 1))
        parts.append(self.mark())
        return "{ " + "; ".join(parts) + " }"

    def try_stmt(self, depth):
        r = self.r
        self.note("try")
        s = "try " + self.block(depth)
        ncl = r.choice([0, 1, 1, 2, 3])
        for _ in range(ncl):
            ty = r.choice(CLAUSE_TYPES)
            self.n += 1
            self.note("clause:" + (ty.strip() or "untyped"))
            body = self.block(depth, may_throw=r.random() < 0.2)
            s += " catch(%se%d) %s" % (ty, self.n, body)
        if ncl == 0 or r.random() < 0.55:
            self.note("finally")
            s += " finally " + self.block(0, may_throw=r.random() < 0.1)
        return s

    def program(self):
        r = self.r
        body = [self.try_stmt(r.randint(0, 3)) for _ in range(r.randint(1, 2))]
        tail = self.mark()
        wrap = r.random() < 0.3
        prog = "; ".join(self.funcs + body + [tail])
        if wrap:
            self.note("in-function")
            prog = "; ".join(self.funcs) + ("; " if self.funcs else "") + "def mainf() { %s; 7 }; mainf()" % "; ".join(body + [tail])
        return prog


def gen(tier, seed):
    n = {"quick": 900, "thorough": 12000}[tier]
    rnd = random.Random(seed * 9176 + 10)
    progs, faults, stats = [], [], {}
    for _ in range(n):
        g = G(rnd)
        progs.append(g.program())
        faults.append(rnd.choice(FAULTS) if "cb(" in progs[-1] else "")
        for k, v in g.stats.items():
            stats[k] = stats.get(k, 0) + v
    return progs, faults, stats


def warm():
    E.warm()


def judge(c, progs, faults, source):
    by = {}
    for i, f in enumerate(faults):
        by.setdefault(f, []).append(i)
    opt = [None] * len(progs)
    raw = [None] * len(progs)
    for f, idxs in by.items():
        ex = (f,) if f else ()
        for dst, mode in ((opt, "opt"), (raw, "raw")):
            res = E.run_impl([progs[i] for i in idxs], mode, extra=ex)
            for i, r in zip(idxs, res):
                dst[i] = r
    ok = [i for i in range(len(progs)) if "tree" in opt[i] and "tree" in raw[i]]
    ref = E.run_model("spec", [raw[i]["tree"] for i in ok], flags=[faults[i] for i in ok])
    mech = E.run_model("mech", [opt[i]["tree"] for i in ok], flags=[faults[i] for i in ok])
    seen = set()
    for k, i in enumerate(ok):
        c.cov["evaluations"] += 1
        impl_obs = E.canon_obs(opt[i]["out"], opt[i]["res"])
        rout, rres = E.split_model(ref[k])
        if rout is None or rres.startswith("UNSUP") or rres.startswith("FUEL"):
            c.dist["unsupported_by_model"] = c.dist.get("unsupported_by_model", 0) + 1
            continue
        ref_obs = E.canon_obs(rout, rres)
        c.dist["leaves_eval:" + ("error" if ref_obs[1].startswith("ERR") else "value")] = c.dist.get("leaves_eval:" + ("error" if ref_obs[1].startswith("ERR") else "value"), 0) + 1
        if "catch" in progs[i] or "finally" in progs[i]:
            seen.add((progs[i], faults[i]))
        if impl_obs != ref_obs:
            c.fail("trace of try/catch/finally blocks, result or escaping exception differ from the try/catch/finally specification",
                   {"program": progs[i], "fault": faults[i], "implementation": impl_obs, "specification": ref_obs, "source": source})
        if mech[k] is not None:
            mout, mres = E.split_model(mech[k])
            c.cov["traces_validated_against_impl"] += 1
            if not (mres.startswith("UNSUP") or mres.startswith("FUEL")) and E.canon_obs(mout, mres) != impl_obs:
                c.disagree("eval(opt tree)", {"program": progs[i], "fault": faults[i]}, impl_obs, E.canon_obs(mout, mres))
    for i in range(len(progs)):
        if "tree" not in opt[i]:
            if not opt[i].get("parse_error", "").startswith("PARSE-ERR"):
                c.fail("the host process died or hung", {"program": progs[i], "fault": faults[i], "observed": opt[i].get("parse_error")})
            else:
                c.dist["parse_error"] = c.dist.get("parse_error", 0) + 1
    c.cov["distinct_nontrivial"] += len(seen)
    return opt


def check(tier, seed):
    c = vlib.Check("C10", tier, seed)
    c.cov["rule"] = ("nests (depth <= 4) of try / catch(typed|untyped)* / finally? whose bodies print unique markers and throw one of 8 kinds (int, string, bool, arithmetic_error, "
                     "out_of_range, eval_error x2, harness callback raising runtime_error/out_of_range/Boxed_Value/eval_error/non-std) through frames (direct, def, lambda, method-call "
                     "syntax, two-deep call, loop body), catch bodies that throw, optionally inside a function; non-trivial = has at least one catch or finally; distinct = (program, fault)")
    c.assumptions = ["the oracle is the extracted reference evaluator, whose Try node satisfies TrySpec by theorem C10_try_refines_spec",
                     "markers are printed by the blocks themselves, so 'runs exactly once / not at all' is visible in stdout",
                     "bind()/for_each callbacks and Dynamic_Object payloads are outside the modelled subset"]
    c.prove("Properties_C10", translators=["NumTables", "OptOrder"])
    if E.bins().get("mech") is None:
        c.broken_ties.append(("correspondence", "eval: mechanism model does not build", E.bins().get("mech_err")))
    corpus = E.corpus("C10.txt")
    judge(c, corpus, [""] * len(corpus), "corpus")
    progs, faults, stats = gen(tier, seed)
    opt = judge(c, progs, faults, "generated")
    c.dist.update(stats)
    for k in (0, len(progs) // 3, len(progs) - 1):
        c.sample({"program": progs[k][:700], "fault": faults[k], "implementation": opt[k].get("res", "")[:120], "stdout_hex": opt[k].get("out", "")[:120]})
    return c.finish()


def replay(path):
    r = json.load(open(path))
    if r.get("kind") != "failing-input":
        print(json.dumps(r, indent=1)[:3000]); return 1
    case = r["failure"]["case"]
    c = vlib.Check("C10", "quick", 0)
    judge(c, [case["program"]], [case.get("fault", "")], "replay")
    print("REPRODUCED" if c.failures else "not reproduced", json.dumps(c.failures[:1], indent=1))
    return 1 if c.failures else 0
