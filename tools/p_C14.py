"""C14 — Engine instances are isolated.
proof: Properties_C14 (per-thread maps key -> state; noninterference for every history with the key policy extracted from
       class Thread_Storage; refutation witness for keys that are addresses).
tie:   translator t_ThreadStorage (every run) + histories on real engines (h_iso: long-lived worker threads executing one command
       at a time, engines placement-constructed in a 3-slot arena so addresses are reused) diffed with the extracted mechanism model.
oracle: the extracted specification (per-thread state keyed by the engine) and, directly on the implementation, engine B's
       observations in a history against those of replaying only B's operations."""
import json, os, random, re
import vlib

NAMES = ["x", "y", "secret", "g"]
NSLOT, NTHREAD = 3, 3


def history(rnd, maxlen):
    live, slots, ops, nxt = {}, [None] * NSLOT, [], 0
    n = rnd.randrange(6, maxlen + 1)
    dead_slots = []                      # slots whose last tenant wrote locals: reuse them on purpose
    while len(ops) < n:
        x = rnd.random()
        free = [s for s in range(NSLOT) if slots[s] is None]
        if (x < 0.16 or not live) and free and nxt < 6:
            pref = [s for s in dead_slots if s in free]
            s = rnd.choice(pref) if pref and rnd.random() < 0.8 else rnd.choice(free)
            ops.append("C %d %d %d" % (nxt, s, rnd.randrange(NTHREAD)))
            live[nxt], slots[s] = s, nxt
            nxt += 1
        elif not live:
            break                        # every engine name has been used and destroyed
        elif x < 0.45:
            e = rnd.choice(list(live))
            ops.append("S %d %d %s %d" % (e, rnd.randrange(NTHREAD), rnd.choice(NAMES), rnd.randrange(1, 100)))
        elif x < 0.70:
            e = rnd.choice(list(live))
            ops.append("R %d %d %s" % (e, rnd.randrange(NTHREAD), rnd.choice(NAMES)))
        elif x < 0.78:
            e = rnd.choice(list(live))
            ops.append("L %d %d" % (e, rnd.randrange(NTHREAD)))
        elif x < 0.86:
            e = rnd.choice(list(live))
            ops.append("G %d %d %s %d" % (e, rnd.randrange(NTHREAD), rnd.choice(NAMES), rnd.randrange(1, 100)))
        else:
            e = rnd.choice(list(live))
            ops.append("D %d %d" % (e, rnd.randrange(NTHREAD)))
            s = live.pop(e)
            slots[s] = None
            dead_slots.append(s)
            # the probe that finds inherited state: a new engine in the same slot, read everything on every thread
            if rnd.random() < 0.7 and nxt < 6:
                ops.append("C %d %d %d" % (nxt, s, rnd.randrange(NTHREAD)))
                live[nxt], slots[s] = s, nxt
                for t in range(NTHREAD):
                    ops.append("L %d %d" % (nxt, t))
                ops.append("R %d %d %s" % (nxt, rnd.randrange(NTHREAD), rnd.choice(NAMES)))
                nxt += 1
    return " | ".join(ops)


def xhistory(rnd):
    """histories over state that is not Thread_Storage: per-engine type names and user conversions, with several engines alive on the
    same threads.  Judged on the implementation alone: what an engine observes must equal what it observes when only its own
    operations are replayed."""
    ops, live, nxt = [], {}, 0
    for _ in range(rnd.randrange(8, 26)):
        x = rnd.random()
        free = [s for s in range(NSLOT) if s not in live.values()]
        if (x < 0.2 or not live) and free and nxt < 6:
            s = rnd.choice(free)
            ops.append("C %d %d %d" % (nxt, s, rnd.randrange(NTHREAD)))
            live[nxt] = s
            nxt += 1
            continue
        if not live:
            break
        e = rnd.choice(list(live))
        t = rnd.randrange(NTHREAD) if rnd.random() < 0.3 else 0      # mostly one thread: per-thread caches are shared there
        if x < 0.32:
            ops.append("T %d %d %d %d" % (e, t, rnd.randrange(2), rnd.randrange(3)))
        elif x < 0.52:
            ops.append("N %d %d %d" % (e, t, rnd.randrange(2)))
        elif x < 0.64:
            ops.append("V %d %d %d" % (e, t, rnd.randrange(2)))
        elif x < 0.88:
            ops.append("U %d %d %d" % (e, t, rnd.randrange(2)))
        elif x < 0.94:
            ops.append("S %d %d %s %d" % (e, t, rnd.choice(NAMES), rnd.randrange(1, 100)))
        else:
            ops.append("D %d %d" % (e, t))
            del live[e]
    return " | ".join(ops)


def gen_cases(tier, seed):
    rnd = random.Random(seed * 15485863 + 14)
    return [history(rnd, 30) for _ in range({"quick": 400, "thorough": 4000}[tier])]


def engine_of(op):
    return int(op.split(" ")[1])


def project(case, b):
    ops = case.split(" | ")
    idx = [i for i, o in enumerate(ops) if engine_of(o) == b]
    return " | ".join(ops[i] for i in idx), idx


def warm():
    vlib.cxx_build("h_iso")
    vlib.model_build("isospec", ["theories/ThreadStoreSpecRun.vo"])
    vlib.model_build("iso", ["theories/ThreadStoreRun.vo"])


def run(binp, cases):
    rc, out, err = vlib.run_lines(binp, cases, timeout=3000)
    if len(out) != len(cases):
        raise vlib.BuildError("%s produced %d lines for %d cases\n%s" % (os.path.basename(binp), len(out), len(cases), err[-2000:]))
    return out


def first_diff(case, a, b):
    ops, ra, rb = case.split(" | "), a.split(" | "), b.split(" | ")
    for i, (x, y) in enumerate(zip(ra, rb)):
        if x != y:
            return {"step": i, "op": ops[i] if i < len(ops) else "?", "impl": x, "expected": y}
    return {"step": min(len(ra), len(rb)), "impl": a[:200], "expected": b[:200]}


def shrink(hbin, sbin, case, budget=60):
    """drop operations while the implementation still differs from the specification"""
    ops = case.split(" | ")

    def bad(o):
        c = " | ".join(o)
        i, s = run(hbin, [c])[0], run(sbin, [c])[0]
        return "INVALID" not in s and "BADCASE" not in i and i != s
    if not bad(ops):
        return case
    j = len(ops) - 1
    while j >= 0 and budget > 0:
        cand = ops[:j] + ops[j + 1:]
        budget -= 1
        if cand and bad(cand):
            ops = cand
        j -= 1
    return " | ".join(ops)


def check(tier, seed):
    c = vlib.Check("C14", tier, seed)
    c.cov["rule"] = ("case = one history (<= 30+ operations) over up to 6 engines placement-constructed in a 3-slot arena (addresses are reused), 3 long-lived "
                     "worker threads, operations {construct on thread t, add a local on thread t, evaluate a name on thread t, get_locals on thread t, "
                     "add_global, destroy on thread t}, names collide on purpose, a destroyed engine's slot is re-occupied and probed on every thread; "
                     "non-trivial = a slot is re-occupied after its previous tenant wrote a local on a thread other than the destroying one; "
                     "distinct = distinct history lines")
    c.assumptions = ["one Thread_Storage per engine in the model; the engine has three (stack holder, conversion cache, conversion saves) with the same mechanism "
                     "(the translator checks they are all plain Thread_Storage members); only the stack holder is observed (locals)",
                     "translator tools/translate/t_ThreadStorage.py (shape recogniser over chaiscript_threading.hpp; member/static scan of the anchor files)",
                     "the thread driver serialises commands (one at a time): schedules are histories; concurrent use of one engine is property C13",
                     "extraction: ExtrOcamlBasic + ExtrOcamlString, no Extract Constant; OCaml driver does line I/O only"]
    c.prove("Properties_C14", translators=["ThreadStorage"])
    hbin = vlib.cxx_build("h_iso")
    sbin = vlib.model_build("isospec", ["theories/ThreadStoreSpecRun.vo"])
    try:
        mbin = vlib.model_build("iso", ["theories/ThreadStoreRun.vo"])
    except (vlib.BuildError, RuntimeError) as ex:
        mbin = None
        c.broken_ties.append(("correspondence", "iso: the mechanism model no longer builds from the regenerated description", str(ex)[-1500:]))
    corpus = [l.strip() for l in open(os.path.join(vlib.ROOT, "corpus", "C14.txt")) if l.strip() and not l.startswith("#")]
    cases = corpus + gen_cases(tier, seed)
    impl, spec = run(hbin, cases), run(sbin, cases)
    mech = run(mbin, cases) if mbin else [None] * len(cases)
    # replay of single engines on the implementation itself
    nproj = {"quick": 150, "thorough": 1500}[tier]
    pj = []
    for ci, case in enumerate(cases[:len(corpus) + nproj]):
        for b in sorted(set(engine_of(o) for o in case.split(" | "))):
            p, idx = project(case, b)
            pj.append((ci, b, p, idx))
    pimpl = run(hbin, [p for _, _, p, _ in pj])
    nontrivial, ndis, nfail = set(), 0, 0
    for case, i, s, m in zip(cases, impl, spec, mech):
        c.cov["evaluations"] += 1
        ops = case.split(" | ")
        for o in ops:
            c.dist[o[0]] = c.dist.get(o[0], 0) + 1
        c.dist["ops"] = c.dist.get("ops", 0) + len(ops)
        # non-trivial: slot reuse after a local written on a thread other than the destroying one
        wrote, slot = {}, {}
        for o in ops:
            w = o.split(" ")
            if w[0] == "C":
                if wrote.get(("slot", int(w[2]))):
                    nontrivial.add(case)
                slot[int(w[1])] = int(w[2])
            elif w[0] == "S":
                wrote.setdefault(int(w[1]), set()).add(int(w[2]))
            elif w[0] == "D":
                if wrote.get(int(w[1]), set()) - {int(w[2])}:
                    wrote[("slot", slot[int(w[1])])] = True
        if "INVALID" in s or "BADCASE" in i:
            c.dist["invalid"] = c.dist.get("invalid", 0) + 1
            continue
        if m is not None and i != m:
            ndis += 1
            if ndis <= 10:
                c.disagree("iso", case, first_diff(case, i, m), "mechanism model (extracted key policy) differs from the implementation")
        if i.startswith("SIG(") or i.startswith("EXIT(") or i != s:
            nfail += 1
            if nfail <= 3:
                small = shrink(hbin, sbin, case)
                i2, s2 = run(hbin, [small])[0], run(sbin, [small])[0]
                c.fail("an engine observes state that does not come from its own operations (implementation differs from the per-engine specification)",
                       {"case": small, "first_difference": first_diff(small, i2, s2), "original_case": case,
                        "format": "see harness/h_iso.cpp header: C e slot t | S e t name v | R e t name | L e t | G e t name v | D e t"})
            else:
                c.fail("implementation differs from the per-engine specification", {"case": case})
    for (ci, b, p, idx), pi in zip(pj, pimpl):
        c.cov["evaluations"] += 1
        full = impl[ci].split(" | ")
        if "BADCASE" in impl[ci] or impl[ci].startswith("SIG(") or impl[ci].startswith("EXIT("):
            continue
        want = " | ".join(full[k] for k in idx if k < len(full))
        if pi != want:
            nfail += 1
            if nfail <= 6:
                c.fail("engine %d's observations differ from those of replaying only its own operations on the implementation" % b,
                       {"case": cases[ci], "engine": b, "in_full_history": want, "alone": pi})
    # ---- type names and conversions: projection oracle only
    rnd = random.Random(seed * 977 + 141)
    xcases = [xhistory(rnd) for _ in range({"quick": 300, "thorough": 3000}[tier])]
    ximpl = run(hbin, xcases)
    xpj = []
    for ci, case in enumerate(xcases):
        for b in sorted(set(engine_of(o) for o in case.split(" | "))):
            p, idx = project(case, b)
            xpj.append((ci, b, p, idx))
    xalone = run(hbin, [p for _, _, p, _ in xpj])
    for (ci, b, p, idx), pi in zip(xpj, xalone):
        c.cov["evaluations"] += 1
        c.dist["type-name/conversion projections"] = c.dist.get("type-name/conversion projections", 0) + 1
        full = ximpl[ci].split(" | ")
        if "BADCASE" in ximpl[ci] or ximpl[ci].startswith("SIG(") or ximpl[ci].startswith("EXIT("):
            if not "BADCASE" in ximpl[ci]:
                c.fail("the host died in a history over several engines", {"case": xcases[ci], "observed": ximpl[ci][:100]})
            continue
        want = " | ".join(full[k] for k in idx if k < len(full))
        if pi != want:
            nfail += 1
            if nfail <= 6:
                c.fail("engine %d's observations (type names, conversions) differ from those of replaying only its own operations on the implementation" % b,
                       {"case": xcases[ci], "engine": b, "in_full_history": want, "alone": pi,
                        "format": "T e t p n: register Name_n for C++ type Probe_p | N e t p: name of Probe_p | V e t c: add conversion c | U e t c: use conversion c"})
    c.failures.sort(key=lambda f: len(f["case"]["case"]))
    c.cov["distinct_nontrivial"] = len(nontrivial)
    c.cov["programs"] = len(cases)
    c.cov["traces_validated_against_impl"] = len(cases)
    c.cov["disagreements_checked"] = len(cases) if mbin else 0
    c.cov["single_engine_replays"] = len(pj)
    for k in (0, len(corpus) + 2, len(cases) // 2):
        if k < len(cases):
            c.sample({"case": cases[k], "impl": impl[k], "spec": spec[k]}, limit=3)
    return c.finish()


def replay(path):
    r = json.load(open(os.path.join(vlib.ROOT, path) if not os.path.isabs(path) else path))
    if r.get("kind") != "failing-input":
        print("tie-broken replay: the following no longer check:", json.dumps(r.get("no_longer_checks"), indent=1)[:3000])
        return 1
    case = r["failure"]["case"]["case"]
    hbin = vlib.cxx_build("h_iso")
    sbin = vlib.model_build("isospec", ["theories/ThreadStoreSpecRun.vo"])
    i, s = run(hbin, [case])[0], run(sbin, [case])[0]
    print("history:", case, "\nimpl:   ", i, "\nspec:   ", s)
    bad = i != s
    if bad:
        print("first difference:", json.dumps(first_diff(case, i, s)))
    print("REPRODUCED" if bad else "not reproduced")
    return 1 if bad else 0
