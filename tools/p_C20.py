"""C20 — Run-time errors point at the construct that failed.
proof:  Properties_C20 (+ Properties_Lex, Properties_C01): Position arithmetic keeps line/col right (wf_pos), the grammar layer's two
        `--m_position` satisfy the side condition of Lex_dec_wf, build_match / make_node locations, file name of every node.
tie:    correspondence on the generated programs: (a) the model's tree for every chunk == harness/h_parse dump (all node positions),
        (b) every Id / Fun_Call / Dot_Access / Array_Call entry of the implementation's eval_error::call_stack is a node of the model's
        tree for that file, same kind, same start, same file name.
oracle: on the implementation alone (harness/h_errloc.cpp, optimizer on and off) against GROUND TRUTH the generator knows (byte offsets
        of the injected fault and of every active call site; (line, col) of an offset computed by the extracted specification
        m_parserspec = LexDefs.count_nl / since_nl, the definitions wf_pos is stated with):
          - call_stack[0] is the failing identifier / call expression: its kind, start line:col and file name;
          - the call-expression entries of call_stack are exactly the active call sites, innermost first, each with its own file/line/col;
          - the error is an eval_error with the expected reason class."""
import json, os, random, re, sys
from concurrent.futures import ThreadPoolExecutor
import vlib
import p_C01

FILL = ["var t{n} = {n}", "var u{n} = t + {n}", "t = t * 2", "if (t > 1000) {{ t = 0 }}", "var s{n} = \"s${{t}}\"", "t += 1", "var v{n} = [1, 2, {n}]", "{{ var w{n} = 1 }}",
        "for (var i{n} = 0; i{n} < 2; ++i{n}) {{ t += i{n} }}", "var m{n} = [\"a\":{n}]", "t = (t + 1) * (2 - 1)", "var c{n} = 'c'", "var d{n} = 1.5e1 + 0x1F"]
COMMENTS = ["// a comment", "/* block */", "/* multi\n   line\n   comment */", "# an annotation", "//", "/**/"]


class Prog:
    """chunks = [(file name, text bytes)]; marks = {label: (chunk index, byte offset)}"""

    def __init__(self, rnd):
        self.rnd = rnd
        self.n = 0

    def nl(self):
        return self.rnd.choice(["\n", "\n", "\n", "\r\n"])

    def filler(self, indent, k, code=True):
        """k filler lines; code=False: blank lines and comments only (outside any function there is no `t` to refer to)"""
        out = []
        for _ in range(k):
            r = self.rnd.random()
            self.n += 1
            if r < 0.25:
                out.append("")
            elif r < 0.5 or not code:
                out.append(indent + self.rnd.choice(COMMENTS).replace("\n", "\n" + indent))
            else:
                out.append(indent + self.rnd.choice(FILL).format(n=self.n) + self.rnd.choice(["", "", " // tail", " /* tail */", ";", " ;  "]))
        return out


def call_text(rnd, name, arg, split):
    """text of a call expression starting with the identifier `name`; returns the text (the call starts at offset 0)"""
    ws = rnd.choice(["", "", " ", " /* c */ "]) if not split else ""
    if split:
        return "%s(%s%s%s)" % (name, rnd.choice(["\n      ", "\r\n   ", " \n"]), arg, rnd.choice(["\n    ", "", " \n  "]))
    return "%s%s(%s%s%s)" % (name, ws, rnd.choice(["", " "]), arg, rnd.choice(["", " "]))


def wrap_stmt(rnd, expr, depthvar):
    """a statement containing expression `expr`; returns (prefix, suffix, enclosing): `enclosing` = list of (kind, offset delta of an
    enclosing call expression relative to the statement start), inner-most first"""
    k = rnd.random()
    if k < 0.3:
        return "", "", []
    if k < 0.45:
        return "var r%d = " % rnd.randint(0, 999), "", []
    if k < 0.6:
        return "return ", "", []
    if k < 0.75:
        return "to_string(", ")", [("Fun_Call", 0)]
    if k < 0.85:
        return "if (true) { ", " }", []
    if k < 0.89:
        # a statement call (value unused) inside a loop body, not the first statement: the optimizer rebuilds exactly these nodes
        return rnd.choice(["while (true) { t += 1; ", "for (var k%d = 0; k%d < 1; ++k%d) { t; t += 1; " % ((rnd.randint(0, 99),) * 3), "while (t > -5) { var w = t;\n    "]), \
               rnd.choice(["; break }", ";\n  break\n  }", " ; t = -9; break }"]), []
    if k < 0.93:
        return "var q%d = 1 + " % rnd.randint(0, 999), " + 2", []
    return "to_string(to_string(", "))", [("Fun_Call", 10), ("Fun_Call", 0)]


def gen_program(rnd):
    P = Prog(rnd)
    depth = rnd.randint(1, 5)
    fault_kind = rnd.choice(["id", "id", "arity"])
    names = ["fn_%d_%s" % (i, "".join(rnd.choice("abcxyz") for _ in range(3))) for i in range(depth)]
    files = []
    nfiles = rnd.randint(1, max(1, depth))
    fnames = ["file%d.chai" % i for i in range(nfiles)] + ["__EVAL__", "dir/with space.chai"]
    defs = []          # (function index, text, marks relative to text)
    expected_inner_to_outer = []     # filled below: list of (kind, label)
    marks = {}
    texts = {}
    # innermost function: the fault
    for i in reversed(range(depth)):
        lines = P.filler("  ", rnd.randint(0, 4))
        indent = rnd.choice(["  ", "    ", "\t", ""])
        if i == depth - 1:
            if fault_kind == "id":
                core = "undefined_name_%d" % rnd.randint(0, 99999)
                corekind = "Id"
            else:
                core = call_text(rnd, "arity_one", "1, 2, 3", rnd.random() < 0.3)
                corekind = "Fun_Call"
        else:
            core = call_text(rnd, names[i + 1], rnd.choice(["a", "a + 1", "1", "t"]), rnd.random() < 0.3)
            corekind = "Fun_Call"
        pre, suf, enclosing = wrap_stmt(rnd, core, i)
        stmt_prefix = indent + pre
        if rnd.random() < 0.35:
            # the statement shares its line with a preceding `;`-terminated one (Dot_Fun_Array backs up over the `;` with --m_position)
            stmt_prefix = indent + rnd.choice(["t += 1; ", "t;", "var z%d = t ;\t" % rnd.randint(0, 999), "t = t + 1 ; /* c */ "]) + pre
        body_before = P.nl().join(lines + [""]) if lines else ""
        after = P.filler("  ", rnd.randint(0, 3))
        header = "def %s(a)%s{%s" % (names[i], rnd.choice([" ", "\n", " // hdr\n", ""]), P.nl())
        header += "  var t = a" + P.nl()
        text = header + body_before + stmt_prefix
        off_core = len(text)
        text += core + suf + P.nl() + P.nl().join(after + [""]) + "}" + P.nl()
        entry = [(corekind, off_core)] + [(k, off_core - len(pre) + d) for k, d in enclosing]
        defs.append((i, text, entry))
    # distribute the definitions over chunks / files (callee first so that names resolve; order does not matter for def but keep it simple)
    chunks = []
    helper = "def arity_one(x) { x }" + P.nl()
    chunks.append([rnd.choice(fnames), helper, []])
    for i, text, entry in defs:          # innermost first
        if chunks and rnd.random() < 0.4:
            c = chunks[-1]
            base = len(c[1]) + 0
            sep = P.nl() * rnd.randint(0, 2)
            c[1] += sep
            base = len(c[1])
            c[1] += text
            c[2].append((i, [(k, base + o) for k, o in entry]))
        else:
            lead = P.nl().join(P.filler("", rnd.randint(0, 3), code=False) + [""])
            chunks.append([rnd.choice(fnames), lead + text, [(i, [(k, len(lead) + o) for k, o in entry])]])
    # the top-level chunk with the outermost call
    lead = P.nl().join(P.filler("", rnd.randint(0, 3), code=False) + [""]) + "var t = 1" + P.nl() + P.nl().join(P.filler("", rnd.randint(0, 3)) + [""])
    core = call_text(rnd, names[0], rnd.choice(["1", "t", "t + 1"]), rnd.random() < 0.3)
    pre, suf, enclosing = wrap_stmt(rnd, core, -1)
    if pre.startswith("return"):
        pre = ""
    indent = rnd.choice(["", "  ", "\t"])
    if rnd.random() < 0.35:
        indent += rnd.choice(["t += 1; ", "t;", "t = t + 1 ; /* c */ "])
    top = lead + indent + pre
    off = len(top)
    top += core + suf + P.nl() + P.nl().join(P.filler("", rnd.randint(0, 2)) + [""])
    chunks.append([rnd.choice(fnames), top, [(-1, [("Fun_Call", off)] + [(k, off - len(pre) + d) for k, d in enclosing])]])
    # expected call stack entries (kind, chunk index, offset), innermost first: function depth-1, depth-2, ..., 0, top level
    where = {}
    for ci, (fn, text, ents) in enumerate(chunks):
        for i, entry in ents:
            where[i] = (ci, entry)
    expected = []
    for i in list(reversed(range(depth))) + [-1]:
        ci, entry = where[i]
        for k, o in entry:
            expected.append((k, ci, o))
    return {"chunks": [(fn, text.encode("latin-1")) for fn, text, _ in chunks], "expected": expected, "fault_kind": fault_kind, "depth": depth}


def mk(chunks, expected, fault_kind, depth):
    """corpus helper: expected = [(kind, chunk index, needle)], the node starts where `needle` first occurs in that chunk"""
    return {"chunks": chunks, "expected": [(k, ci, chunks[ci][1].index(n)) for k, ci, n in expected], "fault_kind": fault_kind, "depth": depth}


def read_corpus():
    out = []
    for l in open(os.path.join(vlib.ROOT, "corpus", "C20.txt")):
        l = l.rstrip("\n")
        if not l.strip() or l.startswith("#"):
            continue
        out.append(eval(l))
    return out


def hx(b):
    return p_C01.hx(b)


STACK = re.compile(r"(\w+)@([0-9a-f-]+):(\d+):(\d+)")
CALL_KINDS = ("Fun_Call",)
TREE_KINDS = ("Id", "Fun_Call", "Dot_Access", "Array_Call")


def judge(prog, obs, coord):
    """oracle; coord(chunk index, offset) -> 'line:col' by the specification"""
    if not obs.startswith("ERR(eval_error) "):
        return "the faulty program did not end in an eval_error: " + obs[:120]
    m = re.match(r"ERR\(eval_error\) chunk=(\d+) (\S+) pos=\S+ file=\S+ \[(.*)\]$", obs)
    if not m:
        return "unreadable observation"
    if int(m.group(1)) != len(prog["chunks"]) - 1:
        return "the error was raised while evaluating chunk %s, not the last one" % m.group(1)
    try:
        reason = bytes.fromhex(m.group(2)).decode("latin-1")
    except ValueError:
        reason = ""
    if prog["fault_kind"] == "id" and not reason.startswith("Can not find object: undefined_name_"):
        return "unexpected reason for an unknown identifier: " + reason
    if prog["fault_kind"] == "arity" and "arity_one" not in reason:
        return "unexpected reason for a call no overload accepts: " + reason
    stack = STACK.findall(m.group(3))
    if not stack:
        return "the eval_error carries no call stack"
    exp = [(k, hx(prog["chunks"][ci][0]), coord(ci, o)) for k, ci, o in prog["expected"]]
    got0 = (stack[0][0], stack[0][1], "%s:%s" % (stack[0][2], stack[0][3]))
    if got0 != exp[0]:
        return "call_stack[0] is %s %s at %s, the failing construct is %s %s at %s" % (got0[0], vlib.unhex(got0[1]).decode("latin-1"), got0[2], exp[0][0],
                                                                                          vlib.unhex(exp[0][1]).decode("latin-1"), exp[0][2])
    got_calls = [(k, f, "%s:%s" % (l, c)) for k, f, l, c in stack if k in CALL_KINDS]
    exp_calls = [e for e in exp if e[0] in CALL_KINDS]
    if got_calls != exp_calls:
        return "call-expression entries of the call stack %s differ from the active call sites %s" % (
            [(vlib.unhex(f).decode("latin-1"), p) for k, f, p in got_calls], [(vlib.unhex(f).decode("latin-1"), p) for k, f, p in exp_calls])
    return None


def builds():
    ebin = vlib.cxx_build("h_errloc", flavor="opt")
    pbin = vlib.cxx_build("h_parse")
    sbin = vlib.model_build("parserspec", ["theories/ParserSpecRun.vo"])
    return ebin, pbin, sbin


def warm():
    builds()
    p_C01.model_bin()


def trace_of(res):
    """'ERR(eval_error) <hexreason> [Kind@file:line:col,...]' or '[Kind@line:col,...]' -> [(kind, line, col)]"""
    if not res.startswith("ERR(eval_error)") or "[" not in res:
        return None
    body = res[res.index("[") + 1:res.rindex("]")]
    out = []
    for e in body.split(","):
        if "@" not in e:
            continue
        kind, pos = e.split("@", 1)
        f = pos.split(":")
        out.append((kind, f[-2], f[-1]))
    return out


def evaluator_trace_tie(c, tier, seed):
    """evaluator side: the call stack of every eval_error raised by generated programs, node for node (kind, line, col, innermost first),
    implementation against the Coq evaluator (whose wrapper is the subject of C20_wrapper_appends_the_node)"""
    import evalcheck as E, gen_prog
    n = 3000 if tier == "thorough" else 350
    progs, _ = gen_prog.programs(seed * 77 + 20, n, max_depth=3, error_rate=0.5)
    progs = [p.replace("; ", ";\n  ", 3) for p in progs]      # a few line breaks so that lines differ
    for mode in ("opt", "raw"):
        res = E.run_impl(progs, mode)
        idx = [i for i in range(len(progs)) if "tree" in res[i]]
        mod = E.run_model("mech", [res[i]["tree"] for i in idx])
        for k, i in enumerate(idx):
            ti = trace_of(res[i]["res"])
            if ti is None or mod[k] is None:
                continue
            parts = mod[k].split(" || ")
            mres = parts[1] if len(parts) > 1 else ""
            if mres.startswith("UNSUP") or mres.startswith("FUEL"):
                continue
            tm = trace_of(mres)
            c.dist["call-stacks compared with the evaluator model"] = c.dist.get("call-stacks compared with the evaluator model", 0) + 1
            if tm is None or ti != tm:
                # reasons of dispatch errors differ by design; only the stacks are compared
                c.disagree("eval_error::call_stack (evaluator model vs implementation, %s parser)" % mode, progs[i], ti, tm)
            else:
                c.cov["traces_validated_against_impl"] = c.cov.get("traces_validated_against_impl", 0) + 1
                c.dist["call-stack depth:%s" % (len(ti) if len(ti) < 8 else "8+")] = c.dist.get("call-stack depth:%s" % (len(ti) if len(ti) < 8 else "8+"), 0) + 1


def check(tier, seed):
    c = vlib.Check("C20", tier, seed)
    c.cov["rule"] = ("programs = chains of 1..5 script functions defined in separately evaluated chunks under different file names (incl. `__EVAL__` and a name with a space), "
                     "filler statements, blank lines, `//`, `/* */` (multi-line) and `#` comments, LF/CRLF mixed per line, tabs, calls split across lines or with a comment "
                     "before the parenthesis, each call possibly wrapped (var/return/if/to_string(..)/arithmetic); ONE fault in the innermost function: an unknown identifier or a "
                     "call with the wrong number of arguments.  non-trivial = the program ends in the injected eval_error; distinct = distinct program texts")
    c.assumptions = ["ground truth = byte offsets the generator recorded while emitting the text; (line, col) of an offset = 1 + number of LF before it, 1 + bytes since the last LF "
                     "(LexDefs.count_nl / since_nl, evaluated by the extracted specification m_parserspec)",
                     "the evaluator side (which nodes AST_Node_Impl::eval appends to call_stack) is modelled by Eval.with_trace (theorems C20_wrapper_appends_the_node, "
                     "C20_call_stack_innermost_first, C20_unresolved_identifier_points_at_itself) and tied by comparing whole call stacks on generated failing programs",
                     "node positions of the model are tied to the implementation through the full tree dump (harness/h_parse.cpp, raw mode) on every chunk",
                     "hand port of the grammar layer (ParserDefs.v), see C01"]
    tr = ["OperatorTable", "IntLadder", "Keywords"]
    c.prove("Properties_C20", model_targets=["props/Properties_Lex.vo", "props/Properties_C01.vo"], translators=tr)
    ebin, pbin, sbin = builds()
    try:
        mbin = p_C01.model_bin()
    except vlib.BuildError as ex:
        mbin = None
        c.broken_ties.append(("correspondence", "parser: the mechanism model no longer builds from the regenerated tables", str(ex)[-1500:]))
    rnd = random.Random(seed * 31337 + 20)
    progs = read_corpus() + [gen_program(rnd) for _ in range(6000 if tier == "thorough" else 700)]
    # ---- implementation runs (optimizer on and off)
    lines = [" ".join(hx(fn) + ":" + hx(t) for fn, t in p["chunks"]) for p in progs]
    with ThreadPoolExecutor(max_workers=4) as ex:
        fo = ex.submit(lambda: p_C01.par_lines(ebin, ["opt " + l for l in lines], 60))
        fr = ex.submit(lambda: p_C01.par_lines(ebin, ["raw " + l for l in lines], 60))
        obs_opt, e1 = fo.result()
        obs_raw, e2 = fr.result()
    # ---- ground-truth coordinates by the specification
    need = []
    for pi, p in enumerate(progs):
        for k, ci, o in p["expected"]:
            need.append((pi, ci, o))
    need = sorted(set(need))
    sp, _ = p_C01.par_lines(sbin, ["trivia " + hx(progs[pi]["chunks"][ci][1][:o]) for pi, ci, o in need], 500)
    coords = {}
    for (pi, ci, o), r in zip(need, sp):
        coords[(pi, ci, o)] = r.split(" ")[1] if " " in r else "?"
    # ---- the model's trees and node lists for every distinct chunk
    chunkset = sorted({(fn, t) for p in progs for fn, t in p["chunks"]})
    model_nodes, model_tree, impl_tree = {}, {}, {}
    if mbin:
        mt, _ = p_C01.par_lines(mbin, ["raw %s %s" % (hx(t), hx(fn)) for fn, t in chunkset], 20)
        mn, _ = p_C01.par_lines(mbin, ["nodes %s %s" % (hx(t), hx(fn)) for fn, t in chunkset], 20)
        it, _ = p_C01.par_lines(pbin, ["raw %s %s" % (hx(t), hx(fn)) for fn, t in chunkset], 200)
        for key, a, b, cc in zip(chunkset, mt, mn, it):
            model_tree[key], model_nodes[key], impl_tree[key] = a, b, cc
        ndis = 0
        for key in chunkset:
            c.cov["traces_validated_against_impl"] += 1
            ok, what = p_C01.compare(impl_tree[key], model_tree[key])
            c.dist["tie:tree-" + what] = c.dist.get("tie:tree-" + what, 0) + 1
            if not ok:
                ndis += 1
                if ndis <= 10:
                    c.disagree("parser-positions", {"file": key[0], "chunk": key[1].decode("latin-1")[:600]}, impl_tree[key][:1500], model_tree[key][:1500])
    seen = set()
    nfail = nd2 = 0
    for pi, (p, oo, orr) in enumerate(zip(progs, obs_opt, obs_raw)):
        c.cov["evaluations"] += 1
        c.cov["programs"] += 1
        c.dist["depth:%d" % p["depth"]] = c.dist.get("depth:%d" % p["depth"], 0) + 1
        c.dist["fault:" + p["fault_kind"]] = c.dist.get("fault:" + p["fault_kind"], 0) + 1
        key = tuple(p["chunks"])
        if key not in seen:
            seen.add(key)
            if oo.startswith("ERR(eval_error)"):
                c.cov["distinct_nontrivial"] += 1
        coord = lambda ci, o, pi=pi: coords.get((pi, ci, o), "?")
        for mode, obs in (("opt", oo), ("raw", orr)):
            why = judge(p, obs, coord)
            if why:
                nfail += 1
                if nfail <= 30:
                    c.fail(why, {"mode": mode, "chunks": [(fn, t.decode("latin-1")) for fn, t in p["chunks"]], "chunks_hex": [(fn, hx(t)) for fn, t in p["chunks"]],
                                 "expected": [(k, p["chunks"][ci][0], coord(ci, o)) for k, ci, o in p["expected"]], "impl": obs[:1200],
                                 "format": "<raw|opt> <hex file>:<hex chunk> ... -> harness/h_errloc.cpp; expected = (kind, file, line:col) innermost first"})
        # tie (b): every tree-kind entry of the (raw) call stack is a node of the model's tree for that file
        if mbin and orr.startswith("ERR(eval_error)"):
            by_file = {}
            for fn, t in p["chunks"]:
                by_file.setdefault(hx(fn), set()).update(re.findall(r"(\w+)@([0-9a-f-]+):(\d+:\d+)-", model_nodes.get((fn, t), "")))
            for k, f, l, col in STACK.findall(orr):
                if k in TREE_KINDS:
                    c.cov["disagreements_checked"] += 1
                    if (k, f, "%s:%s" % (l, col)) not in by_file.get(f, set()):
                        nd2 += 1
                        if nd2 <= 10:
                            c.disagree("call-stack-node", {"entry": "%s@%s:%s:%s" % (k, vlib.unhex(f).decode("latin-1"), l, col),
                                                           "chunks": [(fn, t.decode("latin-1")) for fn, t in p["chunks"]]}, orr[:800], "no such node in the model's trees")
    for k in (0, len(progs) // 2, len(progs) - 1):
        p = progs[k]
        c.sample({"chunks": [(fn, t.decode("latin-1")) for fn, t in p["chunks"]], "expected": [(kk, p["chunks"][ci][0], coords.get((k, ci, o))) for kk, ci, o in p["expected"]],
                  "impl_opt": obs_opt[k][:600]}, limit=3)
    evaluator_trace_tie(c, tier, seed)
    return c.finish()


def replay(path):
    r = json.load(open(os.path.join(vlib.ROOT, path) if not os.path.isabs(path) else path))
    if r.get("kind") != "failing-input":
        print("tie-broken replay: the following no longer check:", json.dumps(r.get("no_longer_checks"), indent=1)[:4000])
        return 1
    ebin, pbin, sbin = builds()
    case = r["failure"]["case"]
    line = case["mode"] + " " + " ".join(hx(fn) + ":" + h for fn, h in case["chunks_hex"])
    _, o, _ = vlib.run_lines(ebin, [line])
    print("program:")
    for fn, t in case["chunks"]:
        print("---- file %r\n%s" % (fn, t))
    print("expected (kind, file, line:col), innermost first:", case["expected"])
    print("impl:", o[0][:1500])
    st = STACK.findall(o[0])
    exp0 = case["expected"][0]
    bad = not st or (st[0][0], vlib.unhex(st[0][1]).decode("latin-1"), "%s:%s" % (st[0][2], st[0][3])) != tuple(exp0) or \
        [(vlib.unhex(f).decode("latin-1"), "%s:%s" % (l, c)) for k, f, l, c in st if k in CALL_KINDS] != [(f, p) for k, f, p in case["expected"] if k in CALL_KINDS]
    print("REPRODUCED" if bad else "not reproduced")
    return 1 if bad else 0
