"""C04 — a name resolves to its innermost live binding; lookup caches are invisible.
proof:  Properties_C04 (innermost-binding theorem for the by-name search, hint codec, transparency of a still-valid
        hint; the full statement is REFUTED by a witness evaluated in Coq — known finding).
tie:    evaluator model with hints ⇄ implementation; model without hints ⇄ implementation with the CHAISCRIPT_VERIF
        hint bypass.
oracle: (1) implementation with the cache == implementation with the bypass; a difference is the known finding iff the
        faithful model (hints on) reproduces the cached run and the model with the mechanism removed (hints off)
        reproduces the bypassed run; anything else is a new violation. (2) bypassed implementation == reference
        evaluator (innermost binding semantics)."""
import json, random
import vlib, evalcheck as E, gen_prog

KEY = "dispatchkit.hpp:Dispatch_Engine::get_object:stale-hint"


def warm():
    E.warm()
    E.eval_tables(["eval(\"1\")"], "opt")


def layout_program(rnd):
    """one function body / lambda / loop body evaluated several times under different scope layouts"""
    k = rnd.random()
    n = rnd.randint(0, 99)
    calls = [rnd.choice(["false", "true"]) for _ in range(rnd.randint(2, 4))]
    if k < 0.3:
        # declaration injected by eval() before another declaration
        pre = rnd.choice(["", "var z = 3; "])
        body = 'if (b) { eval("var h%d = 100") }; var a = %d; a' % (n, rnd.randint(1, 9))
        if rnd.random() < 0.4:
            body = 'if (b) { eval("var h%d = 100") }; var a = 1; var c = 2; a + c * 10' % n
        prog = "def g(b) { %s%s }; " % (pre, body) + "; ".join("print(g(%s))" % c for c in calls)
        return prog, "eval-in-function"
    if k < 0.45:
        # eval after the first use: layout does not change what the node sees
        prog = 'def g(b) { var a = 1; var r = a; if (b) { eval("var h%d = 5") }; r }; ' % n + "; ".join("print(g(%s))" % c for c in calls)
        return prog, "eval-after-use"
    if k < 0.6:
        # recursion with a depth-dependent declaration
        prog = ('def r(n) { if (n == 2) { eval("var d%d = 50") }; var a = n; if (n > 0) { return a + r(n - 1) }; a }; print(r(%d)); print(r(%d))'
                % (n, rnd.randint(1, 3), rnd.randint(1, 3)))
        return prog, "recursion"
    if k < 0.72:
        # loop body whose layout changes between iterations
        prog = ('var s = 0; for (var i = 0; i < 3; ++i) { if (i == %d) { eval("var q%d = 40") }; var a = i; s += a }; s' % (rnd.randint(0, 2), n))
        return prog, "loop-body"
    if k < 0.84:
        # a name that first resolves to a function, later to a local injected before the use
        prog = ('def f%d() { 7 }; def g(b) { if (b) { eval("var f%d = 1") }; var t = 0; t }; ' % (n, n)) + "; ".join("print(g(%s))" % c for c in calls)
        return prog, "function-then-local"
    if k < 0.855:
        # the same capturing lambda called directly and through an object attribute (the frame gains a `this`), in both orders
        c1, c2 = rnd.randint(1, 9), rnd.randint(1, 9)
        lam = rnd.choice(["fun[c](x) { var a = x; a * c }", "fun[c, d](x, y) { var a = x + y; a * c + d }", "fun[c](x) { c + x }"])
        two = "x, y" in lam
        arg = lambda v: "%d, %d" % (v, v + 1) if two else str(v)
        calls = ["print(l(%s))" % arg(5), "print(o.f(%s))" % arg(5), "print(l(%s))" % arg(7), "print(o.f(%s))" % arg(2)]
        rnd.shuffle(calls)
        prog = "var c = %d; var d = %d; var l = %s; var o = Dynamic_Object(); o.f = l; " % (c1, c2, lam) + "; ".join(calls)
        return prog, "lambda-free-and-attribute"
    if k < 0.86:
        # a function-valued attribute whose call throws inside try/catch, in a function whose locals were cached by an earlier call
        prog = ('def use(h, k) { var a = 1; var r = 0; try { r = h.f(k) } catch(e) { r = -1 }; var b = 2; a * 100 + b * 10 + r }; var h = Dynamic_Object(); '
                'h.f = fun(k) { if (k > 1) { throw(1) }; k }; ' + "; ".join("print(use(h, %d))" % rnd.choice([0, 1, 5, 9]) for _ in range(rnd.randint(3, 5))))
        return prog, "attribute-call-throws"
    if k < 0.87:
        # a name that resolves to a function at the first evaluation of a call site and to a global object afterwards
        prog = ('def greet%d() { "f" }; def other%d() { 1 }; def run() { greet%d() }; print(run()); global greet%d = fun() { "g" }; print(run()); print(run())' % (n, n, n, n))
        return prog, "function-then-global"
    if k < 0.90:
        # a block that declares only references / only under a condition, followed by a later declaration in the enclosing frame
        decl = rnd.choice(["auto &head = v[0]; out += head", "var &head = v[1]; out += head", "var t = v[0]; out += t", "auto t = 2; out += t"])
        prog = ('def d(verbose, v) { var out = 0; if (verbose) { %s }; var n = v.size(); out * 100 + n }; ' % decl) + "; ".join("print(d(%s, [7, 8, 9]))" % c for c in calls)
        return prog, "conditional-block-declaration"
    if k < 0.93:
        # a global shadowed later by a local of the same name
        prog = ('global G%d = 1; def g(b) { if (b) { eval("var G%d = 50") }; G%d }; ' % (n, n, n)) + "; ".join("print(g(%s))" % c for c in calls)
        return prog, "global-then-local"
    # lambda with captures called repeatedly, after further declarations in the caller
    prog = ('var c = %d; var l = fun[c](x) { var a = x; a + c }; print(l(1)); var more = 5; print(l(2)); { var inner = 1; print(l(3)) }' % rnd.randint(1, 9))
    return prog, "lambda-captures"


def size_programs(tier):
    """scopes whose size sits at the boundaries of the hint's fields (slot: 16 bits, remembered positions up to 65535)"""
    sizes = [(260, [255, 256, 257]), (4200, [4095, 4096, 4099])] + ([(66000, [65535, 65536, 65999])] if tier == "thorough" else [])
    out = []
    for n, ks in sizes:
        decl = "; ".join("var v%d = %d" % (i, i) for i in range(n))
        for kk in ks:
            out.append(decl + "; var s = 0; for (var i = 0; i < 3; ++i) { s += v%d }; def rd() { v%d }; s" % (kk, 0))
    return out


def gen(tier, seed):
    rnd = random.Random(seed * 31 + 4)
    n_lay = {"quick": 500, "thorough": 8000}[tier]
    progs, kinds = [], []
    for _ in range(n_lay):
        p, k = layout_program(rnd)
        progs.append(p); kinds.append(k)
    # ordinary programs: the cache must be invisible
    more, _ = gen_prog.programs(seed * 77 + 4, {"quick": 300, "thorough": 3000}[tier], max_depth=3, error_rate=0.03)
    progs += more
    kinds += ["ordinary"] * len(more)
    return progs, kinds


def judge(c, progs, kinds, source, use_model=True):
    on = E.run_impl(progs, "opt")
    off = E.run_impl(progs, "opt", extra=("nohints",))
    # the model is run on the tree its *own* optimizer makes of the unoptimised parse, not on the tree the implementation's optimizer
    # made: a stale hint that only exists because the implementation's optimizer produced a different tree is then not reproduced by
    # the faithful model, so it is not attributed to the recorded finding
    raw = E.run_impl(progs, "raw")
    evs = E.eval_tables(progs, "opt")
    idx = [i for i in range(len(progs)) if "tree" in off[i]]
    own = E.run_optimizer_model([raw[i]["tree"] if "tree" in raw[i] else "" for i in idx]) if use_model else [None] * len(idx)
    if len(own) != len(idx):
        raise vlib.BuildError("the optimizer model answered %d of %d trees" % (len(own), len(idx)))
    trees = [o if (o and o.startswith("(")) else off[i]["tree"] for o, i in zip(own, idx)]
    for o, i in zip(own, idx):
        if o and o.startswith("(") and o != off[i]["tree"]:
            c.disagree("optimize_tree(raw tree) vs the implementation's optimised tree", progs[i], off[i]["tree"][:1200], o[:1200])
    if use_model:
        m_on = E.run_model("mech", trees, hints=True, evals=[evs[i] for i in idx])
        m_off = E.run_model("mech", trees, hints=False, evals=[evs[i] for i in idx])
        ref = E.run_model("spec", trees, hints=False, evals=[evs[i] for i in idx])
    else:       # programs of thousands of declarations: judged on the implementation alone (cache on == cache bypassed)
        m_on = m_off = ref = [None] * len(trees)
    seen = set()
    for k, i in enumerate(idx):
        c.cov["evaluations"] += 1
        c.dist[kinds[i]] = c.dist.get(kinds[i], 0) + 1
        died = "tree" not in on[i]
        obs_on = ("<died>", on[i].get("parse_error", "")) if died else E.canon_obs(on[i]["out"], on[i]["res"])
        obs_off = E.canon_obs(off[i]["out"], off[i]["res"])
        mo_out, mo_res = E.split_model(m_on[k]) if m_on[k] else (None, "UNSUP")
        mf_out, mf_res = E.split_model(m_off[k]) if m_off[k] else (None, "UNSUP")
        unsup_off = mf_out is None or mf_res.startswith("UNSUP") or mf_res.startswith("FUEL")
        if kinds[i] != "ordinary":
            seen.add(progs[i])
        # ties
        if not unsup_off:
            c.cov["traces_validated_against_impl"] += 1
            if E.canon_obs(mf_out, mf_res) != obs_off:
                c.disagree("eval(hints off) vs implementation with the hint bypass", progs[i], obs_off, E.canon_obs(mf_out, mf_res))
        else:
            c.dist["unsupported_by_model"] = c.dist.get("unsupported_by_model", 0) + 1
        model_on_ub = mo_res.startswith("UNSUP UB:hint")
        if mo_out is not None and not mo_res.startswith("UNSUP") and not mo_res.startswith("FUEL") and not died:
            if E.canon_obs(mo_out, mo_res) != obs_on:
                c.disagree("eval(hints on) vs implementation", progs[i], obs_on, E.canon_obs(mo_out, mo_res))
        # oracle 1: the cache is invisible
        if obs_on != obs_off:
            explained = (not unsup_off) and E.canon_obs(mf_out, mf_res) == obs_off and (
                model_on_ub or (mo_out is not None and not died and E.canon_obs(mo_out, mo_res) == obs_on))
            c.dist["cache_visible"] = c.dist.get("cache_visible", 0) + 1
            c.fail("evaluation with the lookup cache differs from evaluation with the cache bypassed",
                   {"program": progs[i], "with_cache": obs_on, "bypassed": obs_off, "kind": kinds[i], "source": source},
                   finding_key=KEY if explained else None)
        # oracle 2: innermost binding (reference semantics) with the cache bypassed
        if ref[k] is not None:
            r_out, r_res = E.split_model(ref[k])
            if r_out is not None and not r_res.startswith("UNSUP") and not r_res.startswith("FUEL") and E.canon_obs(r_out, r_res) != obs_off:
                c.fail("with the cache bypassed, a name did not resolve as the innermost-binding reference semantics says",
                       {"program": progs[i], "implementation": obs_off, "reference": E.canon_obs(r_out, r_res), "source": source})
    c.cov["distinct_nontrivial"] += len(seen)
    return on, off


def check(tier, seed):
    c = vlib.Check("C04", tier, seed)
    c.cov["rule"] = ("programs in which one function body / lambda / loop body is evaluated 2-4 times under different scope layouts (declarations injected by eval() "
                     "before or after other declarations, depth-dependent declarations under recursion, a function name later shadowed by a local, lambdas with captures "
                     "called from different scopes; every order of true/false calls is drawn), plus ordinary generated programs; non-trivial = a layout program; distinct = program text")
    c.assumptions = ["CHAISCRIPT_VERIF hook H1 (Dispatch_Engine::verif_ignore_hints) makes get_object search by name and never write the hint",
                     "eval() texts are pre-parsed by the implementation's own parser and handed to the model as trees with fresh nodes per call",
                     "function-position hints are validated by name in the implementation and are not modelled",
                     "use(), attribute-held lambdas and globals are outside the modelled subset"]
    c.prove("Properties_C04", translators=["NumTables", "OptOrder"])
    if E.bins().get("mech") is None:
        c.broken_ties.append(("correspondence", "eval: mechanism model does not build", E.bins().get("mech_err")))
    corpus = E.corpus("C04.txt")
    judge(c, corpus, ["corpus"] * len(corpus), "corpus")
    sz = size_programs(tier)
    judge(c, sz, ["scope-size"] * len(sz), "sized", use_model=False)
    progs, kinds = gen(tier, seed)
    on, off = judge(c, progs, kinds, "generated")
    for k in (0, 1, len(progs) - 1):
        c.sample({"program": progs[k][:500], "with_cache": on[k].get("res", on[k].get("parse_error", ""))[:80], "bypassed": off[k].get("res", "")[:80]})
    return c.finish()


def replay(path):
    r = json.load(open(path))
    if r.get("kind") != "failing-input":
        print(json.dumps(r, indent=1)[:3000]); return 1
    case = r["failure"]["case"]
    c = vlib.Check("C04", "quick", 0)
    judge(c, [case["program"]], ["replay"], "replay")
    print("REPRODUCED" if c.failures else "not reproduced (or explained by the known finding)", json.dumps(c.failures[:1], indent=1))
    return 1 if c.failures else 0
