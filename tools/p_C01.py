"""C01 — Parsing is total and safe: a tree for the whole input, or eval_error.
proof:  Properties_C01 (+ Properties_Lex) over the grammar-layer model ParserDefs.v and the tables regenerated from the source
        (t_OperatorTable, t_Keywords, t_IntLadder).
tie:    translators (every run) + correspondence  h_parse (the real parser, identity optimizer, ASan/UBSan build)
        <-> m_parser (extracted ParserRun: `show_ast (parse input)` must equal the dump, or reason/line/col of the eval_error).
oracle: decided on the implementation's observation alone, with the extracted *specification* m_parserspec (ParserSpecRun:
        trivia_only + end position; independent of gen/ and of the grammar):
          - process death / sanitizer report / CPU-time limit, or any exception class other than eval_error, is a failure;
          - root Noop  => the input is trivia only;   trivia only => the parse succeeds with an empty program;
          - root File  => the File node ends at (line, col) of the end of the input;
          - an eval_error names the file given to parse ("instr eval" inside an in-string eval, none for unpositioned errors)."""
import glob, itertools, json, os, random, re, sys
from concurrent.futures import ThreadPoolExecutor
import vlib

FNAME = "F"
FINDING_CHAIN = "chaiscript_parser.hpp:left-deep-chain"
FINDING_EXP = "chaiscript_parser.hpp:Container_Arg_List:exponential-backtracking"
CONTAINER_NEST_CAP = 8      # `[`*n 1 `]`*n costs about 3^n steps (known finding FINDING_EXP): generated container nesting stays below
MAX_INPUT = 48000            # generated inputs are capped (the nesting families at depth 5000 are cut to this many bytes' worth)
FLOAT_TOK = re.compile(r"k=c,(float|double|ldouble):f(32|64|80):([0-9a-f]+)$")
MODEL_POW_ULP = 4       # spellings with an exponent go through libm's pow (see C16)
MAX_MODEL_BYTES = 2600  # the extracted model indexes the buffer as a list: quadratic; longer inputs are oracle-only (except the prelude, thorough,
                        # and the nesting families, which end in a depth error after a few hundred calls)


def hx(b):
    if isinstance(b, str):
        b = b.encode("latin-1")
    return b.hex() if b else "-"


# ------------------------------------------------------------------ inputs
def repo_files():
    out = []
    for p in sorted(glob.glob(os.path.join(vlib.REPO, "unittests", "*.chai"))) + sorted(glob.glob(os.path.join(vlib.REPO, "samples", "*.chai"))):
        out.append((os.path.relpath(p, vlib.REPO), open(p, "rb").read()))
    return out


def prelude_text():
    src = open(os.path.join(vlib.REPO, "include/chaiscript/language/chaiscript_prelude.hpp")).read()
    m = re.search(r'R"chaiscript\((.*?)\)chaiscript"', src, re.S)
    return m.group(1).encode("latin-1") if m else b""


SHORT = [
    "1+2*3", "x = y = 3", "a.b(3)[1].c", "f(1, 2)(3)", "[1, 2, 3]", "[1..3]", '["a":1, "b":2]', "-x + !y", "++i; --j", "x ? y : z",
    '"a${1+2}b${c}"', "'c'", "'\\n'", '"\\x41\\101\\u00e9"', "1.5e3f + 0x1Fu + 0b101 + 017", "`+`(1,2)", "auto x = 1", "var &r = x", "global g = 2",
    "attr A::b", "def f(x, int y) : x > 2 { return x }", "def A::m() { this.z }", "fun[a,b](c){ a+b+c }", "fun(){}",
    "if (a) { 1 } else if (b) { 2 } else { 3 }", "if (var i = 0; i < 1) { }", "while (x < 3) { ++x; break; continue }", "for (var i = 0; i < 3; ++i) { }",
    "for (;;) {}", "for (x : [1,2]) { print(x) }", "switch (x) { case (1) { 2 } default { 3 } }", "try { 1 } catch(e) { 2 } catch(int e) { } finally { 3 }",
    "class A { def A() { } var z; attr w\n def m() { __CLASS__ + __FUNC__ } }", "a\n .b\n .c()", "x /* c */ + // d\n y", "#!/bin/chai\nprint(1)\n",
    "x := 3; y <<= 1; z ^= 2", "a && b || c & d | e ^ f", "a == b != c <= d >= e < f > g << h >> i", "true; false; Infinity; NaN; __LINE__; __FILE__; _",
    "f(\n1,\n2\n)", "return", "return 1", "{ { } }", "1;\r\n2\r\n3", "x;;y", "def f() { def g() { } }", "a.b.c = d.e", "\"${\"${1}\"}\"", "[[1,2],[3]]", "(((1)))",
    "if (true) {} else {} else {}", "print(\"a\" + to_string(1))",
    # empty forms of every bracketed construct, first in the input and after something else (the match stack is empty in the first case)
    "[]", " [ ] ", "[].size()", "\"${[]}\"", "[][0]", "[]()", "x; []", "var v = []", "f([])", "()", "{}", "{ }", "f()", "a[]", "\"\"", "''", "\"${}\"",
    "fun(){}()", "def f(){}", "class A{}", "try{}catch(e){}", "switch(x){}", "while(x){}", "if(x){}", "[[]]", "[[],[]]", "[()]", "({})", "[{}]", "// c\n[]", "/**/[]", "x[1][2](3).y", "- - x", "a ?\n b :\n c", "var f = fun(x) { x }\nf(2)",
]

BRACKETS = "()[]{}"


def truncations(progs):
    out = []
    for p in progs:
        b = p.encode("latin-1")
        for k in range(len(b) + 1):
            out.append(("trunc", b[:k]))
        for k in range(1, len(b)):
            out.append(("tail", b[k:]))
    return out


def bracket_edits(progs, rnd, per):
    out = []
    for p in progs:
        b = p.encode("latin-1")
        pos = [i for i, c in enumerate(b) if chr(c) in BRACKETS]
        for i in pos:
            out.append(("bracket-del", b[:i] + b[i + 1:]))
        for _ in range(per):
            i = rnd.randint(0, len(b))
            out.append(("bracket-ins", b[:i] + rnd.choice(BRACKETS).encode() + b[i:]))
        if pos:
            i, j = rnd.choice(pos), rnd.choice(pos)
            lst = list(b)
            lst[i], lst[j] = lst[j], lst[i]
            out.append(("bracket-swap", bytes(lst)))
    return out


def mutate(b, rnd):
    b = bytearray(b)
    for _ in range(rnd.choice([1, 1, 1, 2, 3])):
        kind = rnd.random()
        i = rnd.randint(0, max(0, len(b) - 1)) if b else 0
        if kind < 0.3 and b:
            b[i] ^= 1 << rnd.randint(0, 7)
        elif kind < 0.55:
            b.insert(i, rnd.choice(INTERESTING))
        elif kind < 0.8 and b:
            del b[i]
        elif kind < 0.9 and b:
            j = rnd.randint(i, min(len(b), i + 12))
            b[i:i] = b[i:j]
        else:
            b[i:i] = rnd.choice(SNIPPETS)
    return bytes(b)


INTERESTING = [0, 1, 9, 10, 13, 32, 34, 36, 39, 40, 41, 44, 46, 47, 58, 59, 61, 63, 91, 92, 93, 96, 123, 125, 126, 127, 128, 255, 42, 35, 48, 101]
SNIPPETS = [b"else {}", b"else ", b"/*", b"*/", b"//", b"${", b"\"", b"..", b"::", b":", b"fun", b"def ", b"class X {", b"}", b"case (1) {}", b"\r\n", b";", b"0x", b"1e",
            b"catch", b"finally {}", b"++", b"--", b"? 1 : 2", b"auto ", b"&", b"[", b"(", b"return ", b"\\", b"`"]

NEST_DEPTHS = [1, 2, 255, 256, 510, 511, 512, 513, 514, 600, 5000]


def nest_cases(tier):
    ds = sorted(set(NEST_DEPTHS + list(range(3, 90 if tier == "thorough" else 60))))
    out = []
    for n in ds:
        interp = "1"
        for _ in range(min(n, 600)):
            interp = '"${' + interp + '}"'
        fam = {
            "paren": "(" * n + "1" + ")" * n, "bracket": "[" * n + "1" + "]" * n, "brace": "{" * n + "}" * n,
            "lambda": "fun(){ " * n + "1" + " }" * n, "minus": "-" * n + "x", "minus-sp": "- " * n + "x", "bang": "!" * n + "x", "tilde": "~" * n + "x",
            "ternary-mid": "a ? " * n + "b" + " : c" * n, "ternary-tail": "a ? b : " * n + "c", "interp": interp, "index": "x[" * n + "1" + "]" * n,
            "call": "f(" * n + "1" + ")" * n, "equation": "x = " * n + "1", "if": "if (true) { " * n + "}" * n, "while": "while (true) { " * n + "}" * n,
            "def": "def f() { " * n + "}" * n, "paren-open": "(" * n, "bracket-open": "[" * n, "brace-open": "{" * n, "block-close": "}" * n,
            "mixed": "([{" * n, "try": "try { " * n + "}" * n, "switch": "switch (1) { case (1) { " * n + "} }" * n, "class": "class A { def A() { " * n + "} }" * n,
            "map": "[1:" * n + "2" + "]" * n, "range": "[1.." * n + "2" + "]" * n, "for": "for (;;) { " * n + "}" * n, "arglist": "f(1," * n + "2" + ")" * n,
        }
        for k, v in fam.items():
            if k in ("bracket", "map", "range") and n > CONTAINER_NEST_CAP:
                continue
            if k == "ternary-tail" and n > 600:      # `a ? b : a ? b : ...` is folded iteratively: a CHAIN (tree depth n), see FINDING_CHAIN
                continue
            if len(v) > MAX_INPUT:
                continue
            out.append(("nest-%s-%d" % (k, n), v.encode("latin-1")))
    # left-deep chains are built iteratively (no recursion): bounded here, see the known finding
    for n in (1, 2, 100, 1000, 2000):
        for k, v in {"chain-plus": "1" + "+1" * n, "chain-call": "x" + "()" * n, "chain-dot": "x" + ".y" * n, "chain-index": "x" + "[1]" * n,
                     "chain-stmt": "x;" * n, "chain-and": "a" + " && a" * n}.items():
            out.append(("%s-%d" % (k, n), v.encode("latin-1")))
    return out


BYTE_BASES = ['x = "ab" + \'c\' // cmt\ny /* c2 */ = 12.5e3 + foo_1(`+`)\n#ann\n', 'def f(a){ return a[0].b("${a}") }', "if (x) { y } else { z }"]
PROBE_BYTES = [0, 1, 8, 9, 10, 11, 12, 13, 27, 32, 34, 35, 36, 39, 42, 47, 59, 92, 96, 123, 125, 126, 127, 128, 129, 160, 191, 192, 224, 254, 255]


def byte_cases():
    out = []
    for base in BYTE_BASES:
        b = base.encode("latin-1")
        for i in range(len(b) + 1):
            for c in PROBE_BYTES:
                out.append(("byte-ins", b[:i] + bytes([c]) + b[i:]))
                if i < len(b):
                    out.append(("byte-sub", b[:i] + bytes([c]) + b[i + 1:]))
    for c in range(256):
        out.append(("byte-alone", bytes([c])))
        out.append(("byte-pair", bytes([c, c])))
        out.append(("byte-in-string", b'"' + bytes([c]) + b'"'))
        out.append(("byte-in-char", b"'" + bytes([c]) + b"'"))
        out.append(("byte-in-comment", b"/*" + bytes([c]) + b"*/ //" + bytes([c])))
        out.append(("byte-in-backtick", b"`" + bytes([c]) + b"`"))
        out.append(("byte-after-id", b"ab" + bytes([c]) + b"cd"))
        out.append(("byte-after-num", b"12" + bytes([c]) + b"3"))
    return out


ESC_ALPHA = ["\\", "x", "u", "U", "0", "7", "8", "a", "f", "g", '"', "'", "$", "{", "}"]


def escape_cases(rnd, tier):
    n = 3
    contents = [""]
    for k in range(1, n + 1):
        contents += ["".join(t) for t in itertools.product(ESC_ALPHA, repeat=k)]
    for _ in range(20000 if tier == "thorough" else 1500):
        contents.append("".join(rnd.choice(ESC_ALPHA + ["1", "+", " ", ";", "\n"]) for _ in range(rnd.choice([4, 5, 6, 8, 11]))))
    for cp in (0, 0x7f, 0x80, 0x7ff, 0x800, 0xd7ff, 0xd800, 0xdfff, 0xe000, 0xffff):
        contents += ["\\u%04x" % cp, "\\U%08x" % cp, "\\u%03x" % (cp & 0xfff)]
    for cp in (0x10000, 0x10ffff, 0x110000, 0x1fffff, 0x200000, 0x7fffffff, 0x80000000, 0xffffffff):
        contents += ["\\U%08x" % cp, "\\U%07x" % (cp >> 4)]
    contents += ["\\377", "\\400", "\\777", "\\1234", "\\x", "\\xg", "\\x0", "\\x000", "${x}", "a${x}b${y}c", '${"}"}', "${1}${2}", "${}", "${ }", "${;}", "${)}", "${1", "$",
                 "${x", "${${1}}", "${\"a\"}", "${'}'}", "${1+}", "${1 2}", "${def}", "${//}", "${/*}", "${\n1}", "a\nb", "a\r\nb", "\\\n"]
    out = []
    for c in contents:
        out.append(("esc-str", ('"' + c + '"').encode("latin-1")))
        out.append(("esc-chr", ("'" + c + "'").encode("latin-1")))
    return out


NUM_ALPHA = [".", "1", "0", "e", "E", "+", "-", "x", "b", "u", "l", "f", " ", "(", ")"]


def number_shapes(tier):
    """every string over an alphabet of numeric-literal characters up to length 4: malformed numbers must be rejected, not dropped"""
    alpha = NUM_ALPHA if tier == "thorough" else [".", "1", "0", "e", "+", "-", "x", "b", "u", " ", "("]
    out = []
    for k in range(1, 5):
        for t in itertools.product(alpha, repeat=k):
            out.append(("numshape", "".join(t).encode("latin-1")))
    return out


TRIVIA_PARTS = [b" ", b"\t", b"\n", b"\r\n", b"/* c */", b"/* \n */", b"/**/", b"/*/", b"// c\n", b"//\r\n", b"# a\n", b"#!x\n", b"//", b"#", b"/* open", b"\r", b"/", b";", b"x"]


def trivia_cases(rnd, n):
    out = [("trivia", b"")]
    for k in (1, 2):
        for t in itertools.product(TRIVIA_PARTS, repeat=k):
            out.append(("trivia", b"".join(t)))
    for _ in range(n):
        out.append(("trivia", b"".join(rnd.choice(TRIVIA_PARTS[:15]) for _ in range(rnd.randint(3, 9)))))
    return out


def read_corpus():
    out = []
    for l in open(os.path.join(vlib.ROOT, "corpus", "C01.txt")):
        l = l.rstrip("\n")
        if not l.strip() or l.startswith("#"):
            continue
        cmd, _, rest = l.partition(" ")
        if cmd == "text":
            out.append(("corpus", eval(rest).encode("latin-1"), None))
        elif cmd == "hex":
            out.append(("corpus", bytes.fromhex(rest.strip()), None))
        elif cmd == "finding":          # finding <key> <python expression giving the input>
            key, _, expr = rest.partition(" ")
            out.append(("corpus-finding", eval(expr).encode("latin-1"), key))
    return out


def gen_cases(tier, seed):
    rnd = random.Random(seed * 7919 + 1)
    files = repo_files()
    cases = [("file:" + n, b, None) for n, b in files]
    cases += [(k, b, None) for k, b in truncations(SHORT)]
    cases += [(k, b, None) for k, b in bracket_edits(SHORT, rnd, 3)]
    cases += [(k, b, None) for k, b in nest_cases(tier)]
    cases += [(k, b, None) for k, b in byte_cases()]
    cases += [(k, b, None) for k, b in escape_cases(rnd, tier)]
    cases += [(k, b, None) for k, b in trivia_cases(rnd, 3000 if tier == "thorough" else 300)]
    cases += [(k, b, None) for k, b in number_shapes(tier)]
    pool = [b for _, b in files] + [s.encode("latin-1") for s in SHORT]
    for _ in range(60000 if tier == "thorough" else 2500):
        cases.append(("mutation", mutate(rnd.choice(pool), rnd), None))
    if tier == "thorough":
        for n, b in files:
            step = max(1, len(b) // 40)
            for k in range(0, len(b), step):
                cases.append(("file-trunc", b[:k], None))
        for _ in range(3000):
            cases.append(("random-bytes", bytes(rnd.choice(INTERESTING + list(range(256))) for _ in range(rnd.randint(1, 24))), None))
    else:
        for _ in range(400):
            cases.append(("random-bytes", bytes(rnd.choice(INTERESTING + list(range(256))) for _ in range(rnd.randint(1, 16))), None))
    return cases


# ------------------------------------------------------------------ running
def par_lines(binp, lines, chunk, timeout=3000):
    parts = [lines[i:i + chunk] for i in range(0, len(lines), chunk)]
    with ThreadPoolExecutor(max_workers=vlib.NCPU) as ex:
        res = list(ex.map(lambda p: vlib.run_lines(binp, p, timeout=timeout), parts))
    out, err = [], ""
    for p, (rc, o, e) in zip(parts, res):
        if len(o) != len(p):
            o = o + ["MISSING"] * (len(p) - len(o))
            err += e[-2000:]
        out += o
    return out, err


def par_model(mbin, lines):
    """lines come longest first: the first few hundred run one per process, the rest in chunks"""
    head, tail = lines[:300], lines[300:]
    o1, e1 = par_lines(mbin, head, 1)
    o2, e2 = par_lines(mbin, tail, 80)
    return o1 + o2, e1 + e2


def ulps(bits, a, b):
    w = int(bits)
    ka, kb = int(a, 16), int(b, 16)
    sa, sb = ka >> (w - 1), kb >> (w - 1)
    ma, mb = ka & ((1 << (w - 1)) - 1), kb & ((1 << (w - 1)) - 1)
    return abs((-ma if sa else ma) - (-mb if sb else mb))


def same_tree(a, b):
    """equal dumps, or equal up to the last ulps of floating constants (libm pow)"""
    if a == b:
        return True, "exact"
    ta, tb = a.split(" "), b.split(" ")
    if len(ta) != len(tb):
        return False, "exact"
    fl = False
    for x, y in zip(ta, tb):
        if x == y:
            continue
        mx, my = FLOAT_TOK.match(x), FLOAT_TOK.match(y)
        if mx and my and mx.group(1) == my.group(1) and ulps(mx.group(2), mx.group(3), my.group(3)) <= MODEL_POW_ULP:
            fl = True
            continue
        return False, "exact"
    return True, "float-pow" if fl else "exact"


def expected_file(reason_hex, line, col, fname_hex):
    if line == "0" and col == "0":
        return "-"
    try:
        r = bytes.fromhex(reason_hex) if reason_hex != "-" else b""
    except ValueError:
        r = b""
    return hx("instr eval") if r.startswith(b'Error: "') else fname_hex


def compare(impl, model):
    """the tie: (agree, what)"""
    if model.startswith("OUTOFFUEL") or model in ("BADCASE", "MISSING"):
        return False, "model-" + model.split()[0].lower()
    if model.startswith("CRASH"):
        return impl.startswith("SIG(") or impl.startswith("EXIT(") or impl.startswith("ERR(std:"), "crash"
    if impl.startswith("OK ") and model.startswith("OK "):
        return same_tree(impl[3:], model[3:])
    if impl.startswith("ERR(eval_error)") and model.startswith("ERR(eval_error)"):
        fi, fm = impl.split(" "), model.split(" ")
        if fi[:3] != fm[:3]:
            return False, "error"
        l, c = fi[2].split(":")
        return (len(fi) > 3 and fi[3] == expected_file(fi[1], l, c, hx(FNAME))), "error"
    return False, "kind"


ROOT = re.compile(r"^OK \( (\w+) t=(\S+) l=(\d+):(\d+)-(\d+):(\d+)( \()?")


def judge(data, impl, spec):
    """the oracle: None, or why the implementation's observation violates the property"""
    if impl.startswith("SIG(27)"):
        return "parsing did not finish within the CPU-time limit"
    if impl.startswith("SIG(") or impl.startswith("EXIT("):
        return "the process died (%s): crash, abort or sanitizer report" % impl
    if impl.startswith("ERR("):
        if not impl.startswith("ERR(eval_error) "):
            return "an exception that is not eval_error left the parser: " + impl
        f = impl.split(" ")
        l, c = f[2].split(":")
        if f[3] not in (hx(FNAME), hx("instr eval"), "-") or ((l, c) == ("0", "0")) != (f[3] == "-"):
            return "the eval_error does not carry the file name given to parse"
        if spec.startswith("TRIVIA "):
            return "an input made of white space / comments only must parse (to an empty program)"
        return None
    m = ROOT.match(impl)
    if not m:
        return "unreadable observation"
    if spec == "BADCASE":       # too long for the extracted specification: only death / foreign exceptions are judged
        return None
    kind, el, ec, has_child = m.group(1), m.group(5), m.group(6), m.group(7)
    sp = spec.split(" ")
    if kind == "Noop":
        if sp[0] != "TRIVIA":
            return "the result is an empty program (Noop) although the input contains text: it was silently dropped"
    elif kind == "File":
        if "%s:%s" % (el, ec) != sp[1]:
            return "the File node ends at %s:%s but the input ends at %s (line:col)" % (el, ec, sp[1])
        if sp[0] == "TRIVIA" and has_child:
            return "white space / comments only, yet the tree has statements"
    else:
        return "the root of the tree is neither File nor Noop"
    return None


def builds(tier):
    hbin = vlib.cxx_build("h_parse", flavor="asan")
    sbin = vlib.model_build("parserspec", ["theories/ParserSpecRun.vo"])
    return hbin, sbin


def model_bin():
    return vlib.model_build("parser", ["theories/ParserRun.vo"])


def warm():
    builds("quick")
    model_bin()


ASAN_ENV = {"ASAN_OPTIONS": "detect_leaks=0:abort_on_error=0:allocator_may_return_null=1", "UBSAN_OPTIONS": "print_stacktrace=0"}


def run(c, cases, hbin, mbin, sbin, with_prelude):
    lines = ["raw %s %s" % (hx(b), hx(FNAME)) for _, b, _ in cases]
    small = [i for i, (k, b, fk) in enumerate(cases) if fk is None and (len(b) <= MAX_MODEL_BYTES or (k.startswith("nest-") and len(b) <= 6000))]
    small.sort(key=lambda i: -len(cases[i][1]))       # longest first: the model's cost is quadratic in the input length
    with ThreadPoolExecutor(max_workers=3) as ex:
        fi = ex.submit(lambda: parh(hbin, lines))
        fs = ex.submit(lambda: par_lines(sbin, ["trivia " + (hx(b) if len(b) <= 4 * MAX_INPUT else "zz") for _, b, _ in cases], 1000))
        fm = ex.submit(lambda: par_model(mbin, [lines[i] for i in small])) if mbin else None
        fp = None
        impl, erri = fi.result()
        specs, errs = fs.result()
        msmall, errm = fm.result() if fm else ([], "")
    if len(impl) != len(cases) or len(specs) != len(cases) or (mbin and len(msmall) != len(small)):
        raise vlib.BuildError("harness/spec/model produced %d/%d/%d lines for %d cases\n%s\n%s\n%s" % (len(impl), len(specs), len(msmall), len(cases), erri[-1500:], errs[-1500:], errm[-1500:]))
    model = [None] * len(cases)
    for i, m in zip(small, msmall):
        model[i] = m
    ndis = nfail = 0
    seen = set()
    for (kind, b, fkey), i, mo, sp in zip(cases, impl, model, specs):
        c.cov["evaluations"] += 1
        fam = kind.split("-")[0] if kind.startswith("nest-") or kind.startswith("chain-") else kind.split(":")[0]
        c.dist["input:" + fam] = c.dist.get("input:" + fam, 0) + 1
        obs = "crash" if i.startswith(("SIG(", "EXIT(")) else "eval_error" if i.startswith("ERR(eval_error)") else "foreign" if i.startswith("ERR(") else \
              ("noop" if i.startswith("OK ( Noop") else "tree")
        c.dist["impl:" + obs] = c.dist.get("impl:" + obs, 0) + 1
        if i.startswith("ERR(eval_error)"):
            try:
                r = bytes.fromhex(i.split(" ")[1]).decode("latin-1")
            except ValueError:
                r = ""
            if r.startswith("Maximum parse depth"):
                c.dist["impl:depth-limit"] = c.dist.get("impl:depth-limit", 0) + 1
        if b not in seen:
            seen.add(b)
            if not sp.startswith("TRIVIA") or len(b) > 0:
                c.cov["distinct_nontrivial"] += 1
        if mo is not None and fkey is None:
            ok, what = compare(i, mo)
            c.dist["tie:" + what] = c.dist.get("tie:" + what, 0) + 1
            c.cov["traces_validated_against_impl"] += 1
            if not ok:
                ndis += 1
                if ndis <= 20:
                    c.disagree("parser", {"kind": kind, "input_hex": hx(b), "input": b.decode("latin-1")[:400]}, i[:1500], mo[:1500])
        elif fkey is None:
            c.dist["tie:oracle-only(long)"] = c.dist.get("tie:oracle-only(long)", 0) + 1
        why = judge(b, i, sp)
        if why:
            if fkey is not None:
                if fkey == FINDING_EXP and not (i.startswith("SIG(27)") and mbin and explain_exponential(c, mbin)):
                    c.extra.setdefault("known_finding_not_reproduced", []).append(fkey)
                    continue
                c.fail(why, {"kind": kind, "input_len": len(b), "impl": i[:300]}, finding_key=fkey)
                continue
            nfail += 1
            if nfail <= 40:
                c.fail(why, {"kind": kind, "input_hex": hx(b), "input": b.decode("latin-1")[:400], "impl": i[:600], "spec": sp,
                             "format": "raw <hex input> <hex file name> -> harness/h_parse.cpp dump; spec = ParserSpecRun (TRIVIA|TEXT, end line:col)"})
        elif fkey is not None:
            c.extra.setdefault("known_finding_not_reproduced", []).append(fkey)
    c.cov["disagreements_checked"] += len(small)
    return impl, model, specs


def parh(hbin, lines):
    parts = [lines[i:i + 250] for i in range(0, len(lines), 250)]
    with ThreadPoolExecutor(max_workers=vlib.NCPU) as ex:
        res = list(ex.map(lambda p: vlib.run_lines(hbin, p, timeout=3000, env=ASAN_ENV), parts))
    out, err = [], ""
    for p, (rc, o, e) in zip(parts, res):
        if len(o) != len(p):
            o = o + ["MISSING"] * (len(p) - len(o))
        err += e[-3000:]
        out += o
    return out, err


def explain_exponential(c, mbin):
    """the known finding FINDING_EXP is a statement about the MECHANISM: the model's count of grammar-function invocations on
    `[`*n 1 `]`*n obeys t(n+1) = 3 t(n) + const exactly, hence t(16) >= 3^16 / const: the implementation's time-out on n = 16 is explained"""
    ns = list(range(3, 9))
    _, out, _ = vlib.run_lines(mbin, ["ticks " + hx("[" * n + "1" + "]" * n) for n in ns], timeout=600)
    t = [int(o.split()[1]) if o.startswith("TICKS") and o.endswith("ok") else None for o in out]
    ok = all(x is not None for x in t) and len({t[i + 1] - 3 * t[i] for i in range(len(t) - 1)}) == 1
    t16 = None
    if ok:
        k = t[1] - 3 * t[0]
        t16 = t[-1]
        for _ in range(ns[-1], 16):
            t16 = 3 * t16 + k
    c.extra["exponential_backtracking"] = {"model_ticks": dict(zip(ns, t)), "recurrence_t(n+1)=3t(n)+k_exact": ok, "extrapolated_ticks_n16": t16,
                                           "at_least_3^16/8": bool(ok and t16 * 8 >= 3 ** 16)}
    return bool(ok and t16 * 8 >= 3 ** 16)


def check(tier, seed):
    c = vlib.Check("C01", tier, seed)
    c.cov["rule"] = ("cases = every unittests/*.chai and samples/*.chai, the prelude (thorough: also through the model), every prefix and suffix of %d short programs covering "
                     "each grammar function, bracket deletion/insertion/swap, %d nesting families x depths {1..59, 255, 256, 510..514, 600, 5000}, left-deep chains up to 2000, "
                     "31 probe bytes inserted/substituted at every offset of 3 programs + all 256 bytes in 8 position classes, every string/char content over the "
                     "15-symbol escape alphabet up to length 3 + interpolation shapes, products of trivia fragments, seeded byte-level mutations (flip/insert/delete/duplicate/splice) of the corpus. "
                     "non-trivial = distinct input that is not the empty string; every case is judged by the oracle, cases of at most %d bytes also by the model") % (len(SHORT), 29, MAX_MODEL_BYTES)
    c.assumptions = ["LP64 x86-64; inputs shorter than 2^31 bytes (Position::line/col are C++ int)",
                     "hand port of the grammar layer in ParserDefs.v on top of LexDefs.v (validated against the compiled parser by this correspondence on every run, not proved against the C++ standard)",
                     "the parser is observed through ChaiScript_Parser::parse on a std::string (so *m_end is the string's terminator) with the identity optimizer; "
                     "the harness is built with -fsanitize=address,undefined, asserts enabled",
                     "node constructors' preconditions (assert on the number of children, unchecked children[i]) are explicit Crash outcomes of the model",
                     "C01_depth speaks of the parser's recursion only: operator/call/dot CHAINS are built iteratively and yield trees as deep as the chain is long "
                     "(known finding " + FINDING_CHAIN + ": destroying/evaluating such a tree recurses)",
                     "floating constants whose spelling has an exponent go through libm's pow: compared within %d ulp (see C16)" % MODEL_POW_ULP,
                     "translators tools/translate/t_OperatorTable.py, t_Keywords.py, t_IntLadder.py (shape recognisers over chaiscript_parser.hpp / chaiscript_common.hpp)",
                     "extraction: ExtrOcamlBasic + ExtrOcamlString, no Extract Constant; OCaml driver does line I/O only"]
    tr = ["OperatorTable", "IntLadder", "Keywords"]
    ok01 = c.prove("Properties_C01", model_targets=["props/Properties_Lex.vo"], translators=tr)
    hbin, sbin = builds(tier)
    try:
        mbin = model_bin()
    except vlib.BuildError as ex:
        mbin = None
        c.broken_ties.append(("correspondence", "parser: the mechanism model no longer builds from the regenerated tables", str(ex)[-1500:]))
    corpus = read_corpus()
    cases = corpus + gen_cases(tier, seed)
    pre = prelude_text()
    cases.append(("prelude", pre, None))
    impl, model, specs = run(c, cases, hbin, mbin, sbin, tier == "thorough")
    if tier == "thorough" and mbin:
        # the prelude through the model as well (about a minute: the extracted model indexes a list)
        line = "raw %s %s" % (hx(pre), hx(FNAME))
        _, mo, _ = vlib.run_lines(mbin, [line], timeout=3000)
        ok, what = compare(impl[-1], mo[0] if mo else "MISSING")
        c.cov["traces_validated_against_impl"] += 1
        c.dist["tie:prelude-" + what] = 1
        if not ok:
            c.disagree("parser", {"kind": "prelude"}, impl[-1][:1500], (mo[0] if mo else "MISSING")[:1500])
    for k in (0, len(corpus) + 100, len(cases) // 3, len(cases) // 2, len(cases) - 300, len(cases) - 2):
        k = min(max(k, 0), len(cases) - 1)
        c.sample({"kind": cases[k][0], "input": cases[k][1].decode("latin-1")[:200], "impl": impl[k][:300], "model": (model[k] or "(oracle only)")[:300], "spec": specs[k]})
    return c.finish()


def replay(path):
    r = json.load(open(os.path.join(vlib.ROOT, path) if not os.path.isabs(path) else path))
    if r.get("kind") != "failing-input":
        print("tie-broken replay: the following no longer check:", json.dumps(r.get("no_longer_checks"), indent=1)[:4000])
        return 1
    hbin, sbin = builds("quick")
    b = bytes.fromhex(r["failure"]["case"]["input_hex"]) if r["failure"]["case"]["input_hex"] != "-" else b""
    _, i, e = vlib.run_lines(hbin, ["raw %s %s" % (hx(b), hx(FNAME))], env=ASAN_ENV)
    _, s, _ = vlib.run_lines(sbin, ["trivia " + hx(b)])
    print("input:", repr(b.decode("latin-1")), "\nimpl:", i[0][:800], "\nspec:", s[0])
    why = judge(b, i[0], s[0])
    print("REPRODUCED: " + why if why else "not reproduced")
    if why and e.strip():
        print(e[-1500:])
    return 1 if why else 0
