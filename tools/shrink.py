"""Statement-level shrinking of generated ChaiScript programs (hierarchical delta debugging on the brace structure).
A program is parsed into blocks of statements; one round proposes every single-statement deletion (outer blocks first),
evaluates all proposals in one batch, and keeps the first that still fails.  Several texts with the same structure
(a program and its fully parenthesised twin) are shrunk in lockstep."""


class Block:
    def __init__(self):
        self.stmts = []     # each statement: list of parts (str | Block)


def parse(text):
    pos = [0]

    def block(top):
        b = Block()
        cur, buf, par = [], [], 0

        def flush_txt():
            if buf:
                cur.append("".join(buf))
                buf.clear()

        def flush_stmt():
            flush_txt()
            if any((isinstance(p, Block) or p.strip()) for p in cur):
                b.stmts.append(list(cur))
            cur.clear()

        while pos[0] < len(text):
            ch = text[pos[0]]
            if ch == '"':
                j = pos[0] + 1
                while j < len(text) and text[j] != '"':
                    j += 2 if text[j] == "\\" else 1
                buf.append(text[pos[0]:j + 1])
                pos[0] = j + 1
                continue
            if ch in "([":
                par += 1
            elif ch in ")]":
                par -= 1
            if ch == "{":
                flush_txt()
                pos[0] += 1
                cur.append(block(False))
                continue
            if ch == "}" and not top:
                pos[0] += 1
                flush_stmt()
                return b
            if ch in ";\n" and par == 0:
                pos[0] += 1
                flush_stmt()
                continue
            buf.append(ch)
            pos[0] += 1
        flush_stmt()
        return b

    return block(True)


def render(b, top=True):
    out = []
    for st in b.stmts:
        out.append("".join(p if isinstance(p, str) else render(p, False) for p in st).strip())
    s = "; ".join(out)
    return s if top else "{ " + s + " }"


def blocks(b, path=()):
    """all blocks, outer first, as (path, block)"""
    res = [(path, b)]
    for i, st in enumerate(b.stmts):
        for j, p in enumerate(st):
            if isinstance(p, Block):
                res += blocks(p, path + ((i, j),))
    return res


def get(b, path):
    for i, j in path:
        b = b.stmts[i][j]
    return b


def same_shape(a, b):
    if len(a.stmts) != len(b.stmts):
        return False
    for x, y in zip(a.stmts, b.stmts):
        bx = [p for p in x if isinstance(p, Block)]
        by = [p for p in y if isinstance(p, Block)]
        if len(bx) != len(by) or len(x) != len(y) or any(isinstance(p, Block) != isinstance(q, Block) for p, q in zip(x, y)):
            return False
        if not all(same_shape(p, q) for p, q in zip(bx, by)):
            return False
    return True


def shrink(texts, fails, max_rounds=60, max_candidates=120, budget_s=75):
    """texts: list of structurally identical programs; fails(list of text-tuples) -> list of bool. Returns the shrunk tuple."""
    import copy, time
    t_end = time.time() + budget_s
    trees = [parse(t) for t in texts]
    if not all(same_shape(trees[0], t) for t in trees[1:]):
        trees = trees[:1] * len(trees) if len(set(texts)) == 1 else None
    if trees is None:
        return tuple(texts)
    cur = tuple(render(t) for t in trees)
    if not fails([cur])[0]:
        return tuple(texts)        # the re-rendered program no longer fails: keep the original
    for _ in range(max_rounds):
        if time.time() > t_end:
            break
        cands = []
        for path, b in blocks(trees[0]):
            for k in range(len(b.stmts)):
                cands.append((path, k))
                if len(cands) >= max_candidates:
                    break
            if len(cands) >= max_candidates:
                break
        if not cands:
            break
        props = []
        for path, k in cands:
            ts = [copy.deepcopy(t) for t in trees]
            for t in ts:
                del get(t, path).stmts[k]
            props.append((ts, tuple(render(t) for t in ts)))
        res = fails([p[1] for p in props])
        hit = next((i for i, r in enumerate(res) if r), None)
        if hit is None:
            break
        trees = props[hit][0]
        cur = props[hit][1]
    return cur
